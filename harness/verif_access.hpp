// State projection of the scheduler containers (only with -DCMI_VERIF: the
// classes declare `friend struct VerifAccess`).
#ifndef VERIF_ACCESS_HPP
#define VERIF_ACCESS_HPP

#include "AtomicValue.hpp"
#include "Task.hpp"
#include "TaskQueue.hpp"
#include "ThreadLock.hpp"
#include "ThreadSafeVector.hpp"

#include <vector>

struct VerifAccess {
  template < typename T > static T raw(const AtomicValue< T > &a) {
    return a._value.load();
  }
  static bool locked(const ThreadLock &l) { return l._lock._value.load(); }
  template < typename T > static size_t taken(const ThreadSafeVector< T > &v) {
    return v._number_taken._value.load();
  }
  template < typename T > static size_t cursor(const ThreadSafeVector< T > &v) {
    return v._current_index._value.load();
  }
  template < typename T > static size_t size(const ThreadSafeVector< T > &v) {
    return v._size;
  }
  template < typename T >
  static bool flag(const ThreadSafeVector< T > &v, size_t i) {
    return v._locks[i]._value.load();
  }
  template < typename T >
  static size_t nflags(const ThreadSafeVector< T > &v) {
    size_t n = 0;
    for (size_t i = 0; i < v._size; ++i)
      n += v._locks[i]._value.load();
    return n;
  }
  template < typename T >
  static size_t max_taken(const ThreadSafeVector< T > &v) {
    return v._max_number_taken._value.load();
  }
  static size_t qsize(const TaskQueue &q) { return q._current_queue_size; }
  static size_t qat(const TaskQueue &q, size_t i) { return q._queue[i]; }
  static bool qlocked(const TaskQueue &q) { return locked(q._queue_lock); }
  static ThreadLock *dep(const Task &t, int i) { return t._dependency[i]; }
};

#endif
