// C17 harness: evaluates the four real predicates on cases
//   t n s  kx ky kz qx qy qz  (n times)      t = o (4 points) | i (5 points)
// coordinate = 1 + k 2^-s + q 2^-52 (exact doubles in [1,2)); s > 52: the lattice unit is s ulps (not a power of two),
// coordinate = 1 + (k s + q) 2^-52.  Prints, per case,
// "exact adaptive" signs.
#include "ExactGeometricTests.hpp"

#include <cmath>
#include <cstdio>
#include <iostream>
#include <string>

int main(int argc, char **argv) {
  if (argc < 2)
    return 2;
  FILE *f = fopen(argv[1], "r");
  char t;
  int n;
  long long sh;
  while (fscanf(f, " %c %d %lld", &t, &n, &sh) == 3) {
    CoordinateVector<> p[5];
    for (int i = 0; i < n; ++i) {
      long k[3], q[3];
      if (fscanf(f, "%ld %ld %ld %ld %ld %ld", &k[0], &k[1], &k[2], &q[0], &q[1], &q[2]) != 6)
        return 3;
      for (int j = 0; j < 3; ++j)
        p[i][j] = (sh <= 52) ? 1. + std::ldexp((double)k[j], -(int)sh) + std::ldexp((double)q[j], -52)
                             : 1. + std::ldexp((double)((long long)k[j] * sh + q[j]), -52);
    }
    int e, a;
    if (t == 'o') {
      e = ExactGeometricTests::orient3d_exact(p[0], p[1], p[2], p[3]);
      a = ExactGeometricTests::orient3d_adaptive(p[0], p[1], p[2], p[3]);
    } else {
      e = ExactGeometricTests::insphere_exact(p[0], p[1], p[2], p[3], p[4]);
      a = ExactGeometricTests::insphere_adaptive(p[0], p[1], p[2], p[3], p[4]);
    }
    printf("%d %d\n", e, a);
  }
  return 0;
}
