// C19 harness: drives the real TimeLine class.
//
//  timeline_harness replay <in> <out> : every line of <in> is one history
//        K min4 max4 frame op op ...      op = a<r4> | s | r
//     and produces one line of <out> with, per op, "s:t:hn" (model units) or
//     "S" / "R:t" for save / restore; "X" marks a value that is not exactly
//     representable on the model line.
//  timeline_harness random <seed> <nhist> <K> <min4> <max4> <frame> <out.ndjson> <tmpdir>
//     seeded random histories recorded as NDJSON (see spec/Trace_TimeLine.tla)
//
// Frames map the model line to physical times:
//   0: start 0, unit 1            (dyadic)
//   1: start 0, unit 0.7e9        (generic unit)
//   2: start 3.7e5, unit 1.3e9/2^K (non-zero start, generic)
//   3: start -2.5, unit 0.1
#include "TimeLine.hpp"

#include <cinttypes>
#include <cmath>
#include <cstdio>
#include <cstdlib>
#include <cstring>
#include <fstream>
#include <iostream>
#include <sstream>
#include <string>
#include <vector>

struct Frame {
  double start, end, unit;
};

static Frame make_frame(int frame, int K) {
  double start = 0., unit = 1.;
  switch (frame) {
  case 0:
    start = 0.;
    unit = 1.;
    break;
  case 1:
    start = 0.;
    unit = 0.7e9;
    break;
  case 2:
    start = 3.7e5;
    unit = 1.3e9;
    break;
  case 3:
    start = -2.5;
    unit = 0.1;
    break;
  }
  Frame f;
  f.start = start;
  f.end = start + unit * std::ldexp(1., K);
  // the total interval as the class itself sees it; the model unit is an
  // exact power-of-two fraction of it
  f.unit = std::ldexp(f.end - f.start, -K);
  return f;
}

static uint64_t dist_ulps(double a, double b) {
  int64_t ia, ib;
  memcpy(&ia, &a, 8);
  memcpy(&ib, &b, 8);
  if (ia < 0)
    ia = INT64_MIN - ia;
  if (ib < 0)
    ib = INT64_MIN - ib;
  return ia > ib ? ia - ib : ib - ia;
}

struct Driver {
  Frame f;
  int K;
  TimeLine *tl;
  double last_time;
  std::string tmp;
  double min_p, max_p;

  Driver(int K_, long min4, long max4, int frame, const std::string &tmpdir)
      : K(K_), tl(nullptr), tmp(tmpdir) {
    f = make_frame(frame, K);
    min_p = 0.25 * min4 * f.unit;
    max_p = 0.25 * max4 * f.unit;
    fresh();
  }
  ~Driver() { delete tl; }
  void fresh() {
    delete tl;
    tl = new TimeLine(f.start, f.end, min_p, max_p);
    last_time = f.start;
  }
  // returns false if something was not representable
  bool advance(long r4, long &s, long &t, int &hn, int &ok) {
    const double req = 0.25 * r4 * f.unit;
    double actual = -1., now = -1.;
    const bool has_next = tl->advance(req, actual, now);
    hn = has_next;
    ok = 1;
    const double td = (now - f.start) / f.unit;
    t = std::lround(td);
    if (now == last_time) {
      // the time line did not move: a stop (the reported "actual" step is then
      // the rejected candidate, not a step that was taken)
      s = 0;
      if (has_next)
        ok = 0;
    } else {
      const double sd = actual / f.unit;
      s = std::lround(sd);
      if (sd != (double)s || s <= 0 || actual > req)
        ok = 0;
      if (!(now > last_time))
        ok = 0;
    }
    // physical time within 1 ulp of start + t*unit (exact when start == 0)
    const double expect = f.start + t * f.unit;
    if (f.start == 0.) {
      if (now != expect)
        ok = 0;
    } else if (dist_ulps(now, expect) > 1) {
      ok = 0;
    }
    if (now > f.end)
      ok = 0;
    // "ends exactly on time": the physical end is hit exactly (start = 0) or
    // within 1 ulp
    if (t == (1L << K)) {
      if (f.start == 0. ? (now != f.end) : (dist_ulps(now, f.end) > 1))
        ok = 0;
    }
    last_time = now;
    return ok;
  }
  void save() {
    RestartWriter w(tmp + "/tl.dump");
    tl->write_restart_file(w);
    w.write(last_time);
  }
  long restore() {
    RestartReader r(tmp + "/tl.dump");
    TimeLine *n = new TimeLine(r);
    last_time = r.read< double >();
    delete tl;
    tl = n;
    return std::lround((last_time - f.start) / f.unit);
  }
};

static int do_replay(const char *in, const char *out, const char *tmpdir) {
  std::ifstream fi(in);
  std::ofstream fo(out);
  std::string line;
  while (std::getline(fi, line)) {
    if (line.empty())
      continue;
    std::istringstream is(line);
    int K, frame;
    long min4, max4;
    is >> K >> min4 >> max4 >> frame;
    Driver d(K, min4, max4, frame, tmpdir);
    std::string op;
    bool first = true;
    while (is >> op) {
      if (!first)
        fo << ' ';
      first = false;
      if (op[0] == 'a') {
        long r4 = atol(op.c_str() + 1), s, t;
        int hn, ok;
        d.advance(r4, s, t, hn, ok);
        fo << s << ':' << t << ':' << hn << ':' << ok;
      } else if (op[0] == 's') {
        d.save();
        fo << 'S';
      } else if (op[0] == 'r') {
        fo << "R:" << d.restore();
      }
    }
    fo << '\n';
  }
  return 0;
}

// small LCG so that histories depend on the seed only
struct Rng {
  uint64_t x;
  explicit Rng(uint64_t s) : x(s * 6364136223846793005ULL + 1442695040888963407ULL) {}
  uint64_t next() {
    x = x * 6364136223846793005ULL + 1442695040888963407ULL;
    return x >> 33;
  }
  long range(long lo, long hi) { return lo + (long)(next() % (uint64_t)(hi - lo + 1)); }
};

static int do_random(int argc, char **argv) {
  const uint64_t seed = strtoull(argv[2], nullptr, 10);
  const int nhist = atoi(argv[3]);
  const int K = atoi(argv[4]);
  const long min4 = atol(argv[5]), max4 = atol(argv[6]);
  const int frame = atoi(argv[7]);
  std::ofstream fo(argv[8]);
  const std::string tmpdir = argv[9];
  Rng rng(seed);
  const long N = 1L << K;
  fo << "{\"e\":\"cfg\",\"K\":" << K << ",\"min4\":" << min4 << ",\"max4\":" << max4 << "}\n";
  Driver d(K, min4, max4, frame, tmpdir);
  for (int h = 0; h < nhist; ++h) {
    d.fresh();
    fo << "{\"e\":\"reset\"}\n";
    const int pattern = rng.range(0, 4);
    // the smallest request that keeps every step on the model line
    const long lowest = min4 >= 4 ? 0 : 4;
    long level = 4 * (1L << rng.range(0, K));
    bool alive = true;
    int nadv = 0;
    std::vector< long > pending; // requests to repeat after a restore
    int save_state = 0;          // 0 none, 1 saved (collecting), 2 restored (repeating)
    size_t rep_pos = 0;
    const int maxadv = 60;
    while (alive && nadv < maxadv) {
      long r4;
      if (save_state == 2 && rep_pos < pending.size()) {
        r4 = pending[rep_pos];
      } else {
        switch (pattern) {
        case 0: // wildly varying powers of two and neighbours
          r4 = 4 * (1L << rng.range(0, K)) + rng.range(-1, 1);
          break;
        case 1: // growing
          level = std::min(4 * N, level * 2 + rng.range(-1, 1));
          r4 = level;
          break;
        case 2: // shrinking then recovering
          level = (nadv % 7 == 6) ? 4 * N : std::max(4L, level / 2 + rng.range(-1, 1));
          r4 = level;
          break;
        case 3: // arbitrary values
          r4 = rng.range(1, 4 * N + 8);
          break;
        default: // large steps: finish quickly, hits the end of the line
          r4 = 4 * (N >> rng.range(0, 3)) + rng.range(-1, 2);
          break;
        }
        // occasionally a request around / below the configured minimum
        if (rng.range(0, 19) == 0)
          r4 = std::max(0L, min4 + rng.range(-3, 1));
        if (r4 < lowest)
          r4 = lowest;
      }
      long s, t;
      int hn, ok;
      d.advance(r4, s, t, hn, ok);
      const int rep = (save_state == 2 && rep_pos < pending.size()) ? 1 : 0;
      fo << "{\"e\":\"adv\",\"r4\":" << r4 << ",\"s\":" << s << ",\"t\":" << t
         << ",\"hn\":" << hn << ",\"ok\":" << ok << ",\"rep\":" << rep << "}\n";
      ++nadv;
      if (rep) {
        ++rep_pos;
      } else if (save_state == 1) {
        pending.push_back(r4);
      }
      alive = hn;
      if (save_state == 0 && rng.range(0, 5) == 0 && alive) {
        d.save();
        fo << "{\"e\":\"save\"}\n";
        save_state = 1;
        pending.clear();
      } else if (save_state == 1 && (pending.size() >= 4 || !alive)) {
        const long tr = d.restore();
        fo << "{\"e\":\"restore\",\"t\":" << tr << "}\n";
        save_state = 2;
        rep_pos = 0;
        alive = true;
      } else if (save_state == 2 && rep_pos >= pending.size() && alive &&
                 rng.range(0, 3) == 0) {
        save_state = 0;
      }
    }
  }
  return 0;
}

int main(int argc, char **argv) {
  if (argc >= 5 && std::string(argv[1]) == "replay")
    return do_replay(argv[2], argv[3], argv[4]);
  if (argc >= 10 && std::string(argv[1]) == "random")
    return do_random(argc, argv);
  std::cerr << "usage: see source\n";
  return 2;
}
