// C02 / C03 harness: rays through real DensitySubGrid objects.
//
//   ray_harness single <cases.txt> <out.ndjson>
//     one case per line:
//       N1 N2 N3  ux uy uz  ax ay az  cls  px py pz  dx dy dz  tau  w sigma nu  k_0 ... k_{ncell-1}
//     N: cells per axis; u: physical size of one lattice unit per axis (cell = 4 units); a: anchor;
//     cls: input direction class; p: start point in lattice units; d: direction (integers, normalised here);
//     tau: target optical depth (physical); w, sigma, nu: packet weight, H cross section, frequency;
//     k: number density per cell (neutral fraction 1), flat index ix*N2*N3 + iy*N3 + iz
//     output per case: {"out":o,"end":[..] (lattice units, relative to the anchor),"tauleft":t,"dep":[..],"heat":[..]}
//     dep = mean intensity increment / (w sigma) = path length credited to the cell (physical)
//   ray_harness multi <cases.txt> <out.ndjson>
//     global grid G1 G2 G3 cells split into S1 S2 S3 subgrids (periodic flags P1 P2 P3), one packet traced through the
//     chain of subgrids with DensitySubGridCreator neighbours and output_to_input_direction:
//       G1 G2 G3  S1 S2 S3  P1 P2 P3  ux uy uz  ax ay az  px py pz  dx dy dz  tau w sigma nu maxhops  k_0 ... (global flat)
//     output: {"out":o,"end":[..],"tauleft":t,"dep":[.. global flat ..],"hops":[[sub,in,out],...]}
//   ray_harness tables <out.json> [layouts.txt]   tables of TravelDirections; neighbour tables incl. copies of the
//     layouts  S1 S2 S3 P1 P2 P3 level_0 .. level_{nsub-1}  (one per line)
#include "DensitySubGrid.hpp"
#include "DensitySubGridCreator.hpp"
#include "HomogeneousDensityFunction.hpp"
#include "PhotonPacket.hpp"
#include "TravelDirections.hpp"

#include <cmath>
#include <cstdio>
#include <fstream>
#include <iostream>
#include <sstream>
#include <string>
#include <vector>

// fraction of the opacity carried by helium (0 or 0.25): sigma_H = (1 - f) sigma with neutral fraction 1, sigma_He = 2 f sigma
// with neutral fraction 0.5 (the two neutral fractions differ on purpose)
static double g_fhe = 0.;

static void set_cell(IonizationVariables &v, double n) {
  v.set_number_density(n);
  v.set_ionic_fraction(ION_H_n, 1.);
#ifdef HAS_HELIUM
  v.set_ionic_fraction(ION_He_n, g_fhe > 0. ? 0.5 : 0.);
  v.set_heating(HEATINGTERM_He, 0.);
#endif
  for (int_fast32_t ion = 0; ion < NUMBER_OF_IONNAMES; ++ion)
    v.set_mean_intensity(ion, 0.);
  v.set_heating(HEATINGTERM_H, 0.);
}

// the lattice direction d is a direction in lattice units: physical direction = (d_k u_k), normalised
static void make_packet(PhotonPacket &ph, const double *pos, const long *d, const double *u, double tau, double w,
                        double sigma, double nu) {
  const double v[3] = {d[0] * u[0], d[1] * u[1], d[2] * u[2]};
  const double norm = std::sqrt(v[0] * v[0] + v[1] * v[1] + v[2] * v[2]);
  ph.set_position(CoordinateVector<>(pos[0], pos[1], pos[2]));
  ph.set_direction(CoordinateVector<>(v[0] / norm, v[1] / norm, v[2] / norm));
  ph.set_weight(w);
  ph.set_energy(nu);
  ph.set_target_optical_depth(tau);
  for (int_fast32_t ion = 0; ion < NUMBER_OF_IONNAMES; ++ion)
    ph.set_photoionization_cross_section(ion, 0.);
  ph.set_photoionization_cross_section(ION_H_n, (1. - g_fhe) * sigma);
#ifdef HAS_HELIUM
  ph.set_photoionization_cross_section(ION_He_n, 2. * g_fhe * sigma);
#endif
}

static int do_single(const char *in, const char *outname) {
  std::ifstream f(in);
  FILE *out = fopen(outname, "w");
  std::string line;
  long icase = 0;
  while (std::getline(f, line)) {
    if (line.empty())
      continue;
    // every second case: a quarter of the opacity is helium's
#ifdef HAS_HELIUM
    g_fhe = (icase % 2 == 1) ? 0.25 : 0.;
#endif
    ++icase;
    std::istringstream is(line);
    long N[3], p[3], d[3];
    double u[3], a[3], tau, w, sigma, nu;
    int cls;
    is >> N[0] >> N[1] >> N[2] >> u[0] >> u[1] >> u[2] >> a[0] >> a[1] >> a[2] >> cls >> p[0] >> p[1] >> p[2] >> d[0] >>
        d[1] >> d[2] >> tau >> w >> sigma >> nu;
    const long ncell = N[0] * N[1] * N[2];
    double box[6] = {a[0], a[1], a[2], 4. * N[0] * u[0], 4. * N[1] * u[1], 4. * N[2] * u[2]};
    DensitySubGrid grid(box, CoordinateVector< int_fast32_t >(N[0], N[1], N[2]));
    long idx = 0;
    for (auto it = grid.begin(); it != grid.end(); ++it, ++idx) {
      double k;
      is >> k;
      set_cell(it.get_ionization_variables(), k);
    }
    PhotonPacket ph;
    const double pos[3] = {a[0] + p[0] * u[0], a[1] + p[1] * u[1], a[2] + p[2] * u[2]};
    make_packet(ph, pos, d, u, tau, w, sigma, nu);
    const int o = grid.interact(ph, cls);
    const CoordinateVector<> e = ph.get_position();
    fprintf(out, "{\"out\":%d,\"end\":[%.17g,%.17g,%.17g],\"tauleft\":%.17g,\"dep\":[", o, (e.x() - a[0]) / u[0],
            (e.y() - a[1]) / u[1], (e.z() - a[2]) / u[2], ph.get_target_optical_depth());
    std::string heat, dephe, heathe;
    idx = 0;
    const double sH = (1. - g_fhe) * sigma;
    for (auto it = grid.begin(); it != grid.end(); ++it, ++idx) {
      const IonizationVariables &v = it.get_ionization_variables();
      fprintf(out, "%s%.17g", idx ? "," : "", v.get_mean_intensity(ION_H_n) / (w * sH));
      char b[64];
      snprintf(b, sizeof(b), "%s%.17g", idx ? "," : "", v.get_heating(HEATINGTERM_H) / (w * sH * (nu - 3.288e15)));
      heat += b;
#ifdef HAS_HELIUM
      if (g_fhe > 0.) {
        snprintf(b, sizeof(b), "%s%.17g", idx ? "," : "", v.get_mean_intensity(ION_He_n) / (w * 2. * g_fhe * sigma));
        dephe += b;
        snprintf(b, sizeof(b), "%s%.17g", idx ? "," : "", v.get_heating(HEATINGTERM_He) / (w * 2. * g_fhe * sigma * (nu - 5.948e15)));
        heathe += b;
      }
#endif
    }
    fprintf(out, "],\"heat\":[%s]", heat.c_str());
    if (g_fhe > 0.)
      fprintf(out, ",\"dephe\":[%s],\"heathe\":[%s]", dephe.c_str(), heathe.c_str());
    fprintf(out, "}\n");
    fflush(out);
    g_fhe = 0.;
    (void)ncell;
  }
  fclose(out);
  return 0;
}

static int do_multi(const char *in, const char *outname) {
  std::ifstream f(in);
  FILE *out = fopen(outname, "w");
  std::string line;
  while (std::getline(f, line)) {
    if (line.empty())
      continue;
    std::istringstream is(line);
    long G[3], S[3], P[3], p[3], d[3], maxhops;
    double u[3], a[3], tau, w, sigma, nu;
    is >> G[0] >> G[1] >> G[2] >> S[0] >> S[1] >> S[2] >> P[0] >> P[1] >> P[2] >> u[0] >> u[1] >> u[2] >> a[0] >> a[1] >>
        a[2] >> p[0] >> p[1] >> p[2] >> d[0] >> d[1] >> d[2] >> tau >> w >> sigma >> nu >> maxhops;
    const Box<> box(CoordinateVector<>(a[0], a[1], a[2]),
                    CoordinateVector<>(4. * G[0] * u[0], 4. * G[1] * u[1], 4. * G[2] * u[2]));
    DensitySubGridCreator< DensitySubGrid > creator(box, CoordinateVector< int_fast32_t >(G[0], G[1], G[2]),
                                                    CoordinateVector< int_fast32_t >(S[0], S[1], S[2]),
                                                    CoordinateVector< bool >(P[0], P[1], P[2]));
    HomogeneousDensityFunction df(1., 8000.);
    df.initialize();
    creator.initialize(df);
    std::vector< double > kap(G[0] * G[1] * G[2]);
    for (auto &k : kap)
      is >> k;
    // fill the cells: global index from the cell midpoint
    for (auto git = creator.begin(); git != creator.original_end(); ++git) {
      for (auto cit = (*git).begin(); cit != (*git).end(); ++cit) {
        const CoordinateVector<> m = cit.get_cell_midpoint();
        const long ix = (long)std::floor((m.x() - a[0]) / (4. * u[0]));
        const long iy = (long)std::floor((m.y() - a[1]) / (4. * u[1]));
        const long iz = (long)std::floor((m.z() - a[2]) / (4. * u[2]));
        set_cell(cit.get_ionization_variables(), kap[ix * G[1] * G[2] + iy * G[2] + iz]);
      }
    }
    // optional: "L seed l_0 .. l_{nsub-1}" copy levels per original subgrid; the packet then starts in a (seeded) copy of
    // its subgrid and follows the neighbour wiring of the copies; the deposits are folded back with
    // update_original_counters() before they are read
    std::string tagL;
    unsigned long cseed = 0;
    bool copies = false;
    if (is >> tagL && tagL == "L") {
      is >> cseed;
      std::vector< uint_fast8_t > levels(S[0] * S[1] * S[2]);
      for (auto &l : levels) {
        long v = 0;
        is >> v;
        l = v;
      }
      // every second case the duplicates are made from a DIFFERENT state of the originals (other densities, other
      // neutral fractions); the state the packet is traced through is set afterwards and pushed to the duplicates with
      // update_copy_properties(), as the simulations do before every iteration / after every hydro step
      const bool stale = (cseed % 2 == 1);
      auto fill = [&](const bool real) {
        for (auto git = creator.begin(); git != creator.original_end(); ++git) {
          for (auto cit = (*git).begin(); cit != (*git).end(); ++cit) {
            const CoordinateVector<> m = cit.get_cell_midpoint();
            const long ix = (long)std::floor((m.x() - a[0]) / (4. * u[0]));
            const long iy = (long)std::floor((m.y() - a[1]) / (4. * u[1]));
            const long iz = (long)std::floor((m.z() - a[2]) / (4. * u[2]));
            const double k = kap[ix * G[1] * G[2] + iy * G[2] + iz];
            set_cell(cit.get_ionization_variables(), real ? k : 2. * k + 1.);
            if (!real)
              cit.get_ionization_variables().set_ionic_fraction(ION_H_n, 0.25);
          }
        }
      };
      if (stale)
        fill(false);
      if (cseed % 3 == 0) {
        // a second round of duplication with other levels (what the radiation hydrodynamics driver does when the sources
        // move): first a different level set, then the one the packet is traced through
        std::vector< uint_fast8_t > first(levels.size());
        for (size_t k = 0; k < first.size(); ++k)
          first[k] = (levels[(k + 1) % levels.size()] + 1) % 3;
        creator.create_copies(first);
        creator.update_copies(levels);
      } else {
        creator.create_copies(levels);
      }
      if (stale) {
        fill(true);
        creator.update_copy_properties();
      }
      copies = true;
    }
    PhotonPacket ph;
    const double pos[3] = {a[0] + p[0] * u[0], a[1] + p[1] * u[1], a[2] + p[2] * u[2]};
    make_packet(ph, pos, d, u, tau, w, sigma, nu);
    size_t sub = creator.get_subgrid(ph.get_position()).get_index();
    if (copies) {
      auto first = creator.get_subgrid(ph.get_position());
      auto cp = first.get_copies();
      std::vector< size_t > choice(1, sub);
      if (cp.first != creator.all_end()) {
        for (auto it = cp.first; it != cp.second; ++it)
          choice.push_back(it.get_index());
      }
      sub = choice[cseed % choice.size()];
    }
    int indir = TRAVELDIRECTION_INSIDE;
    int o = 0;
    std::string hops = "[";
    long nh = 0;
    while (true) {
      DensitySubGrid &grid = *creator.get_subgrid(sub);
      o = grid.interact(ph, indir);
      char b[64];
      snprintf(b, sizeof(b), "%s[%zu,%d,%d]", nh ? "," : "", sub, indir, o);
      hops += b;
      ++nh;
      if (o == TRAVELDIRECTION_INSIDE)
        break;
      const uint_fast32_t ngb = grid.get_neighbour(o);
      if (ngb == NEIGHBOUR_OUTSIDE || nh >= maxhops)
        break;
      sub = ngb;
      indir = TravelDirections::output_to_input_direction(o);
    }
    hops += "]";
    const CoordinateVector<> e = ph.get_position();
    fprintf(out, "{\"out\":%d,\"end\":[%.17g,%.17g,%.17g],\"tauleft\":%.17g,\"hops\":%s,\"dep\":[", o,
            (e.x() - a[0]) / u[0], (e.y() - a[1]) / u[1], (e.z() - a[2]) / u[2], ph.get_target_optical_depth(),
            hops.c_str());
    if (copies)
      creator.update_original_counters();
    std::vector< double > dep(kap.size(), 0.);
    for (auto git = creator.begin(); git != creator.original_end(); ++git) {
      for (auto cit = (*git).begin(); cit != (*git).end(); ++cit) {
        const CoordinateVector<> m = cit.get_cell_midpoint();
        const long ix = (long)std::floor((m.x() - a[0]) / (4. * u[0]));
        const long iy = (long)std::floor((m.y() - a[1]) / (4. * u[1]));
        const long iz = (long)std::floor((m.z() - a[2]) / (4. * u[2]));
        dep[ix * G[1] * G[2] + iy * G[2] + iz] += cit.get_ionization_variables().get_mean_intensity(ION_H_n) / (w * sigma);
      }
    }
    for (size_t i = 0; i < dep.size(); ++i)
      fprintf(out, "%s%.17g", i ? "," : "", dep[i]);
    // the heating estimator credits the same path (it is folded back from the copies separately)
    fprintf(out, "],\"heat\":[");
    {
      std::vector< double > heat(kap.size(), 0.);
      for (auto git = creator.begin(); git != creator.original_end(); ++git) {
        for (auto cit = (*git).begin(); cit != (*git).end(); ++cit) {
          const CoordinateVector<> m = cit.get_cell_midpoint();
          const long ix = (long)std::floor((m.x() - a[0]) / (4. * u[0]));
          const long iy = (long)std::floor((m.y() - a[1]) / (4. * u[1]));
          const long iz = (long)std::floor((m.z() - a[2]) / (4. * u[2]));
          heat[ix * G[1] * G[2] + iy * G[2] + iz] +=
              cit.get_ionization_variables().get_heating(HEATINGTERM_H) / (w * sigma * (nu - 3.288e15));
        }
      }
      for (size_t i = 0; i < heat.size(); ++i)
        fprintf(out, "%s%.17g", i ? "," : "", heat[i]);
    }
    fprintf(out, "]}\n");
    fflush(out);
  }
  fclose(out);
  return 0;
}

// layouts: lines  S1 S2 S3 P1 P2 P3 level_0 ... level_{nsub-1}
static std::string do_layouts(const char *in) {
  std::ifstream f(in);
  std::string line, res = "[";
  bool firstl = true;
  while (std::getline(f, line)) {
    if (line.empty())
      continue;
    std::istringstream is(line);
    long S[3], P[3];
    is >> S[0] >> S[1] >> S[2] >> P[0] >> P[1] >> P[2];
    const long nsub = S[0] * S[1] * S[2];
    std::vector< uint_fast8_t > levels(nsub);
    std::string lv;
    for (long i = 0; i < nsub; ++i) {
      int l;
      is >> l;
      levels[i] = l;
      lv += (i ? "," : "") + std::to_string(l);
    }
    const Box<> box(CoordinateVector<>(0.), CoordinateVector<>(1. * S[0], 1. * S[1], 1. * S[2]));
    DensitySubGridCreator< DensitySubGrid > creator(box, CoordinateVector< int_fast32_t >(2 * S[0], 2 * S[1], 2 * S[2]),
                                                    CoordinateVector< int_fast32_t >(S[0], S[1], S[2]),
                                                    CoordinateVector< bool >(P[0], P[1], P[2]));
    HomogeneousDensityFunction df(1., 8000.);
    df.initialize();
    creator.initialize(df);
    creator.create_copies(levels);
    const size_t ntot = creator.number_of_actual_subgrids();
    std::vector< long > orig(ntot, -1);
    for (long g = 0; g < nsub; ++g) {
      orig[g] = g;
      if (levels[g] > 0) {
        auto it = creator.get_subgrid(g);
        auto range = it.get_copies();
        for (auto c = range.first; c != range.second; ++c)
          orig[c.get_index()] = g;
      }
    }
    if (!firstl)
      res += ",";
    firstl = false;
    res += "{\"n\":[" + std::to_string(S[0]) + "," + std::to_string(S[1]) + "," + std::to_string(S[2]) + "],\"per\":[" +
           std::to_string(P[0]) + "," + std::to_string(P[1]) + "," + std::to_string(P[2]) + "],\"levels\":[" + lv +
           "],\"subs\":[";
    for (size_t i = 0; i < ntot; ++i) {
      DensitySubGrid &g = *creator.get_subgrid(i);
      res += std::string(i ? "," : "") + "{\"i\":" + std::to_string(i) + ",\"orig\":" + std::to_string(orig[i]) + ",\"ngb\":[";
      for (int d = 0; d < TRAVELDIRECTION_NUMBER; ++d) {
        const uint_fast32_t n = g.get_neighbour(d);
        res += std::string(d ? "," : "") + (n == NEIGHBOUR_OUTSIDE ? std::string("-1") : std::to_string(n));
      }
      res += "]}";
    }
    res += "]}";
  }
  return res + "]";
}

static int do_tables(const char *outname, const char *layouts) {
  FILE *out = fopen(outname, "w");
  fprintf(out, "{\"layouts\":%s,", layouts ? do_layouts(layouts).c_str() : "[]");
  fprintf(out, "\"o2i\":[");
  for (int i = 0; i < TRAVELDIRECTION_NUMBER; ++i)
    fprintf(out, "%s%d", i ? "," : "", (int)TravelDirections::output_to_input_direction(i));
  fprintf(out, "],\"compat_in\":[");
  bool first = true;
  for (int i = 0; i < TRAVELDIRECTION_NUMBER; ++i)
    for (int sx = -1; sx <= 1; ++sx)
      for (int sy = -1; sy <= 1; ++sy)
        for (int sz = -1; sz <= 1; ++sz) {
          if (sx == 0 && sy == 0 && sz == 0)
            continue;
          const CoordinateVector<> dir(sx * 0.5, sy * 0.25, sz * 0.75);
          fprintf(out, "%s[%d,%d,%d,%d,%d,%d]", first ? "" : ",", i, sx, sy, sz,
                  (int)TravelDirections::is_compatible_input_direction(dir, i),
                  (int)TravelDirections::is_compatible_output_direction(dir, i));
          first = false;
        }
  fprintf(out, "]}\n");
  fclose(out);
  return 0;
}

int main(int argc, char **argv) {
  if (argc >= 4 && std::string(argv[1]) == "single")
    return do_single(argv[2], argv[3]);
  if (argc >= 4 && std::string(argv[1]) == "multi")
    return do_multi(argv[2], argv[3]);
  if (argc >= 3 && std::string(argv[1]) == "tables")
    return do_tables(argv[2], argc >= 4 ? argv[3] : nullptr);
  std::cerr << "usage: see source\n";
  return 2;
}
