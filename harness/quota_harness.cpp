// C01 (launch side) harness: real DistributedPhotonSource objects on real subgrid layouts with copies.
//   quota_harness <cases.txt> <out.ndjson>
//   case line: N  S1 S2 S3  maxbatch nthreads  nsrc  (w_i sub_i)*nsrc   level_0 .. level_{nsub-1}
//     N packets, S subgrids per axis (4 cells each, unit box), integer weights w_i (their sum is a power of two), the source
//     sits in the middle of subgrid sub_i (flat index ix S2 S3 + iy S3 + iz), copy levels per subgrid.
//   output: entry table (source subgrid per entry), totals per entry (from a first object drained sequentially with a huge
//   batch), number of batches reported for maxbatch, and the batches nthreads real threads obtained from a second, identical
//   object by calling get_photon_batch concurrently until every entry is drained (per entry, in completion order).
#include "DensitySubGrid.hpp"
#include "DensitySubGridCreator.hpp"
#include "DistributedPhotonSource.hpp"
#include "HomogeneousDensityFunction.hpp"
#include "PhotonSourceDistribution.hpp"

#include <atomic>
#include <cstdio>
#include <fstream>
#include <mutex>
#include <omp.h>
#include <sstream>
#include <string>
#include <vector>

class TableDistribution : public PhotonSourceDistribution {
public:
  std::vector< CoordinateVector<> > pos;
  std::vector< double > w;
  virtual photonsourcenumber_t get_number_of_sources() const { return pos.size(); }
  virtual CoordinateVector<> get_position(photonsourcenumber_t i) { return pos[i]; }
  virtual double get_weight(photonsourcenumber_t i) const { return w[i]; }
  virtual double get_total_luminosity() const { return 1.e48; }
};

int main(int argc, char **argv) {
  if (argc < 3)
    return 2;
  std::ifstream f(argv[1]);
  FILE *out = fopen(argv[2], "w");
  std::string line;
  while (std::getline(f, line)) {
    if (line.empty())
      continue;
    std::istringstream is(line);
    long N, S[3], maxbatch, nthr, nsrc;
    is >> N >> S[0] >> S[1] >> S[2] >> maxbatch >> nthr >> nsrc;
    std::vector< long > wi(nsrc), sub(nsrc);
    long W = 0;
    for (long i = 0; i < nsrc; ++i) {
      is >> wi[i] >> sub[i];
      W += wi[i];
    }
    const long nsub = S[0] * S[1] * S[2];
    std::vector< uint_fast8_t > levels(nsub);
    for (auto &l : levels) {
      long v;
      is >> v;
      l = v;
    }
    const Box<> box(CoordinateVector<>(0.), CoordinateVector<>(1.));
    TableDistribution dist;
    for (long i = 0; i < nsrc; ++i) {
      const long ix = sub[i] / (S[1] * S[2]), iy = (sub[i] / S[2]) % S[1], iz = sub[i] % S[2];
      dist.pos.push_back(CoordinateVector<>((ix + 0.5) / S[0], (iy + 0.5) / S[1], (iz + 0.5) / S[2]));
      dist.w.push_back((double)wi[i] / (double)W);
    }
    std::vector< size_t > totals, entrysub, nbatch;
    std::vector< std::vector< size_t > > batches;
    for (int pass = 0; pass < 2; ++pass) {
      DensitySubGridCreator< DensitySubGrid > creator(box, CoordinateVector< int_fast32_t >(4 * S[0], 4 * S[1], 4 * S[2]),
                                                      CoordinateVector< int_fast32_t >(S[0], S[1], S[2]),
                                                      CoordinateVector< bool >(false, false, false));
      HomogeneousDensityFunction df(1., 8000.);
      df.initialize();
      creator.initialize(df);
      std::vector< uint_fast8_t > lv(levels);
      creator.create_copies(lv);
      DistributedPhotonSource< DensitySubGrid > source(N, dist, creator);
      const size_t nent = source.get_number_of_sources();
      if (pass == 0) {
        for (size_t e = 0; e < nent; ++e) {
          nbatch.push_back(source.get_number_of_batches(e, maxbatch));
          totals.push_back(source.get_photon_batch(e, 1000000000));
          entrysub.push_back(source.get_subgrid(e));
        }
      } else {
        batches.assign(nent, std::vector< size_t >());
        std::mutex mtx;
        std::atomic< long > seq(0);
#pragma omp parallel num_threads(nthr) default(shared)
        {
          uint64_t x = 88172645463325252ULL + 977 * omp_get_thread_num();
          std::vector< bool > drained(nent, false);
          size_t ndrained = 0;
          while (ndrained < nent) {
            x ^= x << 13;
            x ^= x >> 7;
            x ^= x << 17;
            const size_t e = x % nent;
            const size_t n = source.get_photon_batch(e, maxbatch);
            {
              std::lock_guard< std::mutex > g(mtx);
              batches[e].push_back(n);
            }
            if (n == 0 && !drained[e]) {
              drained[e] = true;
              ++ndrained;
            }
          }
        }
      }
    }
    fprintf(out, "{\"tot\":[");
    for (size_t e = 0; e < totals.size(); ++e)
      fprintf(out, "%s%zu", e ? "," : "", totals[e]);
    fprintf(out, "],\"sub\":[");
    for (size_t e = 0; e < entrysub.size(); ++e)
      fprintf(out, "%s%zu", e ? "," : "", entrysub[e]);
    fprintf(out, "],\"nbatch\":[");
    for (size_t e = 0; e < nbatch.size(); ++e)
      fprintf(out, "%s%zu", e ? "," : "", nbatch[e]);
    fprintf(out, "],\"batches\":[");
    for (size_t e = 0; e < batches.size(); ++e) {
      fprintf(out, "%s[", e ? "," : "");
      for (size_t k = 0; k < batches[e].size(); ++k)
        fprintf(out, "%s%zu", k ? "," : "", batches[e][k]);
      fprintf(out, "]");
    }
    fprintf(out, "]}\n");
    fflush(out);
  }
  fclose(out);
  return 0;
}
