// C08 harness: drives the real ThreadSafeVector, TaskQueue, Task::lock_dependency,
// ThreadLock and AtomicValue with per-thread scripts, either
//   * under a cooperative controller that grants ONE atomic operation at a time
//     (every AtomicValue operation is preceded by a CMI_VP yield point), following
//     a schedule = sequence of thread ids produced by TLC from spec/Containers.tla
//     (binding R), or
//   * freely, with seeded scheduling jitter at the yield points (binding T),
// and records the call/return history of the public operations as NDJSON for
// linearizability checking against spec/ContainersA.tla.
//
//   containers_harness <scenario file> <out.ndjson>
//
// Scenario file (one scenario = S U T.. (R|F).. E):
//   S <id> <nthreads> <pool> <nq> <nl> <ntasks> <dep>...   dep = "-", "0", "0+1"
//   U <tok>...        set-up script, run by thread nthreads+1 before the workers
//   T <tok>...        script of the next worker thread
//   R <tid>...        one controlled run following this schedule
//   F <seed> <n>      n free runs with jitter
//   E
// Tokens: g gs f | a<q>.<x> p<q> tp<q> u ra<q> | lk<l> tl<l> ul | c:<kind>:<v>
#include "VerifHooks.hpp"
#include "VerifAccess.hpp"
#include "MemorySpace.hpp"
#include "PhotonBuffer.hpp"

#include <atomic>
#include <condition_variable>
#include <cstdarg>
#include <cstdio>
#include <cstdlib>
#include <cstring>
#include <fstream>
#include <iostream>
#include <mutex>
#include <sstream>
#include <string>
#include <sys/wait.h>
#include <thread>
#include <unistd.h>
#include <vector>

// ----------------------------------------------------------------------------
struct Scenario {
  int id, nthreads, pool, nq, nl, ntasks;
  std::vector< std::vector< int > > deps;
  std::vector< std::string > setup;
  std::vector< std::vector< std::string > > scripts;
  struct Run {
    bool free;
    std::vector< int > sched;
    unsigned long seed;
  };
  std::vector< Run > runs;
};

struct Objects {
  ThreadSafeVector< int > pool;
  ThreadSafeVector< Task > tasks;
  std::vector< TaskQueue * > queues;
  std::vector< ThreadLock > locks;
  AtomicValue< int_fast32_t > ctr;
  AtomicValue< int_fast32_t > ctrmax;
  Objects(const Scenario &s)
      : pool(s.pool, "pool"), tasks(s.ntasks + 1, "tasks"), locks(s.nl), ctr(0),
        ctrmax(0) {
    for (int q = 0; q < s.nq; ++q)
      queues.push_back(new TaskQueue(s.ntasks + 2, "queue"));
    tasks.get_free_elements(s.ntasks);
    for (int x = 0; x < s.ntasks; ++x) {
      if (s.deps[x].size() > 0)
        tasks[x].set_dependency(&locks[s.deps[x][0]]);
      if (s.deps[x].size() > 1)
        tasks[x].set_extra_dependency(&locks[s.deps[x][1]]);
    }
  }
  ~Objects() {
    for (auto q : queues)
      delete q;
  }
};

// ----------------------------------------------------------------------------
// history
static std::mutex g_evmutex;
static std::vector< std::string > g_events;
static void ev(const char *fmt, ...) {
  char buf[512];
  va_list a;
  va_start(a, fmt);
  vsnprintf(buf, sizeof(buf), fmt, a);
  va_end(a);
  std::lock_guard< std::mutex > g(g_evmutex);
  g_events.push_back(buf);
}

// ----------------------------------------------------------------------------
// controller
static thread_local int my_tid = 0;

struct Controller {
  std::mutex m;
  std::condition_variable cv;
  int nthreads;
  std::vector< int > state; // 0 not started/running, 1 waiting, 2 finished
  std::vector< const char * > label;
  std::vector< const void * > obj;
  int granted;
  bool active;
  Controller() : nthreads(0), granted(-1), active(false) {}
  void init(int n) {
    nthreads = n;
    state.assign(n + 1, 0);
    label.assign(n + 1, "");
    obj.assign(n + 1, nullptr);
    granted = -1;
    active = true;
  }
  // called by a worker in front of an atomic operation
  void wait_turn(const char *lab, const void *o) {
    std::unique_lock< std::mutex > lk(m);
    state[my_tid] = 1;
    label[my_tid] = lab;
    obj[my_tid] = o;
    cv.notify_all();
    cv.wait(lk, [&] { return granted == my_tid; });
    granted = -1;
    state[my_tid] = 0;
  }
  void finish() {
    std::unique_lock< std::mutex > lk(m);
    state[my_tid] = 2;
    cv.notify_all();
  }
  bool all_parked(std::unique_lock< std::mutex > &) {
    for (int t = 1; t <= nthreads; ++t)
      if (state[t] == 0)
        return false;
    return true;
  }
  // wait until nobody runs; returns false on timeout
  bool settle(std::unique_lock< std::mutex > &lk) {
    return cv.wait_for(lk, std::chrono::seconds(20),
                       [&] { return granted == -1 && all_parked(lk); });
  }
  void grant(std::unique_lock< std::mutex > &, int t) {
    granted = t;
    cv.notify_all();
  }
};
static Controller g_ctl;

static void vp_callback(const char *label, const void *obj) {
  if (my_tid > 0 && g_ctl.active)
    g_ctl.wait_turn(label, obj);
}

// ----------------------------------------------------------------------------
// worker
struct Worker {
  int tid;
  Objects *o;
  const Scenario *s;
  std::vector< size_t > slots;
  long task; // last popped task still locked by me, -1 none
  long mine; // last task that was mine and is unlocked (may be re-added)
  int explicit_lock;
  bool controlled;

  void opb() {
    if (controlled)
      g_ctl.wait_turn("opb", nullptr);
  }

  void run_token(const std::string &tok) {
    if (tok == "g" || tok == "gs") {
      const int safe = tok == "gs";
      opb();
      ev("{\"e\":\"call\",\"t\":%d,\"op\":\"get\",\"safe\":%d}", tid, safe);
      const size_t i = safe ? o->pool.get_free_element_safe() : o->pool.get_free_element();
      long r = (i >= (size_t)s->pool) ? -1 : (long)i;
      ev("{\"e\":\"ret\",\"t\":%d,\"r\":%ld}", tid, r);
      if (r >= 0)
        slots.push_back(i);
    } else if (tok == "f") {
      if (slots.empty())
        return;
      const size_t i = slots.back();
      slots.pop_back();
      opb();
      ev("{\"e\":\"call\",\"t\":%d,\"op\":\"free\",\"i\":%zu}", tid, i);
      o->pool.free_element(i);
      ev("{\"e\":\"ret\",\"t\":%d,\"r\":0}", tid);
    } else if (tok[0] == 'a') {
      int q, x;
      sscanf(tok.c_str(), "a%d.%d", &q, &x);
      opb();
      ev("{\"e\":\"call\",\"t\":%d,\"op\":\"add\",\"q\":%d,\"x\":%d}", tid, q, x);
      o->queues[q]->add_task(x);
      ev("{\"e\":\"ret\",\"t\":%d,\"r\":0}", tid);
    } else if (tok[0] == 'r' && tok[1] == 'a') {
      if (mine < 0)
        return;
      const int q = atoi(tok.c_str() + 2);
      const long x = mine;
      mine = -1;
      opb();
      ev("{\"e\":\"call\",\"t\":%d,\"op\":\"add\",\"q\":%d,\"x\":%ld}", tid, q, x);
      o->queues[q]->add_task(x);
      ev("{\"e\":\"ret\",\"t\":%d,\"r\":0}", tid);
    } else if (tok[0] == 'p' || (tok[0] == 't' && tok[1] == 'p')) {
      if (task >= 0)
        return; // still holding a task: a worker never pops then
      const int tr = tok[0] == 't';
      const int q = atoi(tok.c_str() + (tr ? 2 : 1));
      opb();
      ev("{\"e\":\"call\",\"t\":%d,\"op\":\"pop\",\"q\":%d,\"try\":%d}", tid, q, tr);
      const size_t x = tr ? o->queues[q]->try_get_task(o->tasks) : o->queues[q]->get_task(o->tasks);
      const long r = (x == NO_TASK) ? -1 : (long)x;
      ev("{\"e\":\"ret\",\"t\":%d,\"r\":%ld}", tid, r);
      task = r;
    } else if (tok == "u") {
      if (task < 0)
        return;
      const long x = task;
      opb();
      ev("{\"e\":\"call\",\"t\":%d,\"op\":\"unl\",\"x\":%ld}", tid, x);
      o->tasks[x].unlock_dependency();
      ev("{\"e\":\"ret\",\"t\":%d,\"r\":0}", tid);
      task = -1;
      mine = x;
    } else if (tok[0] == 'l' && tok[1] == 'k') {
      if (explicit_lock >= 0 || task >= 0)
        return;
      const int l = atoi(tok.c_str() + 2);
      opb();
      ev("{\"e\":\"call\",\"t\":%d,\"op\":\"lk\",\"l\":%d}", tid, l);
      o->locks[l].lock();
      ev("{\"e\":\"ret\",\"t\":%d,\"r\":0}", tid);
      explicit_lock = l;
    } else if (tok[0] == 't' && tok[1] == 'l') {
      if (explicit_lock >= 0)
        return;
      const int l = atoi(tok.c_str() + 2);
      opb();
      ev("{\"e\":\"call\",\"t\":%d,\"op\":\"tlk\",\"l\":%d}", tid, l);
      const bool ok = o->locks[l].try_lock();
      ev("{\"e\":\"ret\",\"t\":%d,\"r\":%d}", tid, (int)ok);
      if (ok)
        explicit_lock = l;
    } else if (tok == "ul") {
      if (explicit_lock < 0)
        return;
      const int l = explicit_lock;
      explicit_lock = -1;
      opb();
      ev("{\"e\":\"call\",\"t\":%d,\"op\":\"ulk\",\"l\":%d}", tid, l);
      o->locks[l].unlock();
      ev("{\"e\":\"ret\",\"t\":%d,\"r\":0}", tid);
    } else if (tok[0] == 'c') {
      char kind[32];
      int v;
      sscanf(tok.c_str(), "c:%31[^:]:%d", kind, &v);
      opb();
      ev("{\"e\":\"call\",\"t\":%d,\"op\":\"ctr\",\"k\":\"%s\",\"v\":%d}", tid, kind, v);
      long r = 0;
      const std::string k = kind;
      if (k == "post_inc")
        r = o->ctr.post_increment();
      else if (k == "pre_inc")
        r = o->ctr.pre_increment();
      else if (k == "pre_dec")
        r = o->ctr.pre_decrement();
      else if (k == "post_add")
        r = o->ctr.post_add(v);
      else if (k == "pre_add")
        r = o->ctr.pre_add(v);
      else if (k == "pre_sub")
        r = o->ctr.pre_subtract(v);
      else if (k == "max") {
        o->ctrmax.max(v);
        r = 0;
      }
      ev("{\"e\":\"ret\",\"t\":%d,\"r\":%ld}", tid, r);
    }
  }

  void run(const std::vector< std::string > &script) {
    for (const auto &tok : script)
      run_token(tok);
  }
};

// ----------------------------------------------------------------------------
static std::string projection(const Scenario &s, Objects &o) {
  std::ostringstream p;
  p << "c" << VerifAccess::cursor(o.pool) % s.pool << "f";
  for (int i = 0; i < s.pool; ++i)
    p << (VerifAccess::flag(o.pool, i) ? 1 : 0);
  p << "t" << VerifAccess::taken(o.pool);
  for (int q = 0; q < s.nq; ++q) {
    p << "q" << (VerifAccess::qlocked(*o.queues[q]) ? 1 : 0) << ":";
    for (size_t i = 0; i < VerifAccess::qsize(*o.queues[q]); ++i)
      p << VerifAccess::qat(*o.queues[q], i) << ",";
  }
  p << "L";
  for (int l = 0; l < s.nl; ++l)
    p << (VerifAccess::locked(o.locks[l]) ? 1 : 0);
  p << "x" << VerifAccess::raw(o.ctr) << "m" << VerifAccess::raw(o.ctrmax);
  return p.str();
}

static void quiet_event(const Scenario &s, Objects &o) {
  std::ostringstream q;
  q << "{\"e\":\"quiet\",\"taken\":" << VerifAccess::taken(o.pool)
    << ",\"flags\":" << VerifAccess::nflags(o.pool) << ",\"qsize\":[";
  for (int i = 0; i < s.nq; ++i)
    q << (i ? "," : "") << VerifAccess::qsize(*o.queues[i]);
  q << "],\"locks\":[";
  for (int l = 0; l < s.nl; ++l)
    q << (l ? "," : "") << (VerifAccess::locked(o.locks[l]) ? 1 : 0);
  q << "],\"ctr\":" << VerifAccess::raw(o.ctr) << ",\"max\":" << VerifAccess::raw(o.ctrmax)
    << "}";
  ev("%s", q.str().c_str());
}

// returns false if the run got stuck
static bool do_run(const Scenario &s, const Scenario::Run &run, int runidx, FILE *out) {
  g_events.clear();
  Objects o(s);
  {
    std::ostringstream r;
    r << "{\"e\":\"reset\",\"scn\":" << s.id << ",\"run\":" << runidx << ",\"free\":"
      << (run.free ? 1 : 0) << "}";
    ev("%s", r.str().c_str());
  }
  // set-up by thread nthreads+1, uncontrolled
  {
    Worker w{s.nthreads + 1, &o, &s, {}, -1, -1, -1, false};
    my_tid = 0;
    w.run(s.setup);
  }
  std::vector< std::string > steps;
  bool stuck = false;
  std::vector< std::thread > threads;
  std::atomic< int > go(0);
  if (!run.free) {
    g_ctl.init(s.nthreads);
    for (int t = 1; t <= s.nthreads; ++t) {
      threads.emplace_back([&, t] {
        my_tid = t;
        Worker w{t, &o, &s, {}, -1, -1, -1, true};
        w.run(s.scripts[t - 1]);
        g_ctl.finish();
      });
    }
    size_t pos = 0;
    long budget = 20000;
    int rr = 0;
    std::unique_lock< std::mutex > lk(g_ctl.m);
    while (true) {
      if (!g_ctl.settle(lk)) {
        stuck = true;
        break;
      }
      // release threads parked between two operations; record a quiescent
      // observation when every thread is between operations or done
      bool all_between = true, any_opb = false, all_done = true;
      for (int t = 1; t <= s.nthreads; ++t) {
        if (g_ctl.state[t] != 2)
          all_done = false;
        if (g_ctl.state[t] == 1 && strcmp(g_ctl.label[t], "opb") == 0)
          any_opb = true;
        else if (g_ctl.state[t] != 2)
          all_between = false;
      }
      if (all_done)
        break;
      if (any_opb) {
        if (all_between)
          quiet_event(s, o);
        for (int t = 1; t <= s.nthreads; ++t) {
          if (g_ctl.state[t] == 1 && strcmp(g_ctl.label[t], "opb") == 0) {
            g_ctl.grant(lk, t);
            if (!g_ctl.settle(lk)) {
              stuck = true;
              break;
            }
          }
        }
        if (stuck)
          break;
        continue;
      }
      if (--budget < 0) {
        stuck = true;
        break;
      }
      // next thread: the schedule, then round robin
      int t = -1;
      while (pos < run.sched.size()) {
        const int c = run.sched[pos++];
        if (c >= 1 && c <= s.nthreads && g_ctl.state[c] == 1) {
          t = c;
          break;
        }
      }
      if (t < 0) {
        for (int k = 0; k < s.nthreads; ++k) {
          const int c = 1 + (rr + k) % s.nthreads;
          if (g_ctl.state[c] == 1) {
            t = c;
            rr = c % s.nthreads;
            break;
          }
        }
      }
      if (t < 0) {
        stuck = true;
        break;
      }
      const std::string lab = g_ctl.label[t];
      g_ctl.grant(lk, t);
      if (!g_ctl.settle(lk)) {
        stuck = true;
        break;
      }
      std::ostringstream st;
      st << "[" << t << ",\"" << lab << "\",\"" << projection(s, o) << "\"]";
      steps.push_back(st.str());
    }
    lk.unlock();
    if (!stuck) {
      for (auto &th : threads)
        th.join();
      g_ctl.active = false;
    }
  } else {
    cmi_verif::state()._seed = run.seed;
    for (int t = 1; t <= s.nthreads; ++t) {
      threads.emplace_back([&, t] {
        my_tid = 0; // free mode: yield points jitter, no controller
        Worker w{t, &o, &s, {}, -1, -1, -1, false};
        while (go.load() == 0) {
        }
        w.run(s.scripts[t - 1]);
      });
    }
    go.store(1);
    // watchdog
    std::atomic< int > done(0);
    std::thread joiner([&] {
      for (auto &th : threads)
        th.join();
      done.store(1);
    });
    for (int i = 0; i < 20000 && !done.load(); ++i)
      usleep(1000);
    if (!done.load()) {
      stuck = true;
      joiner.detach();
    } else {
      joiner.join();
    }
  }
  if (!stuck)
    quiet_event(s, o);
  else
    ev("{\"e\":\"stuck\"}");
  for (const auto &e : g_events)
    fprintf(out, "%s\n", e.c_str());
  if (!run.free) {
    fprintf(out, "{\"e\":\"steps\",\"s\":[");
    for (size_t i = 0; i < steps.size(); ++i)
      fprintf(out, "%s%s", i ? "," : "", steps[i].c_str());
    fprintf(out, "]}\n");
  }
  fflush(out);
  return !stuck;
}

static std::vector< std::string > split(const std::string &line) {
  std::istringstream is(line);
  std::vector< std::string > v;
  std::string t;
  while (is >> t)
    v.push_back(t);
  return v;
}

// ----------------------------------------------------------------------------
// maintenance + stress mode:  containers_harness maint <seed> <nseq> <out.ndjson>
//  (a) sequential histories of the maintenance calls of ThreadSafeVector that the simulations make while no worker runs
//      (get_free_element, free_element, clear_after, clear); after every call the slots held (lock flags), the occupancy
//      count and the cursor are recorded: {"e":"m","op":..,"arg":..,"ret":..,"flags":[..],"taken":n,"cursor":c}
//  (b) stress: T real threads each apply K operations of one kind to one AtomicValue without any controller; the value at
//      the end is recorded next to the sum of the operands: {"e":"stress","kind":..,"threads":T,"ops":K,"expected":x,"got":y}
static std::atomic< int > g_park_state(0); // 0 running, 1 parked, 2 resume
static thread_local bool g_is_releaser = false;
static void park_callback(const char *label, const void *) {
  if (g_is_releaser && strcmp(label, "pre_decrement") == 0 && g_park_state.load() == 0) {
    g_park_state.store(1);
    while (g_park_state.load() != 2)
      usleep(1);
  }
}
static int do_maint(unsigned long seed, int nseq, const char *outname) {
  FILE *out = fopen(outname, "w");
  uint64_t x = 88172645463325252ULL ^ (seed * 2654435761ULL);
  auto rnd = [&x]() {
    x ^= x << 13;
    x ^= x >> 7;
    x ^= x << 17;
    return x;
  };
  for (int q = 0; q < nseq; ++q) {
    const size_t size = 3 + rnd() % 6;
    ThreadSafeVector< int > pool(size);
    fprintf(out, "{\"e\":\"mreset\",\"size\":%zu}\n", size);
    std::vector< size_t > held;
    const int nops = 6 + rnd() % 14;
    for (int k = 0; k < nops; ++k) {
      const uint64_t r = rnd() % 12;
      std::string op;
      long arg = -1, ret = -1;
      if (r < 5 && held.size() < size) {
        op = "get";
        ret = pool.get_free_element();
        held.push_back(ret);
      } else if (r < 7 && !held.empty()) {
        op = "free";
        const size_t j = rnd() % held.size();
        arg = held[j];
        pool.free_element(arg);
        held.erase(held.begin() + j);
      } else if (r < 9) {
        // precondition of clear_after: every slot below the offset is in use
        size_t off = 0;
        std::vector< bool > h(size, false);
        for (size_t v : held)
          h[v] = true;
        while (off < size && h[off])
          ++off;
        if (off > 0)
          off = rnd() % (off + 1);
        op = "clear_after";
        arg = off;
        pool.clear_after(off);
        std::vector< size_t > keep;
        for (size_t v : held)
          if (v < off)
            keep.push_back(v);
        held = keep;
      } else if (r == 10 && held.empty() && rnd() % 2) {
        // a block of slots at the start of the (empty) pool, as the simulations reserve their persistent tasks
        op = "reserve";
        arg = rnd() % size; // strictly smaller than the size (asserted by the code)
        pool.get_free_elements(arg);
        for (long v = 0; v < arg; ++v)
          held.push_back(v);
      } else if (r == 10 && held.empty()) {
        op = "clear_fast"; // precondition: nothing is held
        pool.clear_fast();
      } else if (r == 9) {
        // enumeration of the slots in use (nothing changes); ret = number reported, arg = bit set of the slots reported
        op = "active";
        std::vector< int * > outp(size, nullptr);
        ret = pool.get_active_elements(size, &outp[0]);
        arg = 0;
        for (long v = 0; v < ret; ++v)
          arg |= 1l << (outp[v] - &pool[0]);
      } else {
        op = "clear";
        pool.clear();
        held.clear();
      }
      std::string flags;
      for (size_t i = 0; i < size; ++i)
        flags += std::string(i ? "," : "") + (VerifAccess::flag(pool, i) ? "1" : "0");
      fprintf(out, "{\"e\":\"m\",\"op\":\"%s\",\"arg\":%ld,\"ret\":%ld,\"flags\":[%s],\"taken\":%zu,\"cursor\":%zu}\n", op.c_str(), arg,
              ret, flags.c_str(), VerifAccess::taken(pool), VerifAccess::cursor(pool));
    }
  }
  // (c) sequential histories of one TaskQueue (tasks without dependencies): add_task, add_tasks (a range), get_task and
  //     try_get_task; after every call the queue content: {"e":"q","op":..,"a":..,"b":..,"ret":..,"queue":[..]}
  for (int q = 0; q < nseq; ++q) {
    const size_t ntask = 12;
    ThreadSafeVector< Task > tasks(ntask + 1, "tasks");
    tasks.get_free_elements(ntask);
    TaskQueue queue(ntask + 2, "queue");
    fprintf(out, "{\"e\":\"qreset\",\"size\":%zu}\n", ntask + 2);
    size_t next = 0; // tasks [0, next) have been added
    const int nops = 6 + rnd() % 10;
    for (int k = 0; k < nops; ++k) {
      const uint64_t r = rnd() % 8;
      std::string op;
      long a = -1, b = -1, ret = -1;
      if (r < 2 && next < ntask) {
        op = "add";
        a = next++;
        queue.add_task(a);
      } else if (r < 4 && next < ntask) {
        op = "add_range";
        a = next;
        b = next + rnd() % (ntask - next + 1);
        queue.add_tasks(a, b);
        next = b;
      } else if (r < 6) {
        op = "get";
        const size_t t = queue.get_task(tasks);
        ret = (t == NO_TASK) ? -1 : (long)t;
        if (t != NO_TASK)
          tasks[t].unlock_dependency();
      } else {
        op = "try_get";
        const size_t t = queue.try_get_task(tasks);
        ret = (t == NO_TASK) ? -1 : (long)t;
        if (t != NO_TASK)
          tasks[t].unlock_dependency();
      }
      std::string qs;
      for (size_t i = 0; i < VerifAccess::qsize(queue); ++i)
        qs += std::string(i ? "," : "") + std::to_string(VerifAccess::qat(queue, i));
      fprintf(out, "{\"e\":\"q\",\"op\":\"%s\",\"a\":%ld,\"b\":%ld,\"ret\":%ld,\"queue\":[%s],\"locked\":%d}\n", op.c_str(), a, b, ret,
              qs.c_str(), (int)VerifAccess::qlocked(queue));
    }
  }
  // (c2) a runnable task below n queued tasks whose resource is held by someone else: the pop must reach it, whatever n
  //      {"e":"q",...,"blo":lo,"bhi":hi}  tasks lo .. hi-1 are blocked while the call is made
  {
    const size_t depths[] = {0, 1, 2, 7, 63, 64, 65, 130, 700};
    for (size_t di = 0; di < sizeof(depths) / sizeof(depths[0]); ++di) {
      for (int variant = 0; variant < 2; ++variant) {
        const size_t n = depths[di];
        ThreadSafeVector< Task > tasks(n + 2, "tasks");
        tasks.get_free_elements(n + 1);
        ThreadLock busy;
        for (size_t t = 1; t <= n; ++t)
          tasks[t].set_dependency(&busy);
        TaskQueue queue(n + 3, "queue");
        fprintf(out, "{\"e\":\"qreset\",\"size\":%zu}\n", n + 3);
        auto rec = [&](const char *op, long a, long b, long ret, long blo, long bhi) {
          std::string qs;
          for (size_t i = 0; i < VerifAccess::qsize(queue); ++i)
            qs += std::string(i ? "," : "") + std::to_string(VerifAccess::qat(queue, i));
          fprintf(out, "{\"e\":\"q\",\"op\":\"%s\",\"a\":%ld,\"b\":%ld,\"ret\":%ld,\"queue\":[%s],\"locked\":%d,\"blo\":%ld,\"bhi\":%ld}\n",
                  op, a, b, ret, qs.c_str(), (int)VerifAccess::qlocked(queue), blo, bhi);
        };
        queue.add_tasks(0, n + 1);
        rec("add_range", 0, n + 1, -1, 0, 0);
        busy.lock();
        for (int k = 0; k < 2; ++k) { // the second call finds only blocked tasks
          const size_t t = variant ? queue.try_get_task(tasks) : queue.get_task(tasks);
          if (t != NO_TASK)
            tasks[t].unlock_dependency();
          rec(variant ? "try_get" : "get", -1, -1, t == NO_TASK ? -1 : (long)t, 1, n + 1);
        }
        busy.unlock();
        for (int k = 0; k < 3; ++k) {
          const size_t t = variant ? queue.try_get_task(tasks) : queue.get_task(tasks);
          if (t != NO_TASK)
            tasks[t].unlock_dependency();
          rec(variant ? "try_get" : "get", -1, -1, t == NO_TASK ? -1 : (long)t, 0, 0);
        }
      }
    }
  }
  // (c3) hand-over of a slot of the photon buffer pool: a thread that releases a buffer is stopped between clearing the
  //      slot flag and lowering the occupancy count (the yield point of that decrement); another thread obtains the very
  //      same slot and stores packets; the releaser continues.  What the new holder stored must still be there.
  //      {"e":"handover","size":n,"slot":s,"wrote":w,"found":f,"taken":t}
  for (size_t size = 1; size <= 9; size += (size < 3 ? 1 : 3)) {
    if (size == 1)
      continue; // the new holder cannot get a slot while the count still says "full"
    MemorySpace *space = new MemorySpace(size);
    const size_t slot = space->get_free_buffer();
    for (int i = 0; i < 3; ++i)
      (*space)[slot][(*space)[slot].get_next_free_photon()].set_position(CoordinateVector<>(-1., 0., 0.));
    g_park_state.store(0);
    const int oldmode = cmi_verif::state()._mode;
    cmi_verif::state()._callback.store(park_callback);
    cmi_verif::state()._mode = 2;
    std::thread releaser([&]() {
      g_is_releaser = true;
      space->free_buffer(slot);
      g_is_releaser = false;
    });
    // wait until the releaser is parked (or finished: a version without that yield point)
    for (long spin = 0; g_park_state.load() == 0 && spin < 2000000; ++spin)
      usleep(1);
    long got = -1;
    std::vector< size_t > others;
    for (size_t k = 0; k < 2 * size + 2 && got < 0; ++k) {
      const size_t b = space->get_free_buffer();
      if (b == slot)
        got = b;
      else if (b < size)
        others.push_back(b);
      if (others.size() + 1 >= size) { // keep the pool from filling up: give the others back
        for (size_t o : others)
          space->free_buffer(o);
        others.clear();
      }
    }
    for (size_t o : others)
      space->free_buffer(o);
    const unsigned wrote = 5;
    if (got >= 0)
      for (unsigned i = 0; i < wrote; ++i)
        (*space)[slot][(*space)[slot].get_next_free_photon()].set_position(CoordinateVector<>(7. + i, 0., 0.));
    g_park_state.store(2); // resume
    releaser.join();
    cmi_verif::state()._mode = oldmode;
    unsigned found = 0;
    if (got >= 0)
      for (unsigned i = 0; i < (*space)[slot].size(); ++i)
        found += (*space)[slot][i].get_position().x() == 7. + i;
    fprintf(out, "{\"e\":\"handover\",\"size\":%zu,\"slot\":%zu,\"regot\":%d,\"wrote\":%u,\"found\":%u,\"bufsize\":%u,\"taken\":%zu}\n", size, slot,
            (int)(got >= 0), wrote, found, got >= 0 ? (unsigned)(*space)[slot].size() : 0u, space->get_number_of_active_buffers());
    delete space;
  }
  // (d) MemorySpace::add_photons: packets of a staging buffer are appended to a pool buffer; when it becomes full the
  //     rest goes into a fresh buffer that inherits subgrid and direction. Packets are identified by their position.
  //     {"e":"ovf","cap":C,"t0":n,"nin":m,"ret_same":0|1,"fresh":0|1,"target":[ids],"spill":[ids],"hdr":0|1,"taken":k}
  {
    MemorySpace *space = new MemorySpace(8);
    PhotonBuffer *staging = new PhotonBuffer();
    long nextid = 1;
    const int novf = nseq / 3 + 8;
    for (int q = 0; q < novf; ++q) {
      const uint_fast32_t cap = PHOTONBUFFER_SIZE;
      uint_fast32_t t0, nin;
      switch (q % 8) {
      case 0: t0 = 0; nin = cap; break;            // exactly fills an empty buffer
      case 1: t0 = cap - 1; nin = 1; break;        // exactly fills
      case 2: t0 = cap - 1; nin = 2; break;        // one packet spills
      case 3: t0 = 1; nin = cap; break;            // one packet spills, staging full
      case 4: t0 = cap - 1; nin = cap; break;      // nearly everything spills
      default:
        t0 = rnd() % cap;
        nin = 1 + rnd() % cap;
      }
      const size_t dummy = (q % 3 == 0) ? space->get_free_buffer() : (size_t)-1; // moves the cursor around
      const size_t target = space->get_free_buffer();
      const size_t sub = 3 + rnd() % 50;
      const int dir = rnd() % 27;
      (*space)[target].set_subgrid_index(sub);
      (*space)[target].set_direction(dir);
      std::string idt, ids;
      std::vector< long > expect;
      for (uint_fast32_t i = 0; i < t0; ++i) {
        const uint_fast32_t j = (*space)[target].get_next_free_photon();
        (*space)[target][j].set_position(CoordinateVector<>((double)nextid, 0., 0.));
        expect.push_back(nextid++);
      }
      staging->reset();
      for (uint_fast32_t i = 0; i < nin; ++i) {
        const uint_fast32_t j = staging->get_next_free_photon();
        (*staging)[j].set_position(CoordinateVector<>((double)nextid, 0., 0.));
        expect.push_back(nextid++);
      }
      const size_t before = space->get_number_of_active_buffers();
      const size_t ret = space->add_photons(target, *staging);
      const size_t after = space->get_number_of_active_buffers();
      auto dump = [&](size_t b) {
        std::string r;
        for (uint_fast32_t i = 0; i < (*space)[b].size(); ++i)
          r += std::string(i ? "," : "") + std::to_string((long)(*space)[b][i].get_position().x());
        return r;
      };
      const bool same = ret == target;
      fprintf(out, "{\"e\":\"ovf\",\"cap\":%u,\"first\":%ld,\"t0\":%u,\"nin\":%u,\"ret_same\":%d,\"fresh\":%d,\"target\":[%s],\"spill\":[%s],"
                   "\"hdr\":%d,\"dtaken\":%ld}\n",
              (unsigned)cap, expect.empty() ? 0 : expect[0], (unsigned)t0, (unsigned)nin, (int)same,
              (int)(!same && ret != dummy && ret < 8), dump(target).c_str(), same ? "" : dump(ret).c_str(),
              (int)(same || ((*space)[ret].get_subgrid_index() == sub && (*space)[ret].get_direction() == dir)),
              (long)after - (long)before);
      if (!same)
        space->free_buffer(ret);
      space->free_buffer(target);
      if (dummy != (size_t)-1)
        space->free_buffer(dummy);
    }
    delete staging;
    delete space;
  }
  const char *kinds[] = {"pre_increment", "post_increment", "pre_decrement", "pre_add", "post_add", "pre_subtract"};
  for (int kk = 0; kk < 6; ++kk) {
    const int T = 8;
    const long K = 200000;
    AtomicValue< int_fast64_t > v(0);
    const std::string kind = kinds[kk];
    const long d = 3;
    long step = 0;
    if (kind == "pre_increment" || kind == "post_increment")
      step = 1;
    else if (kind == "pre_decrement")
      step = -1;
    else if (kind == "pre_add" || kind == "post_add")
      step = d;
    else
      step = -d;
#pragma omp parallel num_threads(T) default(shared)
    {
      for (long i = 0; i < K; ++i) {
        if (kind == "pre_increment")
          v.pre_increment();
        else if (kind == "post_increment")
          v.post_increment();
        else if (kind == "pre_decrement")
          v.pre_decrement();
        else if (kind == "pre_add")
          v.pre_add(d);
        else if (kind == "post_add")
          v.post_add(d);
        else
          v.pre_subtract(d);
      }
    }
    fprintf(out, "{\"e\":\"stress\",\"kind\":\"%s\",\"threads\":%d,\"ops\":%ld,\"expected\":%ld,\"got\":%ld}\n", kind.c_str(), T, K,
            step * T * K, (long)v.value());
  }
  fclose(out);
  return 0;
}

int main(int argc, char **argv) {
  if (argc >= 5 && std::string(argv[1]) == "maint")
    return do_maint(strtoul(argv[2], nullptr, 10), atoi(argv[3]), argv[4]);
  if (argc < 3) {
    std::cerr << "usage: containers_harness <scenarios> <out.ndjson>\n";
    return 2;
  }
  std::ifstream in(argv[1]);
  std::vector< Scenario > scns;
  std::string line;
  while (std::getline(in, line)) {
    auto v = split(line);
    if (v.empty())
      continue;
    if (v[0] == "S") {
      Scenario s;
      s.id = atoi(v[1].c_str());
      s.nthreads = atoi(v[2].c_str());
      s.pool = atoi(v[3].c_str());
      s.nq = atoi(v[4].c_str());
      s.nl = atoi(v[5].c_str());
      s.ntasks = atoi(v[6].c_str());
      for (int x = 0; x < s.ntasks; ++x) {
        std::vector< int > d;
        const std::string &ds = v[7 + x];
        if (ds != "-") {
          size_t p = 0;
          while (p < ds.size()) {
            d.push_back(atoi(ds.c_str() + p));
            p = ds.find('+', p);
            if (p == std::string::npos)
              break;
            ++p;
          }
        }
        s.deps.push_back(d);
      }
      scns.push_back(s);
    } else if (v[0] == "U") {
      scns.back().setup.assign(v.begin() + 1, v.end());
    } else if (v[0] == "T") {
      scns.back().scripts.emplace_back(v.begin() + 1, v.end());
    } else if (v[0] == "R") {
      Scenario::Run r;
      r.free = false;
      r.seed = 0;
      for (size_t i = 1; i < v.size(); ++i)
        r.sched.push_back(atoi(v[i].c_str()));
      scns.back().runs.push_back(r);
    } else if (v[0] == "F") {
      const unsigned long seed = strtoul(v[1].c_str(), nullptr, 10);
      const int n = atoi(v[2].c_str());
      for (int i = 0; i < n; ++i) {
        Scenario::Run r;
        r.free = true;
        r.seed = seed + i;
        scns.back().runs.push_back(r);
      }
    }
  }
  unlink(argv[2]);
  for (const auto &s : scns) {
    size_t next = 0;
    while (next < s.runs.size()) {
      // all controlled runs first need replay mode, free runs jitter mode:
      // one child per mode segment; a stuck run ends the child
      const bool free_mode = s.runs[next].free;
      fflush(nullptr);
      int pfd[2];
      if (pipe(pfd) != 0)
        return 2;
      pid_t pid = fork();
      if (pid == 0) {
        close(pfd[0]);
        setenv("CMI_VERIF_MODE", free_mode ? "jitter" : "replay", 1);
        unsetenv("CMI_VERIF_TRACE");
        cmi_verif::state()._callback.store(vp_callback);
        FILE *out = fopen(argv[2], "a");
        size_t i = next;
        for (; i < s.runs.size() && s.runs[i].free == free_mode; ++i) {
          const bool ok = do_run(s, s.runs[i], (int)i, out);
          size_t done = i + 1;
          if (write(pfd[1], &done, sizeof(done)) != sizeof(done))
            _exit(4);
          if (!ok) {
            fclose(out);
            _exit(3);
          }
        }
        fclose(out);
        _exit(0);
      }
      close(pfd[1]);
      size_t done = next, v;
      while (read(pfd[0], &v, sizeof(v)) == sizeof(v))
        done = v;
      close(pfd[0]);
      int status = 0;
      waitpid(pid, &status, 0);
      if (done == next) {
        // the child died without finishing a single run: report and skip it
        FILE *out = fopen(argv[2], "a");
        fprintf(out, "{\"e\":\"reset\",\"scn\":%d,\"run\":%zu,\"free\":%d}\n{\"e\":\"died\",\"status\":%d}\n",
                s.id, next, (int)free_mode, status);
        fclose(out);
        done = next + 1;
      }
      next = done;
    }
  }
  return 0;
}
