// C20 harness: the real YAMLDictionary / ParameterFile.
//   yaml_harness trees <cases.txt> <out.ndjson>
//      every line of cases.txt is one dictionary:  <n> then n times  <len> <name ids...> <value id>
//      the dictionary is built with add_value, printed with print_contents, the print is parsed by the
//      stream constructor; output per case: {"i":i,"lines":[[ind,"name","value"|""],...],
//      "parsed":{"full:key":"value",...}} or {"i":i,"died":signal}
//   yaml_harness used <seed> <n> <out.ndjson>
//      typed / unit-bearing reads through ParameterFile, dump of the used values, re-read
#include "ParameterFile.hpp"
#include "VerifAccess.hpp"
#include "RestartReader.hpp"
#include "RestartWriter.hpp"

#include <cmath>
#include <cstdio>
#include <cstdlib>
#include <fcntl.h>
#include <fstream>
#include <iostream>
#include <sstream>
#include <string>
#include <sys/wait.h>
#include <unistd.h>
#include <vector>

static const char *NAMES[] = {"", "a", "b", "ab", "k", "grp x", "B", "a b", "z9"};
static const char *VALUES[] = {"", "1", "[1., 2., 3.]", "true", "1.5 m", "some text value", "-2.e-3 kg m^-3", "[true, false]"};

static std::string jesc(const std::string &s) {
  std::string o;
  for (char c : s) {
    if (c == '"' || c == '\\')
      o += '\\';
    o += c;
  }
  return o;
}

static std::string g_outname;
static void one_tree(const std::string &line, int idx, FILE *out) {
  std::istringstream is(line);
  int n;
  is >> n;
  YAMLDictionary d;
  for (int e = 0; e < n; ++e) {
    int len;
    is >> len;
    std::string key;
    for (int j = 0; j < len; ++j) {
      int id;
      is >> id;
      if (j)
        key += ":";
      key += NAMES[id];
    }
    int v;
    is >> v;
    d.add_value(key, VALUES[v]);
  }
  std::ostringstream text;
  d.print_contents(text);
  // the printed lines
  std::string lines = "[";
  {
    std::istringstream ts(text.str());
    std::string l;
    bool first = true;
    while (std::getline(ts, l)) {
      size_t ind = 0;
      while (ind < l.size() && l[ind] == ' ')
        ++ind;
      const size_t colon = l.find(':');
      std::string name = l.substr(ind, colon - ind);
      std::string val = colon + 1 < l.size() ? l.substr(colon + 2) : "";
      if (!first)
        lines += ",";
      first = false;
      lines += "[" + std::to_string(ind) + ",\"" + jesc(name) + "\",\"" + jesc(val) + "\"]";
    }
  }
  lines += "]";
  fprintf(out, "{\"i\":%d,\"lines\":%s,", idx, lines.c_str());
  fflush(out);
  std::istringstream in(text.str());
  YAMLDictionary parsed(in);
  std::string pj = "{";
  bool first = true;
  for (const auto &kv : VerifAccess::yaml_map(parsed)) {
    if (!first)
      pj += ",";
    first = false;
    pj += "\"" + jesc(kv.first) + "\":\"" + jesc(kv.second) + "\"";
  }
  pj += "}";
  fprintf(out, "\"parsed\":%s,", pj.c_str());
  fflush(out);
  // third serialisation: the restart dump of the dictionary (write_restart_file -> restart constructor) is the
  // identity on the tree and on the record of used values; every second key is queried first so that the two differ
  {
    int k = 0;
    for (const auto &kv : VerifAccess::yaml_map(parsed))
      if ((k++ % 2) == 0)
        (void)parsed.get_value< std::string >(kv.first);
    std::ostringstream u0;
    parsed.print_contents(u0, true);
    char fname[1024];
    snprintf(fname, sizeof(fname), "%s.restart_%d.dump", g_outname.c_str(), (int)getpid());
    {
      RestartWriter w(fname);
      parsed.write_restart_file(w);
    }
    std::string rj = "{";
    {
      RestartReader r(fname);
      YAMLDictionary restored(r);
      bool f2 = true;
      for (const auto &kv : VerifAccess::yaml_map(restored)) {
        if (!f2)
          rj += ",";
        f2 = false;
        rj += "\"" + jesc(kv.first) + "\":\"" + jesc(kv.second) + "\"";
      }
      std::ostringstream u1;
      restored.print_contents(u1, true);
      rj += "}";
      fprintf(out, "\"restored\":%s,\"used_same\":%d}\n", rj.c_str(), (int)(u0.str() == u1.str()));
    }
    unlink(fname);
  }
  fflush(out);
}

static int do_trees(const char *cases, const char *outname) {
  std::ifstream f(cases);
  std::vector< std::string > lines;
  std::string l;
  while (std::getline(f, l))
    if (!l.empty())
      lines.push_back(l);
  unlink(outname);
  g_outname = outname;
  size_t next = 0;
  while (next < lines.size()) {
    fflush(nullptr);
    int pfd[2];
    if (pipe(pfd) != 0)
      return 2;
    pid_t pid = fork();
    if (pid == 0) {
      close(pfd[0]);
      int devnull = open("/dev/null", O_WRONLY);
      dup2(devnull, 2);
      FILE *out = fopen(outname, "a");
      for (size_t i = next; i < lines.size(); ++i) {
        one_tree(lines[i], (int)i, out);
        size_t done = i + 1;
        if (write(pfd[1], &done, sizeof(done)) != sizeof(done))
          _exit(4);
      }
      fclose(out);
      _exit(0);
    }
    close(pfd[1]);
    size_t done = next, v;
    while (read(pfd[0], &v, sizeof(v)) == sizeof(v))
      done = v;
    close(pfd[0]);
    int status = 0;
    waitpid(pid, &status, 0);
    if (done < lines.size()) {
      // the child died in case number `done`
      FILE *out = fopen(outname, "a");
      fprintf(out, "\"died\":%d}\n", WIFSIGNALED(status) ? WTERMSIG(status) : -WEXITSTATUS(status));
      fclose(out);
      done += 1;
    }
    next = done;
  }
  return 0;
}

// ---- used values ------------------------------------------------------------
struct Rng {
  uint64_t x;
  explicit Rng(uint64_t s) : x(s * 6364136223846793005ULL + 1442695040888963407ULL) {}
  uint64_t next() {
    x = x * 6364136223846793005ULL + 1442695040888963407ULL;
    return x >> 33;
  }
};

static bool close6(double a, double b) {
  if (a == b)
    return true;
  const double m = std::max(std::abs(a), std::abs(b));
  return std::abs(a - b) <= 1.5e-6 * m;
}

static int do_used(uint64_t seed, int n, const char *outname, const char *tmpdir) {
  Rng rng(seed);
  FILE *out = fopen(outname, "w");
  const char *groups[] = {"Box", "Box:inner", "Source", "Source:spectrum:lines", "Mask"};
  for (int t = 0; t < n; ++t) {
    const std::string g = groups[rng.next() % 5];
    // a parameter file that provides some values; the others come from defaults
    const std::string fname = std::string(tmpdir) + "/p.param";
    {
      std::ofstream pf(fname);
      pf << "Given:\n  length: 2.5 kpc\n  time: 3. Myr\n  count: 7\n  flag: yes\n  sides: [1. pc, 2. pc, 3. pc]\n"
         << "  density: 1.e-3 g cm^-3\n  bignum: 1e11\n  bigdigits: 123456789012\n  name: some_file.txt\n"
         << "  label: run A7\n";
    }
    ParameterFile params(fname);
    std::vector< double > first;
    std::vector< std::string > sfirst, ssecond;
    auto read_all = [&](ParameterFile &p, std::vector< double > &v, bool defaults_differ) {
      std::vector< std::string > &sv = defaults_differ ? ssecond : sfirst;
      // 64 bit integers (exponent notation and more than 10 digits), mandatory strings, strings with defaults
      v.push_back((double)p.get_value< uint64_t >("Given:bignum"));
      sv.push_back(std::to_string(p.get_value< int64_t >("Given:bigdigits")));
      sv.push_back(p.get_value< std::string >("Given:name"));
      sv.push_back(p.get_value< std::string >("Given:label"));
      sv.push_back(p.get_value< std::string >(g + ":type", defaults_differ ? "other" : "Homogeneous"));
      // the second read uses different defaults: values must then come from the file
      const char *dl = defaults_differ ? "9. m" : "1.25 pc";
      const char *dv = defaults_differ ? "[9. m, 9. m, 9. m]" : "[1. pc, -2. pc, 0.5 kpc]";
      const char *dt = defaults_differ ? "9. s" : "0.5 Gyr";
      const char *dd = defaults_differ ? "9. kg m^-3" : "100. cm^-3";
      v.push_back(p.get_physical_value< QUANTITY_LENGTH >("Given:length"));
      v.push_back(p.get_physical_value< QUANTITY_TIME >("Given:time"));
      v.push_back(p.get_value< int_fast32_t >("Given:count"));
      v.push_back(p.get_value< bool >("Given:flag"));
      CoordinateVector<> s = p.get_physical_vector< QUANTITY_LENGTH >("Given:sides");
      v.push_back(s.x());
      v.push_back(s.y());
      v.push_back(s.z());
      v.push_back(p.get_physical_value< QUANTITY_DENSITY >("Given:density"));
      v.push_back(p.get_physical_value< QUANTITY_LENGTH >(g + ":length", dl));
      CoordinateVector<> c = p.get_physical_vector< QUANTITY_LENGTH >(g + ":center", dv);
      v.push_back(c.x());
      v.push_back(c.y());
      v.push_back(c.z());
      v.push_back(p.get_physical_value< QUANTITY_TIME >(g + ":age", dt));
      v.push_back(p.get_physical_value< QUANTITY_NUMBER_DENSITY >(g + ":number density", dd));
      v.push_back(p.get_value< double >(g + ":factor", defaults_differ ? 9. : 0.364));
      v.push_back(p.get_value< uint_fast32_t >(g + ":number", defaults_differ ? 9 : 42));
      v.push_back(p.get_value< bool >(g + ":enabled", !defaults_differ));
      CoordinateVector< int_fast32_t > nc = p.get_value< CoordinateVector< int_fast32_t > >(
          g + ":cells", CoordinateVector< int_fast32_t >(defaults_differ ? 9 : 64));
      v.push_back(nc.x());
      v.push_back(nc.z());
    };
    read_all(params, first, false);
    // a value that is set after it has been queried (as the factories do for derived parameters) replaces the
    // recorded used value
    params.add_value(g + ":type", "Changed");
    sfirst[3] = "Changed";
    const std::string used = std::string(tmpdir) + "/p.used";
    {
      std::ofstream uf(used);
      params.print_contents(uf);
    }
    ParameterFile again(used);
    std::vector< double > second;
    read_all(again, second, true);
    int bad = -1;
    for (size_t i = 0; i < first.size(); ++i) {
      if (!close6(first[i], second[i])) {
        bad = (int)i;
        break;
      }
    }
    int sbad = -1;
    for (size_t i = 0; i < sfirst.size(); ++i) {
      if (sfirst[i] != ssecond[i]) {
        sbad = (int)i;
        break;
      }
    }
    fprintf(out, "{\"e\":\"used\",\"group\":\"%s\",\"n\":%zu,\"same\":%d,\"index\":%d,\"a\":%.9g,\"b\":%.9g,"
                 "\"ssame\":%d,\"sindex\":%d,\"sa\":\"%s\",\"sb\":\"%s\",\"bigdigits\":\"%s\",\"bignum\":\"%.0f\"}\n",
            g.c_str(), first.size(), bad < 0 ? 1 : 0, bad, bad >= 0 ? first[bad] : 0., bad >= 0 ? second[bad] : 0.,
            sbad < 0 ? 1 : 0, sbad, sbad >= 0 ? sfirst[sbad].c_str() : "", sbad >= 0 ? ssecond[sbad].c_str() : "",
            sfirst[0].c_str(), first[0]);
  }
  fclose(out);
  return 0;
}

// ---- unit relations ------------------------------------------------------------
// input lines "unit a|unit b|mantissa|exponent": 1 a = mantissa x 10^exponent b.  Output: the relative deviation of
// UnitConverter::convert(1, a, b) from that factor in units of 1e-12 (capped).

// to_SI< q > / to_unit< q > for a quantity given by name (the interface is templated on the quantity)
#define CMI_QLIST(X)                                                                                                  \
  X(ACCELERATION) X(ANGLE) X(DENSITY) X(ENERGY) X(ENERGY_CHANGE_RATE) X(ENERGY_RATE) X(FLUX) X(FORCING_POWER)         \
  X(FREQUENCY) X(FREQUENCY_PER_MASS) X(INVERSE_LENGTH) X(INVERSE_SURFACE_AREA) X(LENGTH) X(MASS) X(MASS_RATE)         \
  X(MOMENTUM) X(NUMBER_DENSITY) X(OPACITY) X(PRESSURE) X(REACTION_RATE) X(SURFACE_AREA) X(SURFACE_DENSITY)            \
  X(TEMPERATURE) X(TIME) X(VELOCITY) X(VOLUME)
static bool q_convert(const std::string &q, double v, const std::string &u, double &si, double &back,
                      std::string &siname) {
#define X(N)                                                                                                          \
  if (q == #N) {                                                                                                      \
    si = UnitConverter::to_SI< QUANTITY_##N >(v, u);                                                                  \
    back = UnitConverter::to_unit< QUANTITY_##N >(si, u);                                                             \
    siname = UnitConverter::get_SI_unit_name(QUANTITY_##N);                                                           \
    return true;                                                                                                      \
  }
  CMI_QLIST(X)
#undef X
  return false;
}
static double reldev(double a, double b) {
  double d = std::abs(a / b - 1.) * 1.e12;
  if (!(d < 1.e9))
    d = 1.e9;
  return d;
}
static void unit_line(FILE *out, const std::string &a, const std::string &b, double dev) {
  fprintf(out, "{\"e\":\"unit\",\"a\":\"%s\",\"b\":\"%s\",\"dev\":%ld}\n", a.c_str(), b.c_str(), (long)std::llround(dev));
}
static int do_units(const char *in, const char *outname) {
  std::ifstream f(in);
  FILE *out = fopen(outname, "w");
  std::string line;
  while (std::getline(f, line)) {
    if (line.empty())
      continue;
    std::vector< std::string > part;
    size_t pos = 0, nxt;
    while ((nxt = line.find('|', pos)) != std::string::npos) {
      part.push_back(line.substr(pos, nxt - pos));
      pos = nxt + 1;
    }
    part.push_back(line.substr(pos));
    if (part[0] == "Q") {
      // Q|quantity|base spelling|unit|mantissa|exponent: three laws, three output lines
      const double v = atof(part[4].c_str()) * std::pow(10., atof(part[5].c_str()));
      double si = 0., back = 0., one = 0., dummy = 0.;
      std::string siname, sn2;
      if (!q_convert(part[1], v, part[3], si, back, siname) || !q_convert(part[1], 1., part[2], one, dummy, sn2)) {
        fprintf(stderr, "unknown quantity %s\n", part[1].c_str());
        return 3;
      }
      unit_line(out, part[1], "base units are the SI unit", reldev(one, 1.));
      unit_line(out, part[1], "to_SI and to_unit", reldev(back, v));
      unit_line(out, part[1], "to_SI agrees with convert", reldev(si, UnitConverter::convert(v, part[3], siname)));
      fflush(out);
      continue;
    }
    if (part[0] == "X") {
      const double v = atof(part[3].c_str()) * std::pow(10., atof(part[4].c_str()));
      const double there = UnitConverter::convert(v, part[1], part[2]);
      unit_line(out, part[1], part[2] + " and back", reldev(UnitConverter::convert(there, part[2], part[1]), v));
      fflush(out);
      continue;
    }
    if (part[0] == "T") {
      const double f = atof(part[5].c_str()) * std::pow(10., atof(part[6].c_str()));
      unit_line(out, part[1] + " -> " + part[2], part[3] + " -> " + part[4],
                reldev(UnitConverter::convert(1., part[1], part[2]), f * UnitConverter::convert(1., part[3], part[4])));
      fflush(out);
      continue;
    }
    if (part[0] == "S") {
      const double k = atof(part[3].c_str());
      const double f = atof(part[4].c_str()) > 0 ? k : 1. / k;
      unit_line(out, part[1] + " -> " + part[2], "scaling",
                reldev(UnitConverter::convert(k, part[1], part[2]), f * UnitConverter::convert(1., part[1], part[2])));
      fflush(out);
      continue;
    }
    double dev;
    if (part[0] == "P") {
      // P|compound|part|exponent|part|exponent...: SI value of the compound vs the product of its parts
      double prod = 1.;
      for (size_t k = 2; k + 1 < part.size(); k += 2)
        prod *= std::pow(UnitConverter::get_unit(part[k]) * 1., atof(part[k + 1].c_str()));
      dev = std::abs((UnitConverter::get_unit(part[1]) * 1.) / prod - 1.) * 1.e12;
      part[0] = part[1];
      part[1] = "product of parts";
    } else if (part[0] == "R") {
      // R|unit|mantissa|exponent: to SI and back
      const double v = atof(part[2].c_str()) * std::pow(10., atof(part[3].c_str()));
      const double si = UnitConverter::get_unit(part[1]) * v;
      dev = std::abs((si / UnitConverter::get_unit(part[1])) / v - 1.) * 1.e12;
      part[0] = part[1];
      part[1] = "SI and back";
    } else {
      const double factor = atof(part[2].c_str()) * std::pow(10., atof(part[3].c_str()));
      const double r = UnitConverter::convert(1., part[0], part[1]);
      dev = std::abs(r / factor - 1.) * 1.e12;
    }
    if (!(dev < 1.e9))
      dev = 1.e9;
    fprintf(out, "{\"e\":\"unit\",\"a\":\"%s\",\"b\":\"%s\",\"dev\":%ld}\n", part[0].c_str(), part[1].c_str(),
            (long)std::llround(dev));
  }
  fclose(out);
  return 0;
}

int main(int argc, char **argv) {
  if (argc >= 4 && std::string(argv[1]) == "units")
    return do_units(argv[2], argv[3]);
  if (argc >= 4 && std::string(argv[1]) == "trees")
    return do_trees(argv[2], argv[3]);
  if (argc >= 6 && std::string(argv[1]) == "used")
    return do_used(strtoull(argv[2], nullptr, 10), atoi(argv[3]), argv[4], argv[5]);
  std::cerr << "usage: see source\n";
  return 2;
}
