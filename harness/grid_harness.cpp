// C16 harness: the legacy grids and search structures of CMacIonize driven along the cases of the TLA+ specifications
// AMRTree (refinement histories), RayLattice (exact rays) and NearestLattice (integer point sets).
//
//   grid_harness amr <cases.txt> <out.ndjson>       real AMRGrid<long>: refinement histories
//   grid_harness amrgrid <cases.txt> <out.ndjson>   real AMRDensityGrid: target trees, locate, rays
//   grid_harness cart <cases.txt> <out.ndjson>      real CartesianDensityGrid: locate, neighbours, rays
//   grid_harness search <cases.txt> <out.ndjson>    real Octree and PointLocations: neighbour searches
// Input formats are documented at the parsers below; every case produces one JSON line.
#include "AMRDensityGrid.hpp"
#include "AMRGrid.hpp"
#include "AMRRefinementScheme.hpp"
#include "Box.hpp"
#include "CartesianDensityGrid.hpp"
#include "DensityFunction.hpp"
#include "Octree.hpp"
#include "Photon.hpp"
#include "PointLocations.hpp"

#include <algorithm>
#include <cmath>
#include <cstdio>
#include <cstdlib>
#include <fstream>
#include <iostream>
#include <map>
#include <set>
#include <sstream>
#include <string>
#include <tuple>
#include <vector>

typedef std::tuple< long, long, long, long > NodeId; // level, X, Y, Z

static std::string jl(const std::vector< long > &v) {
  std::ostringstream s;
  s << "[";
  for (size_t i = 0; i < v.size(); ++i)
    s << (i ? "," : "") << v[i];
  s << "]";
  return s.str();
}
static std::string jd(const std::vector< double > &v) {
  std::ostringstream s;
  s.precision(17);
  s << "[";
  for (size_t i = 0; i < v.size(); ++i)
    s << (i ? "," : "") << v[i];
  s << "]";
  return s.str();
}
static std::string jid(const NodeId &n) {
  std::ostringstream s;
  s << "[" << std::get< 0 >(n) << "," << std::get< 1 >(n) << "," << std::get< 2 >(n) << "," << std::get< 3 >(n) << "]";
  return s.str();
}
static std::string jkey(amrkey_t key) {
  std::ostringstream s;
  s << "[" << (unsigned long)(key >> 32) << "," << (unsigned long)(key & 0xffffffffull) << "]";
  return s.str();
}

struct Frame {
  long nb[3];
  double side[3];   // side of one block
  double anchor[3]; // anchor of the box
  Box<> box() const {
    return Box<>(CoordinateVector<>(anchor[0], anchor[1], anchor[2]),
                 CoordinateVector<>(side[0] * nb[0], side[1] * nb[1], side[2] * nb[2]));
  }
  // node id of a cell from its geometry
  template < typename C > NodeId id_of(const C &cell) const {
    const long L = cell.get_level();
    const Box<> g = cell.get_geometry();
    long x[3];
    for (int k = 0; k < 3; ++k)
      x[k] = std::llround((g.get_anchor()[k] - anchor[k]) / (side[k] / (1l << L)));
    return NodeId(L, x[0], x[1], x[2]);
  }
  // midpoint of a node
  CoordinateVector<> midpoint(long L, const long *x) const {
    CoordinateVector<> m;
    for (int k = 0; k < 3; ++k)
      m[k] = anchor[k] + (x[k] + 0.5) * (side[k] / (1l << L));
    return m;
  }
  // position of a half lattice point of depth D
  CoordinateVector<> half_point(long D, const long *p) const {
    CoordinateVector<> m;
    for (int k = 0; k < 3; ++k)
      m[k] = anchor[k] + p[k] * (side[k] / (1l << (D + 1)));
    return m;
  }
};

// ------------------------------------------------------------------------------------------------------------------
// amr: "C nbx nby nbz px py pz level0 D sx sy sz ax ay az nhist npts" then nhist lines "H ix iy iz L d1..dL" (the node
// to refine: block and octant digits) and npts lines "P x y z" (half lattice of depth D).
// ------------------------------------------------------------------------------------------------------------------
static std::string enumerate(const AMRGrid< long > &grid, size_t &count) {
  std::ostringstream s;
  s << "[";
  count = 0;
  amrkey_t key = grid.get_first_key();
  while (key != grid.get_max_key() && count < 2000000) {
    s << (count ? "," : "") << jkey(key);
    ++count;
    key = grid.get_next_key(key);
  }
  s << "]";
  return s.str();
}

static int do_amr(const char *in, const char *outname) {
  std::ifstream f(in);
  std::ofstream out(outname);
  std::string tag;
  while (f >> tag) {
    if (tag != "C")
      return 2;
    Frame fr;
    long per[3], level0, D, nhist, npts;
    f >> fr.nb[0] >> fr.nb[1] >> fr.nb[2] >> per[0] >> per[1] >> per[2] >> level0 >> D;
    f >> fr.side[0] >> fr.side[1] >> fr.side[2] >> fr.anchor[0] >> fr.anchor[1] >> fr.anchor[2] >> nhist >> npts;
    AMRGrid< long > grid(fr.box(), CoordinateVector< uint_fast32_t >(fr.nb[0], fr.nb[1], fr.nb[2]));
    grid.create_all_cells(level0);
    out << "{\"steps\":[";
    for (long h = 0; h < nhist; ++h) {
      f >> tag;
      long b[3], L;
      f >> b[0] >> b[1] >> b[2] >> L;
      long x[3] = {b[0], b[1], b[2]};
      for (long i = 0; i < L; ++i) {
        long d;
        f >> d;
        x[0] = 2 * x[0] + ((d >> 2) & 1);
        x[1] = 2 * x[1] + ((d >> 1) & 1);
        x[2] = 2 * x[2] + (d & 1);
      }
      // the key of the node is obtained from the real code: the cell of level L that contains the node's midpoint
      const amrkey_t key = grid.get_key(L, fr.midpoint(L, x));
      const amrkey_t first = grid.refine_cell(key);
      size_t count;
      const std::string en = enumerate(grid, count);
      out << (h ? "," : "") << "{\"enum\":" << en << ",\"ncell\":" << grid.get_number_of_cells() << ",\"refined\":"
          << jkey(key) << ",\"first\":" << jkey(first) << "}";
    }
    out << "],";
    // final tree
    grid.set_ngbs(CoordinateVector< bool >(per[0] != 0, per[1] != 0, per[2] != 0));
    std::vector< amrkey_t > keys;
    {
      amrkey_t key = grid.get_first_key();
      while (key != grid.get_max_key() && keys.size() < 2000000) {
        keys.push_back(key);
        key = grid.get_next_key(key);
      }
    }
    double blockvol = fr.side[0] * fr.side[1] * fr.side[2];
    out << "\"enum\":[";
    for (size_t i = 0; i < keys.size(); ++i) {
      out << (i ? "," : "") << jkey(keys[i]);
      grid[keys[i]].value() = i;
    }
    out << "],\"ncell\":" << grid.get_number_of_cells() << ",\"ids\":[";
    for (size_t i = 0; i < keys.size(); ++i)
      out << (i ? "," : "") << jid(fr.id_of(grid[keys[i]]));
    out << "],\"vol\":[";
    for (size_t i = 0; i < keys.size(); ++i)
      out << (i ? "," : "") << std::llround(grid[keys[i]].get_volume() / (blockvol / std::pow(8., D)));
    out << "],\"ngb\":[";
    for (size_t i = 0; i < keys.size(); ++i) {
      out << (i ? "," : "") << "[";
      for (int p = 0; p < 6; ++p) {
        AMRGridCell< long > *n = grid[keys[i]].get_ngb(static_cast< AMRNgbPosition >(p));
        out << (p ? "," : "") << (n == nullptr ? std::string("[-1,-1,-1,-1]") : jid(fr.id_of(*n)));
      }
      out << "]";
    }
    out << "],\"loc\":[";
    std::vector< long > locv, contain;
    for (long i = 0; i < npts; ++i) {
      f >> tag;
      long p[3];
      f >> p[0] >> p[1] >> p[2];
      const CoordinateVector<> pos = fr.half_point(D, p);
      const amrkey_t key = grid.get_key(pos);
      out << (i ? "," : "") << jkey(key);
      locv.push_back(grid.get_cell(pos));
      // the geometry of the located cell contains the position (half open box)
      const Box<> g = grid[key].get_geometry();
      bool inside = true;
      for (int k = 0; k < 3; ++k)
        inside &= (pos[k] >= g.get_anchor()[k] && pos[k] < g.get_anchor()[k] + g.get_sides()[k]);
      contain.push_back(inside);
    }
    out << "],\"cellval\":" << jl(locv) << ",\"contain\":" << jl(contain) << "}\n";
  }
  return 0;
}

// ------------------------------------------------------------------------------------------------------------------
// amrgrid: "G nbx nby nbz px py pz level0 D sx sy sz ax ay az nleaf npts nray", nleaf lines "L lev X Y Z kap" (leaves of
// the target tree with integer opacities), npts lines "P x y z" (half lattice), nray lines
// "R px py pz dx dy dz tau2" (RayLattice units of the uniform lattice of depth D: one finest cell = 4 units).
// ------------------------------------------------------------------------------------------------------------------
struct Target {
  Frame fr;
  std::map< NodeId, long > leaves; // -> kap
  std::set< NodeId > internal;
  long D;
  NodeId node_at(long L, const CoordinateVector<> &p) const {
    long x[3];
    for (int k = 0; k < 3; ++k)
      x[k] = (long)std::floor((p[k] - fr.anchor[k]) / (fr.side[k] / (1l << L)));
    return NodeId(L, x[0], x[1], x[2]);
  }
  // leaf of the target tree containing p (p is never on a cell boundary here), level -1 if none
  NodeId leaf_of(const CoordinateVector<> &p) const {
    for (long L = 0; L <= D; ++L) {
      const NodeId n = node_at(L, p);
      if (leaves.count(n))
        return n;
    }
    return NodeId(-1, 0, 0, 0);
  }
};

class TargetScheme : public AMRRefinementScheme {
  const Target &_t;

public:
  TargetScheme(const Target &t) : _t(t) {}
  virtual bool refine(uint_fast8_t level, DensityGrid::iterator &cell) const {
    return _t.internal.count(_t.node_at(level, cell.get_cell_midpoint())) > 0;
  }
};

class TargetFunction : public DensityFunction {
  const Target &_t;

public:
  TargetFunction(const Target &t) : _t(t) {}
  std::vector< NodeId > *_record = nullptr; // leaves the function is evaluated for (block-wise traversal)
  virtual DensityValues operator()(const Cell &cell) {
    DensityValues v;
    const NodeId n = _t.leaf_of(cell.get_cell_midpoint());
    if (_record)
      _record->push_back(n);
    const long kap = std::get< 0 >(n) >= 0 ? _t.leaves.at(n) : 1;
    // opacity kap = n x sigma: density 1, neutral fraction kap / 4 (cells of opacity 0 still record path lengths)
    v.set_number_density(1.);
    v.set_ionic_fraction(ION_H_n, 0.25 * kap);
#ifdef HAS_HELIUM
    v.set_ionic_fraction(ION_He_n, 0.);
#endif
    v.set_temperature(8000.);
    return v;
  }
};

template < typename G >
static std::string trace_ray(G &grid, const double *u, const double *anchor, const long *p, const long *d, long tau2,
                             const std::vector< DensityGrid::iterator > &order, const bool with_iod = false) {
  for (auto it = grid.begin(); it != grid.end(); ++it)
    it.get_ionization_variables().set_mean_intensity(ION_H_n, 0.);
  const double v[3] = {d[0] * u[0], d[1] * u[1], d[2] * u[2]};
  const double norm = std::sqrt(v[0] * v[0] + v[1] * v[1] + v[2] * v[2]);
  const double ps = norm / 24.;
  Photon photon(CoordinateVector<>(anchor[0] + p[0] * u[0], anchor[1] + p[1] * u[1], anchor[2] + p[2] * u[2]),
                CoordinateVector<>(v[0] / norm, v[1] / norm, v[2] / norm), 4.0e15);
  // optical depth per unit T is kap: n x sigma ps = kap with n x = kap / 4
  const double sigma = 4. / ps;
  photon.set_cross_section(ION_H_n, sigma);
#ifdef HAS_HELIUM
  photon.set_cross_section(ION_He_n, 0.);
  photon.set_cross_section_He_corr(0.);
#endif
  // total optical depth along the ray up to the box boundary (only defined for boxes the ray can leave)
  double iod = -1.;
  if (with_iod) {
    Photon probe(photon.get_position(), photon.get_direction(), 4.0e15);
    probe.set_cross_section(ION_H_n, sigma);
#ifdef HAS_HELIUM
    probe.set_cross_section(ION_He_n, 0.);
    probe.set_cross_section_He_corr(0.);
#endif
    iod = grid.integrate_optical_depth(probe);
  }
  const bool absorbed = (grid.interact(photon, 0.5 * tau2) != grid.end());
  std::vector< double > dep, end;
  for (size_t i = 0; i < order.size(); ++i)
    dep.push_back(order[i].get_ionization_variables().get_mean_intensity(ION_H_n) / sigma);
  for (int k = 0; k < 3; ++k)
    end.push_back((photon.get_position()[k] - anchor[k]) / u[k]);
  std::ostringstream s;
  s.precision(17);
  s << "{\"abs\":" << (absorbed ? 1 : 0) << ",\"end\":" << jd(end) << ",\"dep\":" << jd(dep) << ",\"iod\":" << iod << "}";
  return s.str();
}

static int do_amrgrid(const char *in, const char *outname) {
  std::ifstream f(in);
  std::ofstream out(outname);
  std::string tag;
  while (f >> tag) {
    if (tag != "G")
      return 2;
    Target t;
    Frame &fr = t.fr;
    long per[3], level0, nleaf, npts, nray;
    f >> fr.nb[0] >> fr.nb[1] >> fr.nb[2] >> per[0] >> per[1] >> per[2] >> level0 >> t.D;
    f >> fr.side[0] >> fr.side[1] >> fr.side[2] >> fr.anchor[0] >> fr.anchor[1] >> fr.anchor[2] >> nleaf >> npts >> nray;
    std::vector< NodeId > leaforder;
    for (long i = 0; i < nleaf; ++i) {
      long L, x, y, z, kap;
      f >> tag >> L >> x >> y >> z >> kap;
      t.leaves[NodeId(L, x, y, z)] = kap;
      leaforder.push_back(NodeId(L, x, y, z));
      while (L > 0) {
        --L;
        x >>= 1;
        y >>= 1;
        z >>= 1;
        t.internal.insert(NodeId(L, x, y, z));
      }
    }
    const long two = 1l << level0;
    AMRDensityGrid grid(fr.box(), CoordinateVector< uint_fast32_t >(fr.nb[0] * two, fr.nb[1] * two, fr.nb[2] * two),
                        new TargetScheme(t), 5, CoordinateVector< bool >(per[0] != 0, per[1] != 0, per[2] != 0));
    TargetFunction function(t);
    std::pair< cellsize_t, cellsize_t > block = std::make_pair(0, grid.get_number_of_cells());
    grid.initialize(block, function);
    // cells created by the refinement inherit the ionic fractions of their parent: set the opacities of the target tree
    for (auto it = grid.begin(); it != grid.end(); ++it) {
      const NodeId n = t.leaf_of(it.get_cell_midpoint());
      it.get_ionization_variables().set_number_density(1.);
      it.get_ionization_variables().set_ionic_fraction(ION_H_n, 0.25 * (std::get< 0 >(n) >= 0 ? t.leaves.at(n) : 1));
    }
    // the cells of the grid, identified by their geometry
    const double blockvol = fr.side[0] * fr.side[1] * fr.side[2];
    std::map< NodeId, DensityGrid::iterator > byid;
    out << "{\"cells\":[";
    double volsum = 0.;
    size_t ic = 0;
    for (auto it = grid.begin(); it != grid.end(); ++it, ++ic) {
      const double vol = it.get_volume();
      volsum += vol;
      const long L = std::llround(std::log2(blockvol / vol) / 3.);
      NodeId n = t.node_at(L, it.get_cell_midpoint());
      byid.insert(std::make_pair(n, it));
      out << (ic ? "," : "") << jid(n);
    }
    out << "],\"blocks\":[";
    {
      // block-wise traversal through the job market (DensityGrid::set_densities), as for the Cartesian grid
      const long nc = (long)grid.get_number_of_cells();
      const long cuts[4] = {0, nc / 3, (2 * nc) / 3 + (nc > 2 ? 1 : 0), nc};
      for (int k = 0; k < 3; ++k) {
        std::vector< NodeId > rec;
        function._record = &rec;
        std::pair< cellsize_t, cellsize_t > sub = std::make_pair((cellsize_t)cuts[k], (cellsize_t)cuts[k + 1]);
        grid.set_densities(sub, function, 1);
        function._record = nullptr;
        out << (k ? "," : "") << "[" << cuts[k] << "," << cuts[k + 1] << ",[";
        for (size_t j = 0; j < rec.size(); ++j)
          out << (j ? "," : "") << jid(rec[j]);
        out << "]]";
      }
    }
    out << "],\"ncell\":" << grid.get_number_of_cells() << ",\"volsum\":";
    out.precision(17);
    out << volsum / (blockvol * fr.nb[0] * fr.nb[1] * fr.nb[2]) << ",\"loc\":[";
    for (long i = 0; i < npts; ++i) {
      long p[3];
      f >> tag >> p[0] >> p[1] >> p[2];
      const CoordinateVector<> pos = fr.half_point(t.D, p);
      const cellsize_t idx = grid.get_cell_index(pos);
      const double vol = grid.get_cell_volume(idx);
      const long L = std::llround(std::log2(blockvol / vol) / 3.);
      out << (i ? "," : "") << jid(t.node_at(L, grid.get_cell_midpoint(idx)));
    }
    out << "],\"rays\":[";
    std::vector< DensityGrid::iterator > order;
    bool complete = true;
    for (size_t i = 0; i < leaforder.size(); ++i) {
      auto fnd = byid.find(leaforder[i]);
      if (fnd == byid.end()) {
        complete = false;
        break;
      }
      order.push_back(fnd->second);
    }
    const long fin = 1l << t.D;
    const double u[3] = {fr.side[0] / (4 * fin), fr.side[1] / (4 * fin), fr.side[2] / (4 * fin)};
    for (long i = 0; i < nray; ++i) {
      long p[3], d[3], tau2;
      f >> tag >> p[0] >> p[1] >> p[2] >> d[0] >> d[1] >> d[2] >> tau2;
      if (complete)
        out << (i ? "," : "") << trace_ray(grid, u, fr.anchor, p, d, tau2, order);
    }
    out << "],\"complete\":" << (complete ? 1 : 0) << "}\n";
    out.flush();
  }
  return 0;
}

// ------------------------------------------------------------------------------------------------------------------
// cart: "K n1 n2 n3 px py pz u1 u2 u3 a1 a2 a3 npts nray" (u: physical size of one lattice unit, a cell is 4 units),
// "D k_0 .. k_{ncell-1}" (integer opacities, flat index ix n2 n3 + iy n3 + iz), npts lines "P x y z" (lattice units),
// nray lines "R px py pz dx dy dz tau2".
// ------------------------------------------------------------------------------------------------------------------
class TableFunction : public DensityFunction {
  const std::vector< long > &_kap;
  const long *_n;
  const double *_u;
  const double *_a;

public:
  TableFunction(const std::vector< long > &kap, const long *n, const double *u, const double *a)
      : _kap(kap), _n(n), _u(u), _a(a) {}
  long flat(const CoordinateVector<> &p) const {
    long i[3];
    for (int k = 0; k < 3; ++k)
      i[k] = (long)std::floor((p[k] - _a[k]) / (4. * _u[k]));
    return i[0] * _n[1] * _n[2] + i[1] * _n[2] + i[2];
  }
  std::vector< long > *_record = nullptr; // cells the function is evaluated for (block-wise traversal)
  virtual DensityValues operator()(const Cell &cell) {
    if (_record)
      _record->push_back(flat(cell.get_cell_midpoint()));
    DensityValues v;
    v.set_number_density(1.);
    v.set_ionic_fraction(ION_H_n, 0.25 * _kap[flat(cell.get_cell_midpoint())]);
#ifdef HAS_HELIUM
    v.set_ionic_fraction(ION_He_n, 0.);
#endif
    v.set_temperature(8000.);
    return v;
  }
};

static int do_cart(const char *in, const char *outname) {
  std::ifstream f(in);
  std::ofstream out(outname);
  out.precision(17);
  std::string tag;
  while (f >> tag) {
    if (tag != "K")
      return 2;
    long n[3], per[3], npts, nray;
    double u[3], a[3];
    f >> n[0] >> n[1] >> n[2] >> per[0] >> per[1] >> per[2] >> u[0] >> u[1] >> u[2] >> a[0] >> a[1] >> a[2] >> npts >> nray;
    const long ncell = n[0] * n[1] * n[2];
    std::vector< long > kap(ncell);
    f >> tag;
    for (long i = 0; i < ncell; ++i)
      f >> kap[i];
    Box<> box(CoordinateVector<>(a[0], a[1], a[2]), CoordinateVector<>(4 * n[0] * u[0], 4 * n[1] * u[1], 4 * n[2] * u[2]));
    CartesianDensityGrid grid(box, CoordinateVector< int_fast32_t >(n[0], n[1], n[2]),
                              CoordinateVector< bool >(per[0] != 0, per[1] != 0, per[2] != 0));
    TableFunction function(kap, n, u, a);
    std::pair< cellsize_t, cellsize_t > block = std::make_pair(0, grid.get_number_of_cells());
    grid.initialize(block, function);
    // enumeration: flat index (from the midpoint) of every cell the iterator visits, volumes
    std::vector< long > visit;
    std::vector< DensityGrid::iterator > order(ncell, grid.end());
    double volsum = 0.;
    for (auto it = grid.begin(); it != grid.end(); ++it) {
      const long fl = function.flat(it.get_cell_midpoint());
      visit.push_back(fl);
      if (fl >= 0 && fl < ncell)
        order[fl] = it;
      volsum += it.get_volume();
    }
    // block-wise traversal (the way the cell range is divided over processes): a block [b, e) of the enumeration is
    // visited through the traversal job market (DensityGrid::set_densities); which cells does it touch?
    std::string blocks = "[";
    {
      const long cuts[5] = {0, ncell / 3, ncell / 3, (2 * ncell) / 3 + (ncell > 2 ? 1 : 0), ncell};
      for (int k = 0; k < 4; ++k) {
        std::vector< long > rec;
        function._record = &rec;
        std::pair< cellsize_t, cellsize_t > sub = std::make_pair((cellsize_t)cuts[k], (cellsize_t)cuts[k + 1]);
        grid.set_densities(sub, function, 1);
        function._record = nullptr;
        blocks += std::string(k ? "," : "") + "[" + std::to_string(cuts[k]) + "," + std::to_string(cuts[k + 1]) + "," + jl(rec) + "]";
      }
    }
    blocks += "]";
    out << "{\"visit\":" << jl(visit) << ",\"blocks\":" << blocks << ",\"ncell\":" << grid.get_number_of_cells()
        << ",\"volsum\":" << volsum / (64. * ncell * u[0] * u[1] * u[2]) << ",\"loc\":[";
    for (long i = 0; i < npts; ++i) {
      long p[3];
      f >> tag >> p[0] >> p[1] >> p[2];
      const CoordinateVector<> pos(a[0] + p[0] * u[0], a[1] + p[1] * u[1], a[2] + p[2] * u[2]);
      out << (i ? "," : "") << function.flat(grid.get_cell_midpoint(grid.get_cell_index(pos)));
    }
    out << "],\"ngb\":[";
    for (long c = 0; c < ncell; ++c) {
      // neighbours of the cell with flat index c: [axis, sign, neighbour flat index or -1]
      auto ngbs = grid.get_neighbours(order[c].get_index());
      std::vector< std::vector< long > > rows;
      for (size_t j = 0; j < ngbs.size(); ++j) {
        const CoordinateVector<> normal = std::get< 2 >(ngbs[j]);
        long axis = 0, sign = 0;
        for (int k = 0; k < 3; ++k)
          if (normal[k] != 0.) {
            axis = k + 1;
            sign = normal[k] > 0. ? 1 : -1;
          }
        DensityGrid::iterator nit = std::get< 0 >(ngbs[j]);
        const long nfl = (nit == grid.end()) ? -1 : function.flat(nit.get_cell_midpoint());
        // geometry of the tuple in lattice units (a cell has 4 units per axis): face midpoint and neighbour midpoint
        // relative to the cell midpoint, face area; a value that is not the lattice value to 1e-7 is reported as 777777
        const CoordinateVector<> cmid = order[c].get_cell_midpoint();
        const CoordinateVector<> fmid = std::get< 1 >(ngbs[j]);
        const CoordinateVector<> rel = std::get< 4 >(ngbs[j]);
        std::vector< long > row{axis, sign, nfl};
        auto lat = [](double x) {
          const double r = std::round(x);
          return (std::abs(x - r) < 1.e-7 * (1. + std::abs(x))) ? (long)r : 777777l;
        };
        for (int k = 0; k < 3; ++k)
          row.push_back(lat(rel[k] / u[k]));
        for (int k = 0; k < 3; ++k)
          row.push_back(lat((fmid[k] - cmid[k]) / u[k]));
        const int o1 = axis == 1 ? 1 : 0, o2 = axis == 3 ? 1 : 2;
        row.push_back(axis ? lat(std::get< 3 >(ngbs[j]) / (u[o1] * u[o2])) : -1);
        rows.push_back(row);
      }
      std::sort(rows.begin(), rows.end());
      out << (c ? "," : "") << "[";
      for (size_t j = 0; j < rows.size(); ++j)
        out << (j ? "," : "") << jl(rows[j]);
      out << "]";
    }
    out << "],\"rays\":[";
    bool complete = true;
    for (long c = 0; c < ncell; ++c)
      complete &= !(order[c] == grid.end());
    for (long i = 0; i < nray; ++i) {
      long p[3], d[3], tau2;
      f >> tag >> p[0] >> p[1] >> p[2] >> d[0] >> d[1] >> d[2] >> tau2;
      if (complete)
        out << (i ? "," : "") << trace_ray(grid, u, a, p, d, tau2, order, per[0] + per[1] + per[2] == 0);
    }
    out << "],\"complete\":" << (complete ? 1 : 0) << "}\n";
    out.flush();
  }
  return 0;
}

// ------------------------------------------------------------------------------------------------------------------
// search: "S u ax ay az side periodic npos nq numpercell" (u: physical size of a lattice unit; cubic box of `side`
// lattice units), npos lines "X x y z h2" (lattice coordinates; smoothing length h2 in HALF units), nq lines
// "Q x2 y2 z2 r2" (query point and radius in HALF lattice units).
// ------------------------------------------------------------------------------------------------------------------
static int do_search(const char *in, const char *outname) {
  std::ifstream f(in);
  std::ofstream out(outname);
  std::string tag;
  while (f >> tag) {
    if (tag != "S")
      return 2;
    double u, a[3];
    long side, periodic, npos, nq, npc;
    f >> u >> a[0] >> a[1] >> a[2] >> side >> periodic >> npos >> nq >> npc;
    std::vector< CoordinateVector<> > positions(npos);
    std::vector< double > h(npos);
    for (long i = 0; i < npos; ++i) {
      long x[3], h2;
      f >> tag >> x[0] >> x[1] >> x[2] >> h2;
      positions[i] = CoordinateVector<>(a[0] + x[0] * u, a[1] + x[1] * u, a[2] + x[2] * u);
      h[i] = 0.5 * h2 * u;
    }
    Box<> box(CoordinateVector<>(a[0], a[1], a[2]), CoordinateVector<>(side * u));
    Octree tree(positions, box, periodic != 0);
    tree.set_auxiliaries(h, Octree::max< double >);
    PointLocations *locations = nullptr;
    if (!periodic)
      locations = new PointLocations(positions, npc, box);
    out << "{\"q\":[";
    for (long i = 0; i < nq; ++i) {
      long q[3], r2;
      f >> tag >> q[0] >> q[1] >> q[2] >> r2;
      const CoordinateVector<> c(a[0] + 0.5 * q[0] * u, a[1] + 0.5 * q[1] * u, a[2] + 0.5 * q[2] * u);
      std::vector< uint_fast32_t > n1 = tree.get_ngbs(c);
      std::vector< uint_fast32_t > n2 = tree.get_ngbs_sphere(c, 0.5 * r2 * u);
      std::vector< long > l1(n1.begin(), n1.end()), l2(n2.begin(), n2.end());
      std::sort(l1.begin(), l1.end());
      std::sort(l2.begin(), l2.end());
      const long cl = tree.get_closest_ngb(c);
      const long pl = locations ? (long)locations->get_closest_neighbour(c) : -1;
      out << (i ? "," : "") << "{\"ngbs\":" << jl(l1) << ",\"sphere\":" << jl(l2) << ",\"closest\":" << cl
          << ",\"pl\":" << pl << "}";
    }
    out << "]";
    // the neighbour iterator used for grid construction: buckets in expanding shells around the bucket of a point; after
    // every stage: how many points have been returned so far and the radius (squared, lattice units) within which the
    // iterator claims to be complete; at the end every point must have been returned exactly once
    if (locations != nullptr && npos <= 200) {
      out << ",\"iter\":[";
      for (long t = 0; t < std::min(3l, npos); ++t) {
        const long idx = (t * 7919 + 13) % npos;
        auto it = locations->get_neighbours(idx);
        std::vector< long > rank(npos, -1), stages;
        long count = 0, dup = 0;
        bool more = true;
        while (more) {
          const std::vector< uint_least32_t > &ngbs = it.get_neighbours();
          for (size_t k = 0; k < ngbs.size(); ++k) {
            if (rank[ngbs[k]] >= 0)
              ++dup;
            else
              rank[ngbs[k]] = ++count;
          }
          more = it.increase_range();
          // safe (slightly reduced) completeness radius in lattice units squared
          const double r2 = it.get_max_radius2() / (u * u);
          stages.push_back(count);
          stages.push_back((long)std::floor(std::min(r2 * (1. - 1.e-9) - 1.e-9, 1.e9)));
        }
        out << (t ? "," : "") << "{\"i\":" << idx << ",\"dup\":" << dup << ",\"count\":" << count << ",\"rank\":" << jl(rank)
            << ",\"stages\":" << jl(stages) << "}";
      }
      out << "]";
    }
    out << "}\n";
    out.flush();
    delete locations;
  }
  return 0;
}

int main(int argc, char **argv) {
  if (argc < 4) {
    std::cerr << "usage: grid_harness amr|amrgrid|cart|search <cases> <out>" << std::endl;
    return 2;
  }
  const std::string mode = argv[1];
  if (mode == "amr")
    return do_amr(argv[2], argv[3]);
  if (mode == "amrgrid")
    return do_amrgrid(argv[2], argv[3]);
  if (mode == "cart")
    return do_cart(argv[2], argv[3]);
  if (mode == "search")
    return do_search(argv[2], argv[3]);
  return 2;
}
