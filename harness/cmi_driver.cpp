// No-MPI driver for the task-based simulations of CMacIonize: the same
// CommandLineParser set-up and dispatch as src/CMacIonize.cpp, without the
// MPICommunicator (MPI initialisation is unreliable in the sandbox) and
// without the dirty-version check.
//
//   cmi_driver --task-based-rhd --params <file> [--threads n] [--restart dir]
//              [--number-of-steps k] [--logfile f]
//   cmi_driver --task-based --params <file> [--threads n] [--task-plot]
#include "CommandLineParser.hpp"
#include "FileLog.hpp"
#include "TaskBasedIonizationSimulation.hpp"
#include "TaskBasedRadiationHydrodynamicsSimulation.hpp"
#include "Timer.hpp"
#include "VerifHooks.hpp"

#include <string>

int main(int argc, char **argv) {
  Timer programtimer;
  CommandLineParser parser("CMacIonize");
  parser.add_required_option< std::string >("params", 'p', "Parameter file.");
  parser.add_option("verbose", 'v', "Verbose.", COMMANDLINEOPTION_NOARGUMENT,
                    "false");
  parser.add_option("logfile", 'l', "Log file.",
                    COMMANDLINEOPTION_STRINGARGUMENT, "CMacIonize_run.log");
  parser.add_option("dirty", 'd', "Ignored.", COMMANDLINEOPTION_NOARGUMENT,
                    "false");
  parser.add_option("threads", 't', "Number of parallel threads to use.",
                    COMMANDLINEOPTION_INTARGUMENT, "1");
  parser.add_option("dry-run", 'n', "Dry run.", COMMANDLINEOPTION_NOARGUMENT,
                    "false");
  parser.add_option("every-iteration-output", 'e', "Ignored.",
                    COMMANDLINEOPTION_NOARGUMENT, "false");
  parser.add_option("output-statistics", 's', "Ignored.",
                    COMMANDLINEOPTION_NOARGUMENT, "false");
  parser.add_option("task-based", 0, "Task-based photoionization simulation.",
                    COMMANDLINEOPTION_NOARGUMENT, "false");
  parser.add_option("task-plot", 0, "Keep and output task information.",
                    COMMANDLINEOPTION_NOARGUMENT, "false");
  parser.add_option("task-based-rhd", 0, "Task-based RHD simulation.",
                    COMMANDLINEOPTION_NOARGUMENT, "false");
  parser.add_option("no-initial-output", 0, "No initial snapshot.",
                    COMMANDLINEOPTION_NOARGUMENT, "false");
  parser.add_option("params2", 0,
                    "Parameter file of a second task-based photoionization "
                    "simulation that is set up and run in the same process "
                    "after the first one has finished.",
                    COMMANDLINEOPTION_STRINGARGUMENT, "");
  TaskBasedRadiationHydrodynamicsSimulation::add_command_line_parameters(
      parser);
  parser.parse_arguments(argc, argv);

  Log *log = nullptr;
  if (parser.was_found("logfile")) {
    log = new FileLog(parser.get_value< std::string >("logfile"),
                      LOGLEVEL_STATUS);
  }

  int rc = 0;
  CMI_EV("\"e\":\"run.start\",\"mode\":\"%s\",\"nthr\":%i",
         parser.get_value< bool >("task-based-rhd") ? "rhd" : "ion",
         (int)parser.get_value< int_fast32_t >("threads"));
  if (parser.get_value< bool >("task-based-rhd")) {
    rc = TaskBasedRadiationHydrodynamicsSimulation::do_simulation(
        parser, true, programtimer, log);
  } else {
    TaskBasedIonizationSimulation simulation(
        parser.get_value< int_fast32_t >("threads"),
        parser.get_value< std::string >("params"),
        parser.get_value< bool >("task-plot"),
        !parser.get_value< bool >("no-initial-output"), log);
    if (!parser.get_value< bool >("dry-run")) {
      simulation.initialize();
      simulation.run();
    }
  }
  if (!parser.get_value< bool >("task-based-rhd") &&
      parser.get_value< std::string >("params2") != "") {
    // "all repeated runs of a given parameter file": a second set-up in the
    // same process must not see anything of the first one
    CMI_EV("\"e\":\"run.second\"");
    TaskBasedIonizationSimulation simulation(
        parser.get_value< int_fast32_t >("threads"),
        parser.get_value< std::string >("params2"),
        parser.get_value< bool >("task-plot"),
        !parser.get_value< bool >("no-initial-output"), log);
    simulation.initialize();
    simulation.run();
  }
  CMI_EV("\"e\":\"run.end\",\"rc\":%i", rc);
  delete log;
  return rc;
}
