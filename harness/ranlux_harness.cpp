// C13 harness: the real RandomGenerator.
//   ranlux_harness seq <n> <seed>...           JSON lines {"seed":s,"seq":[[hi,lo],...],"gsl":0|1}
//        gsl = 1 iff gsl_rng_ranlxd2 gives the same n values (used to validate the
//        transcription of the specification, not as the oracle of the check)
//   ranlux_harness hist <rngseed> <nops> <out.ndjson> <tmpdir>
//        seeded random history of draws with set_seed and save/restore through
//        RestartWriter / RestartReader at arbitrary stream positions
#include "RandomGenerator.hpp"

#include <cmath>
#include <cstdio>
#include <cstdlib>
#include <fstream>
#include <gsl/gsl_rng.h>
#include <iostream>
#include <string>

static void limbs(double x, long &hi, long &lo) {
  const double s = std::ldexp(x, 48);
  if (!(x >= 0.) || !(x < 1.) || s != std::floor(s)) {
    hi = -1;
    lo = -1;
    return;
  }
  const uint64_t u = (uint64_t)s;
  hi = (long)(u >> 24);
  lo = (long)(u & 0xffffff);
}

int main(int argc, char **argv) {
  if (argc >= 4 && std::string(argv[1]) == "seq") {
    const int n = atoi(argv[2]);
    for (int a = 3; a < argc; ++a) {
      const long seed = atol(argv[a]);
      RandomGenerator g(seed);
      gsl_rng *r = gsl_rng_alloc(gsl_rng_ranlxd2);
      gsl_rng_set(r, (unsigned long)seed);
      int same = 1;
      printf("{\"seed\":%ld,\"seq\":[", seed);
      for (int i = 0; i < n; ++i) {
        const double x = g.get_uniform_random_double();
        const double y = gsl_rng_uniform(r);
        if (x != y)
          same = 0;
        long hi, lo;
        limbs(x, hi, lo);
        printf("%s[%ld,%ld]", i ? "," : "", hi, lo);
      }
      printf("],\"gsl\":%d}\n", same);
      gsl_rng_free(r);
    }
    return 0;
  }
  if (argc >= 6 && std::string(argv[1]) == "hist") {
    uint64_t x = strtoull(argv[2], nullptr, 10) * 6364136223846793005ULL + 1442695040888963407ULL;
    auto next = [&]() {
      x = x * 6364136223846793005ULL + 1442695040888963407ULL;
      return x >> 33;
    };
    const int nops = atoi(argv[3]);
    std::ofstream out(argv[4]);
    const std::string dump = std::string(argv[5]) + "/rng.dump";
    RandomGenerator *g = new RandomGenerator(42);
    bool saved = false;
    for (int i = 0; i < nops; ++i) {
      const unsigned r = next() % 100;
      if (r < 3) {
        long s;
        const unsigned c = next() % 6;
        if (c == 0)
          s = 0;
        else if (c == 1)
          s = 1;
        else if (c == 2)
          s = 2147483647;
        else if (c == 3)
          s = 1L << (next() % 31);
        else
          s = (long)(next() % 2147483648UL);
        g->set_seed(s);
        out << "{\"e\":\"seed\",\"s\":" << s << "}\n";
      } else if (r < 8) {
        RestartWriter w(dump);
        g->write_restart_file(w);
        saved = true;
        out << "{\"e\":\"save\"}\n";
      } else if (r < 12 && saved) {
        RestartReader rd(dump);
        RandomGenerator *h = new RandomGenerator(rd);
        delete g;
        g = h;
        out << "{\"e\":\"restore\"}\n";
      } else {
        long hi, lo;
        limbs(g->get_uniform_random_double(), hi, lo);
        out << "{\"e\":\"draw\",\"hi\":" << hi << ",\"lo\":" << lo << "}\n";
      }
    }
    delete g;
    return 0;
  }
  if (argc >= 5 && std::string(argv[1]) == "state") {
    // ranlux_harness state <ndraw> <cases.txt> <tmpdir>: every line "e carry hi0 lo0 ... hi11 lo11" is a generator state at
    // the end of a block (the next draw refills): 12 words oldest first, the oldest at array index e.  The state is
    // written in the layout of write_restart_file, restored through the restart constructor, and ndraw values are drawn.
    const int n = atoi(argv[2]);
    std::ifstream in(argv[3]);
    const std::string dump = std::string(argv[4]) + "/rng_state.dump";
    unsigned long e, carry;
    int idx = 0;
    while (in >> e >> carry) {
      double x[12];
      for (int k = 0; k < 12; ++k) {
        unsigned long hi, lo;
        in >> hi >> lo;
        x[(e + k) % 12] = std::ldexp((double)((hi << 24) | lo), -48);
      }
      {
        RestartWriter w(dump);
        for (int k = 0; k < 12; ++k)
          w.write(x[k]);
        const double c = std::ldexp((double)carry, -48);
        w.write(c);
        const uint_fast32_t ir = (e + 11) % 12, jr = (e + 7) % 12, ir_old = e, pr = 397;
        w.write(ir);
        w.write(jr);
        w.write(ir_old);
        w.write(pr);
      }
      RestartReader rd(dump);
      RandomGenerator g(rd);
      printf("{\"i\":%d,\"seq\":[", idx++);
      for (int i = 0; i < n; ++i) {
        long hi, lo;
        limbs(g.get_uniform_random_double(), hi, lo);
        printf("%s[%ld,%ld]", i ? "," : "", hi, lo);
      }
      printf("]}\n");
      fflush(stdout);
    }
    return 0;
  }
  std::cerr << "usage: see source\n";
  return 2;
}
