// C20 harness (snapshot clause): a grid of subgrids with seeded cell values is written with the real
// GadgetDensityGridWriter (HDF5) and read back as initial condition on the same geometry with the real
// CMacIonizeSnapshotDensityFunction; the largest relative deviation per field is reported.
//   snap_harness <cases.txt> <out.ndjson> <tmpdir>
//   case line: G1 G2 G3 S1 S2 S3 seed sx sy sz ax ay az      (cells, subgrids, seed, box sides and anchor in m)
#include "CMacIonizeSnapshotDensityFunction.hpp"
#include "DensitySubGrid.hpp"
#include "DensitySubGridCreator.hpp"
#include "GadgetDensityGridWriter.hpp"
#include "HomogeneousDensityFunction.hpp"
#include "ParameterFile.hpp"

#include <cmath>
#include <cstdio>
#include <fstream>
#include <sstream>
#include <string>

struct Rng {
  uint64_t x;
  explicit Rng(uint64_t s) : x(s * 6364136223846793005ULL + 1442695040888963407ULL) {}
  double next() {
    x = x * 6364136223846793005ULL + 1442695040888963407ULL;
    return ((x >> 11) + 0.5) / 9007199254740992.0;
  }
};

// the values of a cell are a function of its midpoint (so that they can be recomputed for the comparison)
static void values_of(const CoordinateVector<> &m, uint64_t seed, double &n, double &T, double &x) {
  uint64_t h = seed;
  for (int k = 0; k < 3; ++k) {
    uint64_t b;
    const double v = m[k];
    memcpy(&b, &v, 8);
    h = (h ^ b) * 1099511628211ULL;
    h ^= h >> 31;
  }
  Rng r(h);
  n = std::pow(10., 2. + 7. * r.next());
  T = std::pow(10., 1. + 4. * r.next());
  x = std::pow(10., -6. * r.next());
}

int main(int argc, char **argv) {
  if (argc < 4)
    return 2;
  std::ifstream f(argv[1]);
  FILE *out = fopen(argv[2], "w");
  const std::string tmp = argv[3];
  std::string line;
  int icase = 0;
  while (std::getline(f, line)) {
    if (line.empty())
      continue;
    std::istringstream is(line);
    long G[3], S[3];
    uint64_t seed;
    double s[3], a[3];
    is >> G[0] >> G[1] >> G[2] >> S[0] >> S[1] >> S[2] >> seed >> s[0] >> s[1] >> s[2] >> a[0] >> a[1] >> a[2];
    // the parameter block that ends up in the snapshot (the reader takes the geometry from it)
    const std::string pname = tmp + "/snap.param";
    {
      std::ofstream pf(pname);
      pf.precision(17);
      pf << "SimulationBox:\n  anchor: [" << a[0] << " m, " << a[1] << " m, " << a[2] << " m]\n  sides: [" << s[0] << " m, " << s[1]
         << " m, " << s[2] << " m]\n  periodicity: [false, false, false]\n\nDensityGrid:\n  number of cells: [" << G[0] << ", "
         << G[1] << ", " << G[2] << "]\n\nDensitySubGridCreator:\n  number of subgrids: [" << S[0] << ", " << S[1] << ", " << S[2]
         << "]\n\nDensityGridWriterFields:\n  Temperature: 1\n";
    }
    ParameterFile params(pname);
    const Box<> box(CoordinateVector<>(a[0], a[1], a[2]), CoordinateVector<>(s[0], s[1], s[2]));
    // the values are read through the parameter file so that they are part of the "used values" written to the snapshot
    params.get_physical_vector< QUANTITY_LENGTH >("SimulationBox:anchor");
    params.get_physical_vector< QUANTITY_LENGTH >("SimulationBox:sides");
    params.get_value< CoordinateVector< int_fast32_t > >("DensityGrid:number of cells");
    params.get_value< CoordinateVector< int_fast32_t > >("DensitySubGridCreator:number of subgrids");
    DensitySubGridCreator< DensitySubGrid > creator(box, CoordinateVector< int_fast32_t >(G[0], G[1], G[2]),
                                                    CoordinateVector< int_fast32_t >(S[0], S[1], S[2]),
                                                    CoordinateVector< bool >(false, false, false));
    HomogeneousDensityFunction df(1., 8000.);
    df.initialize();
    creator.initialize(df);
    long ncell = 0;
    for (auto git = creator.begin(); git != creator.original_end(); ++git) {
      for (auto cit = (*git).begin(); cit != (*git).end(); ++cit) {
        double n, T, x;
        values_of(cit.get_cell_midpoint(), seed, n, T, x);
        IonizationVariables &v = cit.get_ionization_variables();
        v.set_number_density(n);
        v.set_temperature(T);
        v.set_ionic_fraction(ION_H_n, x);
        ++ncell;
      }
    }
    GadgetDensityGridWriter writer("snap_", tmp, false, DensityGridWriterFields(params, false), nullptr, 3);
    writer.write(creator, icase, params, 0.);
    char name[64];
    snprintf(name, sizeof(name), "/snap_%03d.hdf5", icase);
    CMacIonizeSnapshotDensityFunction reader(tmp + name, false, false, 1.e-6);
    reader.initialize();
    double dev[3] = {0., 0., 0.};
    for (auto git = creator.begin(); git != creator.original_end(); ++git) {
      for (auto cit = (*git).begin(); cit != (*git).end(); ++cit) {
        double n, T, x;
        values_of(cit.get_cell_midpoint(), seed, n, T, x);
        const DensityValues v = reader(cit);
        dev[0] = std::max(dev[0], std::abs(v.get_number_density() / n - 1.));
        dev[1] = std::max(dev[1], std::abs(v.get_temperature() / T - 1.));
        dev[2] = std::max(dev[2], std::abs(v.get_ionic_fraction(ION_H_n) / x - 1.));
      }
    }
    reader.free();
    long d9[3];
    for (int k = 0; k < 3; ++k)
      d9[k] = (dev[k] < 1.) ? std::lround(dev[k] * 1.e9) : 1000000000l;
    fprintf(out, "{\"e\":\"snap\",\"case\":%d,\"ncell\":%ld,\"dev_n\":%ld,\"dev_T\":%ld,\"dev_x\":%ld}\n", icase, ncell, d9[0], d9[1],
            d9[2]);
    fflush(out);
    ++icase;
  }
  fclose(out);
  return 0;
}
