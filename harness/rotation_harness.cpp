// C14 harness: drives the real RestartManager / RestartWriter.
//
//   rotation_harness <workdir> <scenario file> <out.ndjson>
//
// Every line of the scenario file is
//      <max backups> <script> <crash point or -> <crash at>
// where <script> is a string over  d (take one dump)  and  p (clean process
// restart = a freshly constructed RestartManager on the same directory).
// Each scenario runs in a forked child (a crash point ends it with
// _exit(77), a failed rename with abort()); the parent inspects the directory
// afterwards. All records of all scenarios go to <out.ndjson>, a "scn" record
// in front of each scenario.
//
// Dump payload: magic, version, NPARTS filler blocks, end marker. A file is
// "complete" iff it has the full size and the end marker matches its version.
#include "RestartManager.hpp"
#include "VerifHooks.hpp"

#include <cstdio>
#include <cstdlib>
#include <cstring>
#include <dirent.h>
#include <fcntl.h>
#include <fstream>
#include <iostream>
#include <sstream>
#include <string>
#include <sys/stat.h>
#include <sys/wait.h>
#include <unistd.h>
#include <vector>

static const int NPARTS = 3;
static const uint64_t MAGIC = 0x434d49764552ull;
static const size_t FULLSIZE = 8 + 8 + NPARTS * 64 + 8;

static std::string list_dir(const std::string &dir) {
  // [{"n":-1,"v":3,"c":1},...]   n = -1: restart.dump, j: restart.j.back,
  // 99: anything else
  std::ostringstream o;
  o << "[";
  DIR *d = opendir(dir.c_str());
  bool first = true;
  if (d) {
    struct dirent *e;
    while ((e = readdir(d)) != nullptr) {
      std::string name = e->d_name;
      if (name == "." || name == "..")
        continue;
      int n = 99;
      int j;
      char tail[16];
      if (name == "restart.dump") {
        n = -1;
      } else if (sscanf(name.c_str(), "restart.%d.bac%1[k]", &j, tail) == 2 &&
                 name == "restart." + std::to_string(j) + ".back") {
        n = j;
      }
      std::ifstream f(dir + "/" + name, std::ios::binary);
      std::string buf((std::istreambuf_iterator< char >(f)),
                      std::istreambuf_iterator< char >());
      uint64_t magic = 0, ver = 0, endm = 0;
      int complete = 0;
      if (buf.size() >= 16) {
        memcpy(&magic, buf.data(), 8);
        memcpy(&ver, buf.data() + 8, 8);
      }
      if (buf.size() == FULLSIZE && magic == MAGIC) {
        memcpy(&endm, buf.data() + FULLSIZE - 8, 8);
        complete = (endm == (0xE0F00000ull + ver));
      }
      if (buf.size() < 16 || magic != MAGIC)
        ver = 0; // content unknown: version 0, incomplete
      if (!first)
        o << ",";
      first = false;
      o << "{\"n\":" << n << ",\"v\":" << ver << ",\"c\":" << complete << "}";
    }
    closedir(d);
  }
  o << "]";
  return o.str();
}

static void clear_dir(const std::string &dir) {
  DIR *d = opendir(dir.c_str());
  if (!d)
    return;
  struct dirent *e;
  while ((e = readdir(d)) != nullptr) {
    std::string name = e->d_name;
    if (name != "." && name != "..")
      unlink((dir + "/" + name).c_str());
  }
  closedir(d);
}

static void child(const std::string &dir, unsigned max, const std::string &script, uint64_t ver = 0) {
  RestartManager *m = new RestartManager(dir, 0., max, 1.e9, "");
  CMI_EV("\"e\":\"procstart\"");
  for (char c : script) {
    if (c == 'p') {
      delete m;
      m = new RestartManager(dir, 0., max, 1.e9, "");
      CMI_EV("\"e\":\"procstart\"");
      continue;
    }
    ++ver;
    CMI_EV("\"e\":\"h.begin\",\"k\":%lu", (unsigned long)ver);
    RestartWriter *w = m->get_restart_writer(nullptr);
    CMI_EV("\"e\":\"h.opened\"");
    CMI_CRASHPOINT("open.after");
    w->write(MAGIC);
    w->write(ver);
    for (int p = 0; p < NPARTS; ++p) {
      char filler[64];
      memset(filler, 'a' + p, 64);
      for (int b = 0; b < 64; ++b)
        w->write(filler[b]);
      CMI_EV("\"e\":\"h.write\",\"p\":%i", p + 1);
      CMI_CRASHPOINT("write");
    }
    const uint64_t endm = 0xE0F00000ull + ver;
    w->write(endm);
    CMI_CRASHPOINT("close.before");
    delete w;
    CMI_EV("\"e\":\"h.closed\",\"k\":%lu,\"files\":%s", (unsigned long)ver,
           list_dir(dir).c_str());
    CMI_CRASHPOINT("close.after");
  }
  delete m;
}

int main(int argc, char **argv) {
  if (argc < 4) {
    std::cerr << "usage: rotation_harness <workdir> <scenarios> <out>\n";
    return 2;
  }
  const std::string work = argv[1];
  std::ifstream scn(argv[2]);
  const std::string out = argv[3];
  unlink(out.c_str());
  std::string line;
  int idx = 0;
  while (std::getline(scn, line)) {
    if (line.empty())
      continue;
    std::istringstream is(line);
    unsigned max;
    std::string script, crash, post;
    long crash_at;
    is >> max >> script >> crash >> crash_at;
    is >> post; // optional: dumps taken by a NEW process started in the same folder after the crash (recovery)
    const std::string dir = work + "/rot";
    mkdir(dir.c_str(), 0755);
    clear_dir(dir);
    {
      FILE *f = fopen(out.c_str(), "a");
      fprintf(f, "{\"e\":\"scn\",\"idx\":%i,\"max\":%u,\"script\":\"%s\",\"crash\":\"%s\",\"at\":%li}\n",
              idx, max, script.c_str(), crash.c_str(), crash_at);
      fclose(f);
    }
    fflush(nullptr);
    pid_t pid = fork();
    if (pid == 0) {
      setenv("CMI_VERIF_TRACE", out.c_str(), 1);
      if (crash != "-") {
        std::string c = crash + "@" + std::to_string(crash_at);
        setenv("CMI_VERIF_CRASH", c.c_str(), 1);
      } else {
        unsetenv("CMI_VERIF_CRASH");
      }
      int devnull = open("/dev/null", O_WRONLY);
      dup2(devnull, 2);
      child(dir, max, script);
      exit(0);
    }
    int status = 0;
    waitpid(pid, &status, 0);
    const char *how = "exit";
    int code = 0;
    if (WIFEXITED(status)) {
      code = WEXITSTATUS(status);
      how = code == 77 ? "crashed" : (code == 0 ? "exit" : "failed");
    } else if (WIFSIGNALED(status)) {
      code = WTERMSIG(status);
      how = "abort";
    }
    FILE *f = fopen(out.c_str(), "a");
    fprintf(f, "{\"e\":\"end\",\"how\":\"%s\",\"code\":%i,\"files\":%s}\n", how, code,
            list_dir(dir).c_str());
    fclose(f);
    if (!post.empty() && std::string(how) == "crashed") {
      // recovery: a new process in the folder the crash left behind
      uint64_t ver0 = 0;
      for (char c : script)
        ver0 += (c == 'd');
      fflush(nullptr);
      pid_t pid2 = fork();
      if (pid2 == 0) {
        setenv("CMI_VERIF_TRACE", out.c_str(), 1);
        unsetenv("CMI_VERIF_CRASH");
        int devnull = open("/dev/null", O_WRONLY);
        dup2(devnull, 2);
        child(dir, max, post, ver0);
        exit(0);
      }
      int st2 = 0;
      waitpid(pid2, &st2, 0);
      const char *how2 = "exit";
      int code2 = 0;
      if (WIFEXITED(st2)) {
        code2 = WEXITSTATUS(st2);
        how2 = code2 == 0 ? "exit" : "failed";
      } else if (WIFSIGNALED(st2)) {
        code2 = WTERMSIG(st2);
        how2 = "abort";
      }
      FILE *f2 = fopen(out.c_str(), "a");
      fprintf(f2, "{\"e\":\"end\",\"how\":\"%s\",\"code\":%i,\"files\":%s}\n", how2, code2, list_dir(dir).c_str());
      fclose(f2);
    }
    ++idx;
  }
  return 0;
}
