"""Parser for TLC's printed values and state dumps (python3 stdlib only).

 parse_value(text)  -> python object: ints, bools, str, tuple (sequence),
                       frozenset (set), dict (record / function)
 parse_state(text)  -> dict var -> value, from "/\\ x = 1\n/\\ y = <<>>"
 parse_dot(path)    -> (nodes: id -> state dict, edges: list of (src, dst, label), init ids)
"""
import re


class _P:
    def __init__(self, s):
        self.s = s
        self.i = 0

    def ws(self):
        while self.i < len(self.s) and self.s[self.i] in " \t\r\n":
            self.i += 1

    def peek(self, k=1):
        return self.s[self.i:self.i + k]

    def eat(self, tok):
        self.ws()
        if self.s.startswith(tok, self.i):
            self.i += len(tok)
            return True
        return False

    def expect(self, tok):
        if not self.eat(tok):
            raise ValueError("expected %r at %d: %r" % (tok, self.i, self.s[self.i:self.i + 40]))

    def value(self):
        self.ws()
        c = self.peek()
        if self.s.startswith("<<", self.i):
            self.i += 2
            items = []
            self.ws()
            if self.eat(">>"):
                return tuple()
            while True:
                items.append(self.value())
                if self.eat(">>"):
                    return tuple(items)
                self.expect(",")
        if c == "{":
            self.i += 1
            items = []
            if self.eat("}"):
                return frozenset()
            while True:
                items.append(self.value())
                if self.eat("}"):
                    return frozenset(_freeze(x) for x in items)
                self.expect(",")
        if c == "[":
            self.i += 1
            d = {}
            while True:
                self.ws()
                m = re.compile(r"[A-Za-z_][A-Za-z0-9_]*").match(self.s, self.i)
                if not m:
                    raise ValueError("record field expected at %d" % self.i)
                self.i = m.end()
                self.expect("|->")
                d[m.group(0)] = self.value()
                if self.eat("]"):
                    return d
                self.expect(",")
        if c == "(":
            # function  (a :> 1 @@ b :> 2)
            self.i += 1
            d = {}
            while True:
                k = self.value()
                self.expect(":>")
                d[_freeze(k)] = self.value()
                if self.eat(")"):
                    return d
                self.expect("@@")
        if c == '"':
            j = self.i + 1
            out = []
            while self.s[j] != '"':
                if self.s[j] == "\\":
                    j += 1
                out.append(self.s[j])
                j += 1
            self.i = j + 1
            return "".join(out)
        m = re.compile(r"-?\d+").match(self.s, self.i)
        if m:
            self.i = m.end()
            # range a..b
            if self.s.startswith("..", self.i):
                self.i += 2
                m2 = re.compile(r"-?\d+").match(self.s, self.i)
                self.i = m2.end()
                return frozenset(range(int(m.group(0)), int(m2.group(0)) + 1))
            return int(m.group(0))
        m = re.compile(r"[A-Za-z_][A-Za-z0-9_]*").match(self.s, self.i)
        if m:
            self.i = m.end()
            w = m.group(0)
            if w == "TRUE":
                return True
            if w == "FALSE":
                return False
            return w  # model value
        raise ValueError("cannot parse value at %d: %r" % (self.i, self.s[self.i:self.i + 40]))


def _freeze(x):
    if isinstance(x, dict):
        return tuple(sorted((k, _freeze(v)) for k, v in x.items()))
    if isinstance(x, (list, tuple)):
        return tuple(_freeze(v) for v in x)
    if isinstance(x, (set, frozenset)):
        return frozenset(_freeze(v) for v in x)
    return x


def parse_value(text):
    p = _P(text)
    v = p.value()
    return v


def parse_state(text):
    """text: conjunction list '/\\ a = v\n/\\ b = w' (as in TLC traces / dot labels)"""
    p = _P(text)
    st = {}
    while True:
        p.ws()
        if p.i >= len(p.s):
            break
        p.eat("/\\")
        p.ws()
        m = re.compile(r"[A-Za-z_][A-Za-z0-9_]*").match(p.s, p.i)
        if not m:
            break
        p.i = m.end()
        p.expect("=")
        st[m.group(0)] = p.value()
    return st


_NODE = re.compile(r'^(-?\d+) \[label="((?:[^"\\]|\\.)*)"')
_EDGE = re.compile(r'^(-?\d+) -> (-?\d+) \[label="((?:[^"\\]|\\.)*)"')


def _unesc(s):
    return s.replace("\\n", "\n").replace('\\"', '"').replace("\\\\", "\\")


def parse_dot(path, parse_states=True):
    nodes, edges, inits = {}, [], []
    with open(path) as f:
        for line in f:
            m = _EDGE.match(line)
            if m:
                edges.append((m.group(1), m.group(2), m.group(3)))
                continue
            m = _NODE.match(line)
            if m:
                txt = _unesc(m.group(2))
                nodes[m.group(1)] = parse_state(txt) if parse_states else txt
                if "style = filled" in line:
                    inits.append(m.group(1))
    return nodes, edges, inits


def transition_cover(nodes, edges, inits, edge_filter=None):
    """Paths (lists of edge indices) from an initial state such that every edge
    is the last edge of exactly one path: BFS tree path to the source + the
    edge. Returns list of edge-index lists."""
    from collections import deque
    out = {}
    for idx, (a, b, lab) in enumerate(edges):
        out.setdefault(a, []).append(idx)
    parent = {}
    dq = deque()
    for i in inits:
        parent[i] = None
        dq.append(i)
    while dq:
        n = dq.popleft()
        for idx in out.get(n, []):
            b = edges[idx][1]
            if b not in parent:
                parent[b] = idx
                dq.append(b)

    def path_to(n):
        p = []
        while parent.get(n) is not None:
            idx = parent[n]
            p.append(idx)
            n = edges[idx][0]
        p.reverse()
        return p

    paths = []
    for idx, (a, b, lab) in enumerate(edges):
        if a not in parent:
            continue
        if edge_filter and not edge_filter(idx):
            continue
        paths.append(path_to(a) + [idx])
    return paths


def maximal_cover(nodes, edges, inits):
    """Greedy cover of all edges by long paths: repeatedly walk from an initial
    state preferring unvisited edges (DFS order), until every edge is covered.
    Gives far fewer, longer paths than transition_cover."""
    out = {}
    for idx, (a, b, lab) in enumerate(edges):
        out.setdefault(a, []).append(idx)
    paths_tc = None
    uncovered = set(range(len(edges)))
    # edges reachable?
    reach = set()
    stack = list(inits)
    seen = set(inits)
    while stack:
        n = stack.pop()
        for idx in out.get(n, []):
            reach.add(idx)
            b = edges[idx][1]
            if b not in seen:
                seen.add(b)
                stack.append(b)
    uncovered &= reach
    # BFS parents for connecting to uncovered edges
    from collections import deque
    result = []
    while uncovered:
        # BFS from inits to nearest source of an uncovered edge
        parent = {i: None for i in inits}
        dq = deque(inits)
        target = None
        while dq and target is None:
            n = dq.popleft()
            for idx in out.get(n, []):
                if idx in uncovered:
                    target = (n, idx)
                    break
                b = edges[idx][1]
                if b not in parent:
                    parent[b] = idx
                    dq.append(b)
        if target is None:
            break
        n, idx = target
        pre = []
        m = n
        while parent.get(m) is not None:
            pre.append(parent[m])
            m = edges[parent[m]][0]
        pre.reverse()
        path = pre + [idx]
        uncovered.discard(idx)
        cur = edges[idx][1]
        # extend greedily along uncovered edges
        while True:
            nxt = [e for e in out.get(cur, []) if e in uncovered]
            if not nxt:
                break
            e = nxt[0]
            path.append(e)
            uncovered.discard(e)
            cur = edges[e][1]
        result.append(path)
    return result
