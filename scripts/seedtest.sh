#!/bin/bash
# seedtest.sh <property id> <patch.diff> [tier]: apply a seeded change to /repo, run the check, undo.
ID=$1; P=$2; TIER=${3:-quick}
cd /repo || exit 9
git diff --quiet || { echo "/repo not clean"; exit 9; }
git apply "$P" || { echo "patch does not apply"; exit 8; }
cd /verif
scripts/check $ID $TIER > /tmp/seedtest_$ID.log 2>&1; RC=$?
git -C /repo checkout -- .
git -C /verif checkout -- evidence/$ID.json 2>/dev/null
echo "check rc=$RC violations=$(grep -c '^VIOLATION' /tmp/seedtest_$ID.log) known=$(grep -c '^KNOWN-FINDING' /tmp/seedtest_$ID.log)"
grep -m3 -A2 "^VIOLATION" /tmp/seedtest_$ID.log | cut -c1-300
exit $RC
