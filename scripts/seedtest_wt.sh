#!/bin/bash
# seedtest_wt.sh <property id> <patch.diff> [tier]: like seedtest.sh, but the seeded change is applied to a scratch
# worktree of /repo's HEAD (/tmp/wt_seed, own build directory /tmp/verif_build_seed) so that /repo itself stays
# untouched (background runs that rebuild from /repo are not disturbed).
ID=$1; P=$2; TIER=${3:-quick}
WT=/tmp/wt_seed${SLOT:-}
HEAD=$(git -C /repo rev-parse HEAD)
if [ ! -d $WT ]; then git -C /repo worktree add --detach $WT HEAD > /dev/null 2>&1 || exit 9; fi
git -C $WT checkout -q -- . ; git -C $WT checkout -q --detach $HEAD || exit 9
git -C $WT apply "$P" || { echo "patch does not apply"; exit 8; }
cd /verif
cp evidence/$ID.json /tmp/evidence_$ID${SLOT:-}.keep 2>/dev/null
VERIF_REPO=$WT VERIF_BUILD=/tmp/verif_build_seed${SLOT:-} scripts/check $ID $TIER > /tmp/seedtest_wt_$ID${SLOT:-}.log 2>&1; RC=$?
git -C $WT checkout -q -- .
cp /tmp/evidence_$ID${SLOT:-}.keep evidence/$ID.json 2>/dev/null
echo "check rc=$RC violations=$(grep -c '^VIOLATION' /tmp/seedtest_wt_$ID${SLOT:-}.log) known=$(grep -c '^KNOWN-FINDING' /tmp/seedtest_wt_$ID${SLOT:-}.log)"
grep -m3 -A2 "^VIOLATION" /tmp/seedtest_wt_$ID${SLOT:-}.log | cut -c1-300
exit $RC
