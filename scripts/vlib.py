#!/usr/bin/env python3
"""Shared machinery for the /verif checks (python3 stdlib only).

 * hooks build of /repo (CMake/Ninja, -DCMI_VERIF) and harness builds with
   header dependency tracking (a generated Ninja file with depfiles), so that
   every check rebuilds exactly what an edit under /repo/src invalidates;
 * a TLC wrapper (own metadir and JVM temp dir inside the run directory, outer
   timeout, parsing of state counts / coverage / violated property);
 * trace validation helper (TRACE env + NotAccepted invariant convention);
 * evidence writer, known-findings handling, verdict printing.
"""
import json
import os
import re
import shutil
import subprocess
import sys
import time

VERIF = os.path.dirname(os.path.dirname(os.path.abspath(__file__)))
REPO = os.environ.get("VERIF_REPO", "/repo")
# VERIF_REPO / VERIF_BUILD: only for testing seeded changes in a scratch worktree without touching /repo
# (scripts/seedtest_wt.sh); the registered commands never set them
BUILD = os.environ.get("VERIF_BUILD", os.path.join(VERIF, "build"))
HOOKS = os.path.join(BUILD, "hooks")
HARNESS_SRC = os.path.join(VERIF, "harness")
HARNESS_BIN = os.path.join(BUILD, "harness")
SPEC = os.path.join(VERIF, "spec")
EVID = os.path.join(VERIF, "evidence")
TLA_CP = "/opt/veriftools/tla/tla2tools.jar:/opt/veriftools/tla/CommunityModules-deps.jar"
NCPU = os.cpu_count() or 4

HOOK_FLAGS = "-DCMI_VERIF -Wno-cpp -Wno-error"
LIBS = ["SharedEngine", "TaskBasedEngine", "LegacyEngine"]
INCLUDES = [
    "-I/usr/include/hdf5/serial",
    "-I/usr/lib/x86_64-linux-gnu/openmpi/include",
    "-I/usr/lib/x86_64-linux-gnu/openmpi/include/openmpi",
    "-I" + os.path.join(REPO, "src"),
    "-I" + os.path.join(HOOKS, "src"),
    "-I" + os.path.join(HOOKS, "include"),
    "-I" + HARNESS_SRC,
]
LINK_LIBS = ("-L{h}/lib -lTaskBasedEngine -lLegacyEngine -lSharedEngine "
             "-L/usr/lib/x86_64-linux-gnu/hdf5/serial -lhdf5 "
             "-L/usr/lib/x86_64-linux-gnu/openmpi/lib -lmpi_cxx -lmpi -lpthread").format(h=HOOKS)


class Inconclusive(Exception):
    pass


_T0 = time.time()


def log(*a):
    print("[%6.1fs]" % (time.time() - _T0), *a, flush=True)


def sh(cmd, timeout=None, cwd=None, env=None, check=False, quiet=True):
    """Run a shell command, return (rc, output). rc = 124 on timeout."""
    e = dict(os.environ)
    if env:
        e.update(env)
    import signal
    p = subprocess.Popen(cmd, shell=isinstance(cmd, str), cwd=cwd, env=e, stdout=subprocess.PIPE,
                         stderr=subprocess.STDOUT, start_new_session=True)
    try:
        o, _ = p.communicate(timeout=timeout)
        rc, out = p.returncode, o.decode("utf-8", "replace")
    except subprocess.TimeoutExpired:
        # kill the whole process group (the shell and everything it started)
        try:
            os.killpg(p.pid, signal.SIGKILL)
        except OSError:
            pass
        o, _ = p.communicate()
        rc, out = 124, (o or b"").decode("utf-8", "replace") + "\n[timeout]\n"
    if check and rc != 0:
        raise Inconclusive("command failed rc=%d: %s\n%s" % (rc, cmd, out[-3000:]))
    return rc, out


# ----------------------------------------------------------------------------
# run directories
# ----------------------------------------------------------------------------
class RunDir:
    def __init__(self, pid_tag):
        self.path = os.path.join(BUILD, "run", "%s.%d" % (pid_tag, os.getpid()))
        shutil.rmtree(self.path, ignore_errors=True)
        os.makedirs(self.path)

    def sub(self, name):
        p = os.path.join(self.path, name)
        os.makedirs(p, exist_ok=True)
        return p

    def cleanup(self):
        shutil.rmtree(self.path, ignore_errors=True)


# ----------------------------------------------------------------------------
# builds
# ----------------------------------------------------------------------------
def ensure_hooks_build(targets=None):
    """(Re)build the -DCMI_VERIF libraries of /repo's working tree."""
    os.makedirs(BUILD, exist_ok=True)
    lock = open(os.path.join(BUILD, ".hooks.lock"), "w")
    import fcntl
    fcntl.flock(lock, fcntl.LOCK_EX)
    try:
        if not os.path.exists(os.path.join(HOOKS, "build.ninja")):
            sh('cmake -G Ninja -S %s -B %s -DCMAKE_BUILD_TYPE=RelWithDebInfo '
               '-DCMAKE_CXX_FLAGS="%s"' % (REPO, HOOKS, HOOK_FLAGS), check=True, timeout=600)
            if os.path.isfile(os.path.join(REPO, ".git")):
                # a git worktree: the generated build file depends on a .git/HEAD that does not exist
                sh("sed -i 's| %s/.git/HEAD||g; s|%s/.git/HEAD||g' %s/build.ninja" % (REPO, REPO, HOOKS), check=True)
        t = " ".join(targets or LIBS)
        rc, out = sh("ninja -C %s %s" % (HOOKS, t), timeout=1800)
        if rc != 0:
            raise Inconclusive("hooks build of /repo failed:\n" + out[-4000:])
    finally:
        fcntl.flock(lock, fcntl.LOCK_UN)
        lock.close()


def build_harness(name, sources=None, std="c++11", opt="-O2", extra="", link_repo=True,
                  extra_link="", defines=""):
    """Compile harness/<name>.cpp (+sources) into build/harness/<name>.

    Uses a private Ninja file with depfiles: any header under /repo/src that
    the harness includes and that changed triggers a recompilation.
    """
    os.makedirs(HARNESS_BIN, exist_ok=True)
    srcs = sources or [os.path.join(HARNESS_SRC, name + ".cpp")]
    nin = os.path.join(HARNESS_BIN, name + ".ninja")
    flags = "-std=%s %s -g -fopenmp -DNDEBUG %s %s %s %s" % (
        std, opt, HOOK_FLAGS, defines, " ".join(INCLUDES), extra)
    objs = []
    lines = ["rule cxx",
             "  command = c++ $flags -MD -MF $out.d -c $in -o $out",
             "  depfile = $out.d", "  deps = gcc",
             "rule link",
             "  command = c++ -fopenmp -o $out.tmp.$$$$ $in $libs && mv -f $out.tmp.$$$$ $out", ""]
    for s in srcs:
        o = os.path.join(HARNESS_BIN, name + "." + os.path.basename(s) + ".o")
        objs.append(o)
        lines += ["build %s: cxx %s" % (o, s), "  flags = " + flags]
    exe = os.path.join(HARNESS_BIN, name)
    libs = (LINK_LIBS if link_repo else "-lpthread") + " " + extra_link
    deps = ""
    if link_repo:
        deps = " | " + " ".join(os.path.join(HOOKS, "lib", "lib%s.a" % l) for l in LIBS)
    lines += ["build %s: link %s%s" % (exe, " ".join(objs), deps), "  libs = " + libs, ""]
    content = "\n".join(lines)
    old = open(nin).read() if os.path.exists(nin) else None
    if old != content:
        with open(nin, "w") as f:
            f.write(content)
    import fcntl
    lock = open(os.path.join(BUILD, ".harness.lock"), "w")
    fcntl.flock(lock, fcntl.LOCK_EX)
    try:
        rc, out = sh("ninja -f %s -C %s" % (nin, HARNESS_BIN), timeout=1800)
    finally:
        fcntl.flock(lock, fcntl.LOCK_UN)
        lock.close()
    if rc != 0:
        raise Inconclusive("harness build %s failed:\n%s" % (name, out[-6000:]))
    return exe


# ----------------------------------------------------------------------------
# TLC
# ----------------------------------------------------------------------------
class TLCResult:
    def __init__(self):
        self.rc = None
        self.out = ""
        self.generated = 0
        self.distinct = 0
        self.depth = 0
        self.violated = None      # name of violated invariant/property or None
        self.kind = None          # 'invariant' | 'property' | 'deadlock' | 'assert' | 'error'
        self.coverage = {}        # action -> (taken, generated)
        self.wall = 0.0
        self.timed_out = False
        self.trace_text = ""

    @property
    def ok(self):
        return self.rc == 0 and self.violated is None


def tlc(spec, cfg, rundir, workers=None, timeout=600, simulate=None, depth=None,
        coverage=False, env=None, dfs=False, extra="", xmx="8g", seed=None, tag=None,
        deadlock=None, dump=None, library=None, xss=None):
    """Run TLC on spec/<spec>.tla with spec/<cfg>. Returns TLCResult."""
    tag = tag or os.path.splitext(os.path.basename(cfg))[0]
    meta = os.path.join(rundir, "tlc_" + tag)
    shutil.rmtree(meta, ignore_errors=True)
    os.makedirs(meta)
    jopts = "-XX:+UseParallelGC -Xmx%s -Djava.io.tmpdir=%s" % (xmx, meta)
    if dfs:
        jopts += " -Dtlc2.tool.queue.IStateQueue=StateDeque"
    if library:
        jopts += " -DTLA-Library=%s" % library
    if xss:
        jopts += " -Xss%s" % xss
    w = workers if workers is not None else min(NCPU, 8)
    cmd = "java %s -cp %s tlc2.TLC -workers %s -metadir %s -config %s" % (
        jopts, TLA_CP, w, os.path.join(meta, "states"), cfg)
    if simulate:
        cmd += " -simulate num=%d" % simulate
    if depth:
        cmd += " -depth %d" % depth
    if coverage:
        cmd += " -coverage 1"
    if seed is not None:
        cmd += " -seed %d" % seed
    if deadlock is False:
        cmd += " -deadlock"
    if dump:
        cmd += " -dump %s" % dump
    cmd += " -noGenerateSpecTE " + extra + " " + spec
    r = TLCResult()
    t0 = time.time()
    r.rc, r.out = sh(cmd, timeout=timeout, cwd=SPEC, env=env)
    r.wall = time.time() - t0
    r.timed_out = r.rc == 124
    _parse_tlc(r)
    with open(os.path.join(rundir, "tlc_" + tag + ".log"), "w") as f:
        f.write(cmd + "\n" + r.out)
    shutil.rmtree(meta, ignore_errors=True)
    return r


_RE_STATES = re.compile(r"(\d+) states generated, (\d+) distinct states found")
_RE_DEPTH = re.compile(r"The depth of the complete state graph search is (\d+)")
_RE_INV = re.compile(r"Invariant (\S+) is violated")
_RE_PROP = re.compile(r"(?:Temporal properties were violated|Action property (\S+) is violated|property (\S+) (?:is|was) violated)")
_RE_COV = re.compile(r"^<(\w+) line (\d+), col \d+ to line \d+, col \d+ of module (\w+)>: (\d+):(\d+)", re.M)


def _parse_tlc(r):
    for m in _RE_STATES.finditer(r.out):
        r.generated, r.distinct = int(m.group(1)), int(m.group(2))
    m = _RE_DEPTH.search(r.out)
    if m:
        r.depth = int(m.group(1))
    m = _RE_INV.search(r.out)
    if m:
        r.violated, r.kind = m.group(1), "invariant"
    elif "Deadlock reached" in r.out:
        r.violated, r.kind = "Deadlock", "deadlock"
    else:
        m = _RE_PROP.search(r.out)
        if m:
            r.violated = m.group(1) or m.group(2) or "TemporalProperty"
            r.kind = "property"
        elif "The first argument of Assert evaluated to FALSE" in r.out or "Assert" in r.out and "Error:" in r.out and "evaluated to FALSE" in r.out:
            r.violated, r.kind = "Assert", "assert"
    for m in _RE_COV.finditer(r.out):
        name = m.group(1)
        t, g = int(m.group(4)), int(m.group(5))
        if name in r.coverage:
            t += r.coverage[name][0]
            g += r.coverage[name][1]
        r.coverage[name] = (t, g)
    i = r.out.find("Error: The behavior up to this point is")
    if i >= 0:
        r.trace_text = r.out[i:i + 20000]
    if r.violated is None and r.rc not in (0, 124) and r.rc is not None:
        r.kind = "error"


def tlc_model(spec, cfg, rundir, must_take=(), **kw):
    """Exhaustive/simulation run of a *specification*; it must pass on the
    unchanged machinery. A failure here is an infrastructure problem
    (Inconclusive), never a verdict on the code."""
    kw.setdefault("coverage", True)
    r = tlc(spec, cfg, rundir, **kw)
    if r.timed_out:
        raise Inconclusive("TLC timed out on %s/%s" % (spec, cfg))
    if not r.ok:
        raise Inconclusive("TLC failed on specification %s/%s (rc=%s, violated=%s)\n%s" %
                           (spec, cfg, r.rc, r.violated, r.out[-3000:]))
    for a in must_take:
        if r.coverage.get(a, (0, 0))[0] == 0:
            raise Inconclusive("vacuity: action %s never taken in %s/%s" % (a, spec, cfg))
    return r


TRACE_STATS = {"runs": 0, "states": 0, "transitions": 0}


def validate_trace(spec, cfg, trace_path, rundir, timeout=600, dfs=True, env=None, tag=None,
                   accepted_inv="NotAccepted", xss=None):
    """Trace validation run. Convention of the trace specs: a CONSTRAINT TrackL
    records the largest position l reached in TLC register 1 (-workers 1) and a
    POSTCONDITION prints it as <<"MAXL", n>>. The trace is accepted iff no
    invariant is violated and MAXL = number of records + 1 (the whole log was
    consumed on some path). (An invariant NotAccepted would also work but makes
    TLC print the complete behaviour, which dominates the run time for long
    logs.)  Any violated invariant is a property violation on the recorded
    execution; MAXL short of the end means the record at position MAXL cannot
    be matched (rejected).
    Returns (status, TLCResult) with status in 'accepted', 'rejected',
    'violated:<Inv>', 'error'."""
    e = {"TRACE": trace_path}
    if env:
        e.update(env)
    r = tlc(spec, cfg, rundir, workers=1, timeout=timeout, dfs=dfs, env=e, tag=tag, xss=xss)
    TRACE_STATS["runs"] += 1
    TRACE_STATS["states"] += r.distinct
    TRACE_STATS["transitions"] += r.generated
    if r.timed_out or r.kind == "error" or (r.rc not in (0, 12, 13) and r.violated is None):
        return "error", r
    if r.violated == accepted_inv:
        return "accepted", r
    if r.violated:
        return "violated:" + r.violated, r
    m = re.findall(r'<<"MAXL", (\d+)>>', r.out)
    if not m:
        return "error", r
    with open(trace_path) as f:
        nrec = sum(1 for line in f if line.strip())
    r.maxl = int(m[-1])
    return ("accepted" if r.maxl == nrec + 1 else "rejected"), r


def last_trace_state(r):
    """Extract the last printed state of a TLC counterexample as text."""
    parts = re.split(r"\nState \d+:", r.out)
    return parts[-1][:3000] if len(parts) > 1 else ""


# ----------------------------------------------------------------------------
# evidence / verdict
# ----------------------------------------------------------------------------
def load_known():
    p = os.path.join(VERIF, "known_findings.json")
    if not os.path.exists(p):
        return {"findings": [], "fixed": []}
    return json.load(open(p))


class Check:
    """Bookkeeping of one check run: evidence, violations, known findings."""

    def __init__(self, pid, tier, level="model_checking"):
        self.pid = pid
        self.tier = tier
        self.level = level
        self.seed = int(os.environ.get("VERIF_SEED", "1") or 1)
        self.t0 = time.time()
        self.cov = {"states": 0, "transitions": 0, "traces_validated_against_impl": 0,
                    "samples": [], "evaluations": 0, "distinct_nontrivial": 0, "rule": "",
                    "exhaustive": False, "models": [], "explanation": ""}
        self.assumptions = []
        self.violations = []
        self.known_hits = []
        self.drift = []
        self.rd = RunDir(pid)
        self.known = [k for k in load_known().get("findings", []) if k.get("property") == pid]
        self._distinct = set()
        os.makedirs(os.path.join(EVID, "replays", pid), exist_ok=True)

    # -- models
    def add_model(self, name, r, constants=""):
        self.cov["states"] += r.distinct
        self.cov["transitions"] += r.generated
        self.cov["models"].append({"model": name, "distinct_states": r.distinct,
                                   "states_generated": r.generated, "depth": r.depth,
                                   "constants": constants, "wall_s": round(r.wall, 1),
                                   "actions_taken": {k: v[0] for k, v in sorted(r.coverage.items())}})

    def add_case(self, key, nontrivial=True):
        self.cov["evaluations"] += 1
        if nontrivial and key not in self._distinct:
            self._distinct.add(key)
            self.cov["distinct_nontrivial"] = len(self._distinct)

    def sample(self, s, maxn=6):
        if len(self.cov["samples"]) < maxn:
            self.cov["samples"].append(s)

    # -- verdicts
    def replay_path(self, name):
        return os.path.join(EVID, "replays", self.pid, name)

    def violation(self, signature, what, replay_obj, name=None):
        """signature: string identifying the failing input/call site/history."""
        for k in self.known:
            if re.search(k["signature"], signature):
                msg = "KNOWN-FINDING: property=%s %s" % (self.pid, k["what"])
                if msg not in self.known_hits:
                    self.known_hits.append(msg)
                    print(msg, flush=True)
                return False
        if len(self.violations) >= 8:
            # enough detail on disk; keep counting
            self.violations.append({"signature": signature, "what": what, "replay": self.violations[0]["replay"]})
            return True
        name = name or ("viol_%d.json" % (len(self.violations) + 1))
        path = self.replay_path(name)
        with open(path, "w") as f:
            json.dump({"property": self.pid, "signature": signature, "what": what,
                       "replay": replay_obj}, f, indent=1, default=str)
        self.violations.append({"signature": signature, "what": what, "replay": path})
        print("VIOLATION property=%s replay=%s" % (self.pid, path), flush=True)
        log("  signature: %s\n  what: %s" % (signature, what))
        return True

    def model_drift(self, msg):
        self.drift.append(msg)
        log("MODEL-DRIFT property=%s %s" % (self.pid, msg))

    def write_evidence(self, inconclusive=None):
        os.makedirs(EVID, exist_ok=True)
        cov = dict(self.cov)
        if not cov["samples"]:
            cov["samples"] = ["(none recorded)"]
        if inconclusive:
            cov["inconclusive"] = inconclusive
        if self.drift:
            cov["model_drift"] = self.drift[:20]
        if self.known_hits:
            cov["known_findings_reproduced"] = self.known_hits
        cov["violations_detail"] = self.violations[:10]
        cov["trace_validation"] = dict(TRACE_STATS, note="states visited by TLC while validating recorded executions")
        cov["model_states"] = cov["states"]
        # states / transitions: exhaustive model runs plus the states TLC visited along validated traces
        cov["states"] = cov["states"] + TRACE_STATS["states"]
        cov["transitions"] = cov["transitions"] + TRACE_STATS["transitions"]
        ev = {"property_id": self.pid, "tier": self.tier, "seed": self.seed, "level": self.level,
              "coverage": cov, "assumptions": self.assumptions,
              "wall_s": round(time.time() - self.t0, 2), "violations": len(self.violations)}
        with open(os.path.join(EVID, self.pid + ".json"), "w") as f:
            json.dump(ev, f, indent=1, default=str)

    def finish(self):
        self.write_evidence()
        self.rd.cleanup()
        if self.violations:
            return 1
        log("OK property=%s tier=%s states=%d traces=%d cases=%d wall=%.1fs" % (
            self.pid, self.tier, self.cov["states"], self.cov["traces_validated_against_impl"],
            self.cov["evaluations"], time.time() - self.t0))
        return 0


def run_check(pid, tier, fn, level="model_checking"):
    """Common driver: builds Check, runs fn(check), maps exceptions to exit codes."""
    c = Check(pid, tier, level)
    try:
        fn(c)
        return c.finish()
    except Inconclusive as e:
        log("INCONCLUSIVE property=%s %s" % (pid, str(e)[:6000]))
        c.write_evidence(inconclusive=str(e)[:2000])
        keep = os.environ.get("VERIF_KEEP")
        if not keep:
            c.rd.cleanup()
        return 2


_NONFINITE = re.compile(r'(?<=[\[,:])\s*(-?)(inf|nan)(?=[,\]}])', re.I)


def read_ndjson(path):
    """NDJSON written by harnesses; C's printf spells non-finite doubles inf / -inf / nan / -nan, which JSON does not know:
    they are read as float('inf') / float('nan') (callers must test for finiteness where a number is expected)."""
    out = []
    with open(path) as f:
        for line in f:
            line = line.strip()
            if line:
                if "inf" in line or "nan" in line:
                    line = _NONFINITE.sub(lambda m: (m.group(1) + "Infinity") if m.group(2).lower() == "inf" else "NaN", line)
                out.append(json.loads(line))
    return out


def read_ndjson_line(line):
    line = line.strip()
    if not line:
        return []
    if "inf" in line or "nan" in line:
        line = _NONFINITE.sub(lambda m: (m.group(1) + "Infinity") if m.group(2).lower() == "inf" else "NaN", line)
    return [json.loads(line)]


def write_ndjson(path, recs):
    with open(path, "w") as f:
        for r in recs:
            f.write(json.dumps(r, separators=(",", ":")) + "\n")
