#!/usr/bin/env python3
"""Refresh MANIFEST.hooks.source_commits from /repo's history (commits whose subject starts 'verif hooks')."""
import json, subprocess
p = "/verif/MANIFEST.json"
m = json.load(open(p))
out = subprocess.check_output(["git", "-C", "/repo", "log", "--reverse", "--format=%h", "--grep=^verif hooks"]).decode().split()
m["hooks"]["source_commits"] = out
json.dump(m, open(p, "w"), indent=1)
print(out)
