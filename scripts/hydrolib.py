"""Shared helpers for the hydro properties (C07, C04, C10, C09, C12): run the
real task-based RHD simulation through harness/cmi_driver and read its trace."""
import json
import os
import re
import shutil
import struct

import rhdparams
import vlib


def driver():
    vlib.ensure_hooks_build()
    return vlib.build_harness("cmi_driver")


def tlc_configs(rd, maxn, maxsub):
    """Binding E: configuration space printed by TLC (spec/Configs_Hydro.tla)."""
    cfg = os.path.join(rd, "Configs_Hydro_%d_%d.cfg" % (maxn, maxsub))
    open(cfg, "w").write("CONSTANTS MaxN = %d MaxSub = %d\nSPECIFICATION Spec\n" % (maxn, maxsub))
    r = vlib.tlc("Configs_Hydro.tla", cfg, rd, workers=1, timeout=300, tag="configs_%d_%d" % (maxn, maxsub))
    m = re.search(r'<<"CONFIGS", "(.*)">>', r.out)
    if not m:
        raise vlib.Inconclusive("Configs_Hydro printed no configurations:\n" + r.out[-1500:])
    cfgs = json.loads(m.group(1).replace('\\"', '"'))
    return sorted(((tuple(c["n"]), tuple(c["per"])) for c in cfgs))


def corner_sample(cfgs, rng, n):
    """A sample of n configurations that always contains the corner cases: single
    subgrid (all periodicities), an axis with exactly one / exactly two subgrids
    that is periodic, fully non-periodic and fully periodic multi-subgrid layouts."""
    must = []
    for c in cfgs:
        (nx, ny, nz), per = c
        if (nx, ny, nz) == (1, 1, 1):
            must.append(c)
        elif sorted((nx, ny, nz)) == [1, 1, 2] and per in ((1, 1, 1), (0, 0, 0)):
            must.append(c)
        elif sorted((nx, ny, nz)) == [1, 2, 2] and per in ((1, 1, 1), (0, 1, 0), (1, 0, 1)):
            must.append(c)
        elif (nx, ny, nz) in ((2, 2, 2), (3, 1, 2)) and per in ((1, 1, 1), (0, 0, 0)):
            must.append(c)
    rest = [c for c in cfgs if c not in must]
    rng.shuffle(rest)
    out = must + rest
    return out[:max(n, len(must))] if n >= len(must) else rng.sample(must, n)


def run_rhd(exe, rundir, nsub, per, threads=1, steps=2, ncell_per_sub=(4, 4, 4), ncell=None, seed=1, jitter=False,
            timeout=60, state_file=False, restart_from=None, extra_env=None, **param_kw):
    """One run of the real simulation. Returns dict(rc, trace (list of records), dir)."""
    shutil.rmtree(rundir, ignore_errors=True)
    os.makedirs(rundir)
    if ncell is None:
        ncell = tuple(ncell_per_sub[i] * nsub[i] for i in range(3))
    p = rhdparams.rhd_param(rundir, ncell=ncell, nsub=nsub, periodic=tuple(bool(x) for x in per), **param_kw)
    return run_rhd_param(exe, rundir, p, threads, steps, seed, jitter, timeout, state_file, restart_from, extra_env)


def run_rhd_param(exe, rundir, param, threads=1, steps=2, seed=1, jitter=False, timeout=60, state_file=False,
                  restart_from=None, extra_env=None, tracename="trace.ndjson"):
    tr = os.path.join(rundir, tracename)
    if os.path.exists(tr):
        os.remove(tr)
    env = {"CMI_VERIF_TRACE": tr, "VERIF_SEED": str(seed), "OMP_NUM_THREADS": str(threads),
           "CMI_VERIF_MODE": "jitter" if jitter else "off", "OMP_WAIT_POLICY": "passive"}
    if state_file:
        sf = os.path.join(rundir, "state.bin")
        if os.path.exists(sf):
            os.remove(sf)
        env["CMI_VERIF_STATE"] = sf
    if extra_env:
        env.update(extra_env)
    cmd = "%s --task-based-rhd --params %s --threads %d" % (exe, param, threads)
    if steps:
        cmd += " --number-of-steps %d" % steps
    if restart_from:
        cmd += " --restart %s" % restart_from
    rc, out = vlib.sh("cd %s && %s > run.log 2>&1" % (rundir, cmd), timeout=timeout, env=env)
    trace = []
    if os.path.exists(tr):
        with open(tr) as f:
            for line in f:
                line = line.strip()
                if not line:
                    continue
                try:
                    trace.append(json.loads(line))
                except ValueError:
                    pass          # truncated last line of a killed run
    return {"rc": rc, "trace": trace, "dir": rundir, "cmd": cmd, "env": env}


def hexd(s):
    return struct.unpack(">d", bytes.fromhex(s))[0]


def read_states(path):
    """state.bin -> list of (step, {(x,y,z): (conserved[5], primitives[5])})"""
    out = []
    with open(path, "rb") as f:
        data = f.read()
    off = 0
    while off + 16 <= len(data):
        step, n = struct.unpack_from("<QQ", data, off)
        off += 16
        cells = {}
        for _ in range(n):
            rec = struct.unpack_from("<13d", data, off)
            off += 104
            cells[rec[0:3]] = (rec[3:8], rec[8:13])
        out.append((step, cells))
    return out
