"""Shared helpers for the hydro properties (C07, C04, C10, C09, C12): run the
real task-based RHD simulation through harness/cmi_driver and read its trace."""
import json
import os
import re
import shutil
import struct

import rhdparams
import vlib


def driver():
    vlib.ensure_hooks_build()
    return vlib.build_harness("cmi_driver")


def tlc_configs(rd, maxn, maxsub):
    """Binding E: configuration space printed by TLC (spec/Configs_Hydro.tla)."""
    cfg = os.path.join(rd, "Configs_Hydro_%d_%d.cfg" % (maxn, maxsub))
    open(cfg, "w").write("CONSTANTS MaxN = %d MaxSub = %d\nSPECIFICATION Spec\n" % (maxn, maxsub))
    r = vlib.tlc("Configs_Hydro.tla", cfg, rd, workers=1, timeout=300, tag="configs_%d_%d" % (maxn, maxsub))
    m = re.search(r'<<"CONFIGS", "(.*)">>', r.out)
    if not m:
        raise vlib.Inconclusive("Configs_Hydro printed no configurations:\n" + r.out[-1500:])
    cfgs = json.loads(m.group(1).replace('\\"', '"'))
    return sorted(((tuple(c["n"]), tuple(c["per"])) for c in cfgs))


def corner_sample(cfgs, rng, n):
    """A sample of n configurations that always contains the corner cases: single
    subgrid (all periodicities), an axis with exactly one / exactly two subgrids
    that is periodic, fully non-periodic and fully periodic multi-subgrid layouts."""
    must = []
    for c in cfgs:
        (nx, ny, nz), per = c
        if (nx, ny, nz) == (1, 1, 1):
            must.append(c)
        elif sorted((nx, ny, nz)) == [1, 1, 2] and per in ((1, 1, 1), (0, 0, 0)):
            must.append(c)
        elif sorted((nx, ny, nz)) == [1, 2, 2] and per in ((1, 1, 1), (0, 1, 0), (1, 0, 1)):
            must.append(c)
        elif (nx, ny, nz) in ((2, 2, 2), (3, 1, 2)) and per in ((1, 1, 1), (0, 0, 0)):
            must.append(c)
    rest = [c for c in cfgs if c not in must]
    rng.shuffle(rest)
    out = must + rest
    return out[:max(n, len(must))] if n >= len(must) else rng.sample(must, n)


def run_rhd(exe, rundir, nsub, per, threads=1, steps=2, ncell_per_sub=(4, 4, 4), ncell=None, seed=1, jitter=False,
            timeout=60, state_file=False, restart_from=None, extra_env=None, **param_kw):
    """One run of the real simulation. Returns dict(rc, trace (list of records), dir)."""
    shutil.rmtree(rundir, ignore_errors=True)
    os.makedirs(rundir)
    if ncell is None:
        ncell = tuple(ncell_per_sub[i] * nsub[i] for i in range(3))
    p = rhdparams.rhd_param(rundir, ncell=ncell, nsub=nsub, periodic=tuple(bool(x) for x in per), **param_kw)
    return run_rhd_param(exe, rundir, p, threads, steps, seed, jitter, timeout, state_file, restart_from, extra_env)


def run_rhd_param(exe, rundir, param, threads=1, steps=2, seed=1, jitter=False, timeout=60, state_file=False,
                  restart_from=None, extra_env=None, tracename="trace.ndjson"):
    tr = os.path.join(rundir, tracename)
    if os.path.exists(tr):
        os.remove(tr)
    env = {"CMI_VERIF_TRACE": tr, "VERIF_SEED": str(seed), "OMP_NUM_THREADS": str(threads),
           "CMI_VERIF_MODE": "jitter" if jitter else "off", "OMP_WAIT_POLICY": "passive"}
    if state_file:
        sf = os.path.join(rundir, "state.bin")
        if os.path.exists(sf):
            os.remove(sf)
        env["CMI_VERIF_STATE"] = sf
    if extra_env:
        env.update(extra_env)
    cmd = "%s --task-based-rhd --params %s --threads %d" % (exe, param, threads)
    if steps:
        cmd += " --number-of-steps %d" % steps
    if restart_from:
        cmd += " --restart %s" % restart_from
    rc, out = vlib.sh("cd %s && %s > run.log 2>&1" % (rundir, cmd), timeout=timeout, env=env)
    trace = []
    if os.path.exists(tr):
        with open(tr) as f:
            for line in f:
                line = line.strip()
                if not line:
                    continue
                try:
                    trace.append(json.loads(line))
                except ValueError:
                    pass          # truncated last line of a killed run
    return {"rc": rc, "trace": trace, "dir": rundir, "cmd": cmd, "env": env}


def hexd(s):
    return struct.unpack(">d", bytes.fromhex(s))[0]


def read_states(path):
    """state.bin -> list of (step, {(x,y,z): (conserved[5], primitives[5])})"""
    out = []
    with open(path, "rb") as f:
        data = f.read()
    off = 0
    while off + 16 <= len(data):
        step, n = struct.unpack_from("<QQ", data, off)
        off += 16
        cells = {}
        for _ in range(n):
            rec = struct.unpack_from("<13d", data, off)
            off += 104
            cells[rec[0:3]] = (rec[3:8], rec[8:13])
        out.append((step, cells))
    return out


# ----------------------------------------------------------------------------
# numerical digests of observed hydro states (pre-digestion to integers for TLC)
import math
import random as _random

EPS = 2.220446049250313e-16
CAP = 10 ** 9
KB_OVER_MH = 1.380649e-23 / 1.6737236e-27


def random_blocks(rng, side, anchor, kind):
    """Seeded piecewise-constant initial fields.
    kind: 'contrast' (density/pressure jumps up to 1e6, subsonic..transonic flow),
          'vacuum' (near-vacuum regions, one block with a density so small that it is a denormal number in SI units),
          'calm' (small velocities: wall Mach < 1), 'supersonic' (cold gas, velocity jumps of several sound speeds)."""
    cx = [anchor[i] + 0.5 * side[i] for i in range(3)]
    bl = [dict(origin=cx, sides=list(side), n=1.0e6, T=100., v=(0., 0., 0.))]
    nb = rng.randint(4, 9) if kind != "supersonic" else rng.randint(25, 40)
    for _ in range(nb):
        o = [anchor[i] + rng.uniform(0.05, 0.95) * side[i] for i in range(3)]
        sz = [rng.uniform(0.1, 0.7) * side[i] for i in range(3)]
        if kind == "vacuum":
            n = 10 ** rng.uniform(-6, 6)
        else:
            n = 10 ** rng.uniform(3, 9)
        T = 10 ** (rng.uniform(-2, 0) if kind == "supersonic" else rng.uniform(1, 4))
        c = math.sqrt(5. / 3. * KB_OVER_MH * T)
        # supersonic: cold gas (sound speed 10 .. 100 m/s) in many small blocks with velocity jumps of Mach 10 .. 100
        vm = {"contrast": 1.2, "vacuum": 0.8, "calm": 0.3, "supersonic": 100.0}[kind] * c
        if kind == "supersonic":
            sz = [rng.uniform(0.1, 0.35) * side[i] for i in range(3)]
            n = 10 ** rng.uniform(5.7, 6.2)
        bl.append(dict(origin=o, sides=sz, n=n, T=T, v=tuple(rng.uniform(-vm, vm) for _ in range(3))))
    if kind == "vacuum":
        # mass density 1.7e-310 .. 1.7e-309 kg m^-3: positive, but 1 / density overflows
        o = [anchor[i] + rng.uniform(0.2, 0.8) * side[i] for i in range(3)]
        bl.append(dict(origin=o, sides=[0.3 * side[i] for i in range(3)], n=10 ** rng.uniform(-283, -282), T=100., v=(0., 0., 0.)))
    return bl


def cell_scales(cons, prim, gamma, vol):
    """Natural magnitude of what one step adds to / removes from a cell."""
    m = abs(cons[0])
    rho, P = prim[0], prim[4]
    v = math.sqrt(prim[1] ** 2 + prim[2] ** 2 + prim[3] ** 2)
    c = math.sqrt(gamma * P / rho) if rho > 0 and P > 0 else 0.
    sm = 2. * m
    sp = 2. * (math.sqrt(cons[1] ** 2 + cons[2] ** 2 + cons[3] ** 2) + m * (v + c))
    se = 2. * (abs(cons[4]) + P * vol)
    return sm, sp, se


def units(delta, scale):
    if scale <= 0.:
        return 0 if delta == 0. else CAP
    x = abs(delta) / (EPS * scale)
    return CAP if not (x < CAP) else int(math.ceil(x))


def step_records(states, hstates, gamma, box_anchor, box_side, ncell, periodic):
    """states: read_states() output (step 0 = initial); hstates: h.state records.
    Returns one 'step' record per advanced step."""
    vol = 1.
    dx = [box_side[i] / ncell[i] for i in range(3)]
    for d in dx:
        vol *= d
    recs = []
    hs = {h["step"]: h for h in hstates}
    for (k0, c0), (k1, c1) in zip(states[:-1], states[1:]):
        tot0 = [math.fsum(c[0][j] for c in c0.values()) for j in range(5)]
        tot1 = [math.fsum(c[0][j] for c in c1.values()) for j in range(5)]
        sm = sp = se = 0.
        slow = 1
        for pos, (cons, prim) in c0.items():
            a, b, c = cell_scales(cons, prim, gamma, vol)
            sm += a
            sp += b
            se += c
            # gas running into a reflecting wall faster than 1.5 c ?
            rho, P = prim[0], prim[4]
            cs = math.sqrt(gamma * P / rho) if rho > 0 and P > 0 else 0.
            for ax in range(3):
                if periodic[ax]:
                    continue
                lo = pos[ax] - box_anchor[ax] < dx[ax]
                hi = box_anchor[ax] + box_side[ax] - pos[ax] < dx[ax]
                vn = prim[1 + ax]
                if (hi and vn > 1.5 * cs) or (lo and -vn > 1.5 * cs):
                    slow = 0
        finite = 1
        nonneg = 1
        for cons, prim in c1.values():
            for x in cons + prim:
                if not math.isfinite(x):
                    finite = 0
            if cons[0] < 0. or cons[4] < 0. or prim[0] < 0. or prim[4] < 0.:
                nonneg = 0
        h = hs.get(k1, {})
        # the proviso of the wall clause as the solver sees it: no FACE state ran into a boundary faster than 1.5 times its
        # sound speed during this step (hook counter "fastwall"; the cell-centre test above alone misses faces whose
        # extrapolated velocity is larger than the cell's)
        if h.get("fastwall", 0) > 0:
            slow = 0
        recs.append({"e": "step", "k": k1, "finite": finite if h.get("finite", 1) else 0, "nonneg": nonneg,
                     "clamps": h.get("clamps", 0), "slow": slow,
                     "dM": units(tot1[0] - tot0[0], sm), "dPx": units(tot1[1] - tot0[1], sp),
                     "dPy": units(tot1[2] - tot0[2], sp), "dPz": units(tot1[3] - tot0[3], sp),
                     "dE": units(tot1[4] - tot0[4], se)})
    return recs


def cell_index(pos, anchor, side, ncell):
    return tuple(int(round((pos[i] - anchor[i]) / (side[i] / ncell[i]) - 0.5)) for i in range(3))


def state_by_index(cells, anchor, side, ncell):
    return {cell_index(p, anchor, side, ncell): v for p, v in cells.items()}


def max_deviation(ref, other, gamma, vol):
    """Largest per-cell deviation of the conserved variables in units of EPS x scale."""
    worst = 0
    where = None
    for idx, (cons, prim) in ref.items():
        if idx not in other:
            return CAP, idx
        oc = other[idx][0]
        sm, sp, se = cell_scales(cons, prim, gamma, vol)
        for j, sc in ((0, sm), (1, sp), (2, sp), (3, sp), (4, se)):
            u = units(oc[j] - cons[j], sc)
            if u > worst:
                worst, where = u, (idx, j)
    return worst, where
