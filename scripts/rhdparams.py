"""Parameter files for tiny task-based RHD / photoionization runs of CMacIonize."""
import os


def boundary_name(per, kind):
    return "periodic" if per else kind


def rhd_param(outdir, ncell=(8, 8, 8), nsub=(2, 2, 2), periodic=(True, True, True), side=(1.0, 1.0, 1.0),
              anchor=(0.0, 0.0, 0.0), wall="reflective", gamma=5. / 3., total_time=1.0e-3, cfl=0.2,
              min_dt=None, max_dt=None, blocks=None, radiation=False, seed=42, dump_every_step=False,
              max_backups=1, nphoton=1000, niter=1, riemann="Exact", extra="", relative_paths=False, nsources=1, source_block=None,
              diffuse=None, copy_level=None, sigma_h="6.3e-18 cm^2", luminosity=1.e46, alpha_h="2.7e-13 cm^3 s^-1", nbuffers=200, ntasks=5000, xh=None, hydro_extra=""):
    """Write <outdir>/run.param and <outdir>/blocks.yml; returns the param path.

    blocks: list of dicts(origin, sides, n (m^-3), T (K), v (m/s)) - default two
    blocks with a density and velocity contrast."""
    os.makedirs(outdir, exist_ok=True)
    if blocks is None:
        cx = [anchor[i] + 0.5 * side[i] for i in range(3)]
        blocks = [dict(origin=cx, sides=side, n=1.0e6, T=100., v=(0., 0., 0.)),
                  dict(origin=[anchor[0] + 0.25 * side[0], cx[1], cx[2]],
                       sides=[0.5 * side[0], 0.5 * side[1], 0.5 * side[2]], n=5.0e6, T=400., v=(30., -20., 10.))]
    y = "number of blocks: %d\n\n" % len(blocks)
    for i, b in enumerate(blocks):
        y += ("block[%d]:\n  origin: [%r m, %r m, %r m]\n  sides: [%r m, %r m, %r m]\n  type: cube\n"
              "  number density: %r m^-3\n  initial temperature: %r K\n"
              "  initial velocity: [%r m s^-1, %r m s^-1, %r m s^-1]\n\n" % (
                  (i,) + tuple(b["origin"]) + tuple(b["sides"]) + (b["n"], b["T"]) + tuple(b["v"])))
        if xh is not None or "xh" in b:
            y = y[:-1] + "  neutral fraction H: %r\n\n" % b.get("xh", xh)
    open(os.path.join(outdir, "blocks.yml"), "w").write(y)
    bl = lambda v: "true" if v else "false"
    p = """CrossSections:
  type: FixedValue
  hydrogen_0: %(sigma_h)s
  helium_0: 0. m^2
  carbon_1: 0. m^2
  carbon_2: 0. m^2
  nitrogen_0: 0. m^2
  nitrogen_1: 0. m^2
  nitrogen_2: 0. m^2
  oxygen_0: 0. m^2
  oxygen_1: 0. m^2
  neon_0: 0. m^2
  neon_1: 0. m^2
  sulphur_1: 0. m^2
  sulphur_2: 0. m^2
  sulphur_3: 0. m^2

RecombinationRates:
  type: FixedValue
  hydrogen_1: %(alpha_h)s
  helium_1: 0. m^3 s^-1
  carbon_2: 0. m^3 s^-1
  carbon_3: 0. m^3 s^-1
  nitrogen_1: 0. m^3 s^-1
  nitrogen_2: 0. m^3 s^-1
  nitrogen_3: 0. m^3 s^-1
  oxygen_1: 0. m^3 s^-1
  oxygen_2: 0. m^3 s^-1
  neon_1: 0. m^3 s^-1
  neon_2: 0. m^3 s^-1
  sulphur_2: 0. m^3 s^-1
  sulphur_3: 0. m^3 s^-1
  sulphur_4: 0. m^3 s^-1

DensityFunction:
  type: BlockSyntax
  filename: %(dir)s/blocks.yml

DensityGrid:
  number of cells: [%(nc0)d, %(nc1)d, %(nc2)d]

DensitySubGridCreator:
  number of subgrids: [%(ns0)d, %(ns1)d, %(ns2)d]
  periodicity: [%(p0)s, %(p1)s, %(p2)s]

DensityGridWriter:
  type: AsciiFile
  padding: 3
  prefix: snap_

Hydro:
  polytropic index: %(gamma)r
  riemann solver type: %(riemann)s
%(hydro_extra)s
HydroBoundaryManager:
  boundary x high: %(bx)s
  boundary x low: %(bx)s
  boundary y high: %(by)s
  boundary y low: %(by)s
  boundary z high: %(bz)s
  boundary z low: %(bz)s

%(psd)s

PhotonSourceSpectrum:
  type: Monochromatic
  frequency: 3.28847e+15 Hz
  total flux: -1 m^-2 s^-1

RestartManager:
  path: %(dir)s
  output interval: %(dumpint)s
  maximum number of backups: %(maxb)d

SimulationBox:
  anchor: [%(a0)r m, %(a1)r m, %(a2)r m]
  periodicity: [%(p0)s, %(p1)s, %(p2)s]
  sides: [%(s0)r m, %(s1)r m, %(s2)r m]

TaskBasedRadiationHydrodynamicsSimulation:
  CFL: %(cfl)r
  do radiation: %(rad)s
  number of iterations: %(niter)d
  number of photons: %(nphoton)d
  number of buffers: %(nbuffers)d
  number of tasks: %(ntasks)d
  queue size per thread: 2000
  shared queue size: 2000
  output folder: %(dir)s
  random seed: %(seed)d
  snapshot time: -1 s
  total time: %(tt)r s
%(dts)s%(extra)s
TemperatureCalculator:
  do temperature calculation: false
%(diffblock)s""" % dict(dir="." if relative_paths else outdir, sigma_h=sigma_h, alpha_h=alpha_h, hydro_extra=hydro_extra, nbuffers=nbuffers, ntasks=ntasks,
           diffblock=("\nDiffuseReemissionHandler:\n  type: FixedValue\n  reemission probability: %r\n"
                      "  reemission frequency: 13.7 eV\n" % diffuse) if diffuse else "", nc0=ncell[0], nc1=ncell[1], nc2=ncell[2], ns0=nsub[0], ns1=nsub[1], ns2=nsub[2],
           p0=bl(periodic[0]), p1=bl(periodic[1]), p2=bl(periodic[2]), gamma=gamma, riemann=riemann,
           bx=boundary_name(periodic[0], wall), by=boundary_name(periodic[1], wall),
           bz=boundary_name(periodic[2], wall),
           sx=anchor[0] + 0.5 * side[0], sy=anchor[1] + 0.5 * side[1], sz=anchor[2] + 0.5 * side[2],
           dumpint="0. s" if dump_every_step else "1.e9 s", maxb=max_backups,
           a0=anchor[0], a1=anchor[1], a2=anchor[2], s0=side[0], s1=side[1], s2=side[2],
           cfl=cfl, rad=bl(radiation), niter=niter, nphoton=nphoton, seed=seed, tt=total_time,
           psd=source_block if source_block else ("PhotonSourceDistribution:\n  type: SingleStar\n  luminosity: %r s^-1\n  position: [%r m, %r m, %r m]\n" % (
               luminosity, anchor[0] + 0.5 * side[0], anchor[1] + 0.5 * side[1], anchor[2] + 0.5 * side[2])) if nsources == 1 else
               ("PhotonSourceDistribution:\n  type: AsciiFile\n  filename: %s/sources.yml\n" % ("." if relative_paths else outdir)),
           dts=("  minimum timestep: %r s\n" % min_dt if min_dt else "") +
               ("  maximum timestep: %r s\n" % max_dt if max_dt else ""),
           extra=extra + ("  diffuse field: true\n" if diffuse else "") +
           ("  source copy level: %d\n" % copy_level if copy_level is not None else ""))
    if nsources > 1:
        frac = [(0.5, 0.5, 0.5), (0.2, 0.7, 0.3), (0.8, 0.3, 0.6), (0.3, 0.2, 0.8), (0.7, 0.8, 0.2)][:nsources]
        lum = [1., 2., 5., 3., 7.][:nsources]
        y = "number of sources: %d\n\n" % nsources
        for i in range(nsources):
            y += "source[%d]:\n  position: [%r m, %r m, %r m]\n  luminosity: %r s^-1\n\n" % (
                (i,) + tuple(anchor[k] + frac[i][k] * side[k] for k in range(3)) + (luminosity * lum[i] / sum(lum),))
        open(os.path.join(outdir, "sources.yml"), "w").write(y)
    path = os.path.join(outdir, "run.param")
    open(path, "w").write(p)
    return path


def ion_param(outdir, ncell=(16, 16, 16), nsub=(2, 2, 2), periodic=(False, False, False), nphoton=10000, niter=2,
              discrete=True, continuous=False, diffuse=False, copy_level=1, density="100. cm^-3", seed=42,
              reem_prob=0.364, nbuffers=4000, ntasks=40000, extra="", xh=2.0e-4, luminosity=1.0e46, nsources=1):
    """Parameter file for the task-based photoionization simulation."""
    os.makedirs(outdir, exist_ok=True)
    bl = lambda v: "true" if v else "false"
    rhd = open(os.path.join(os.path.dirname(os.path.abspath(__file__)), "rhdparams.py")).read()
    p = """SimulationBox:
  anchor: [-5. pc, -5. pc, -5. pc]
  sides: [10. pc, 10. pc, 10. pc]
  periodicity: [%(p0)s, %(p1)s, %(p2)s]

DensityGrid:
  type: Cartesian
  periodicity: [%(p0)s, %(p1)s, %(p2)s]
  number of cells: [%(nc0)d, %(nc1)d, %(nc2)d]

DensitySubGridCreator:
  number of subgrids: [%(ns0)d, %(ns1)d, %(ns2)d]
  periodicity: [%(p0)s, %(p1)s, %(p2)s]

DensityFunction:
  type: Homogeneous
  density: %(density)s
  temperature: 8000. K
  neutral fraction H: %(xh)r

Abundances:
  helium: 0.

TemperatureCalculator:
  do temperature calculation: false

%(dsrc)s
PhotonSourceSpectrum:
  type: Monochromatic
  frequency: 3.28847e+15 Hz
  total flux: -1 m^-2 s^-1

%(csrc)s
%(diff)s
TaskBasedIonizationSimulation:
  number of photons: %(nphoton)d
  number of iterations: %(niter)d
  source copy level: %(copy)d
  diffuse field: %(diffuse)s
  number of buffers: %(nbuffers)d
  number of tasks: %(ntasks)d
  queue size per thread: 5000
  shared queue size: 20000
  random seed: %(seed)d
  output folder: %(dir)s
%(extra)s
DensityGridWriter:
  type: AsciiFile
  prefix: snap_
  padding: 3

RecombinationRates:
  type: FixedValue
  hydrogen_1: 4.e-13 cm^3 s^-1
  helium_1: 0. m^3 s^-1
  carbon_2: 0. m^3 s^-1
  carbon_3: 0. m^3 s^-1
  nitrogen_1: 0. m^3 s^-1
  nitrogen_2: 0. m^3 s^-1
  nitrogen_3: 0. m^3 s^-1
  oxygen_1: 0. m^3 s^-1
  oxygen_2: 0. m^3 s^-1
  neon_1: 0. m^3 s^-1
  neon_2: 0. m^3 s^-1
  sulphur_2: 0. m^3 s^-1
  sulphur_3: 0. m^3 s^-1
  sulphur_4: 0. m^3 s^-1

CrossSections:
  type: FixedValue
  hydrogen_0: 6.3e-18 cm^2
  helium_0: 0. m^2
  carbon_1: 0. m^2
  carbon_2: 0. m^2
  nitrogen_0: 0. m^2
  nitrogen_1: 0. m^2
  nitrogen_2: 0. m^2
  oxygen_0: 0. m^2
  oxygen_1: 0. m^2
  neon_0: 0. m^2
  neon_1: 0. m^2
  sulphur_1: 0. m^2
  sulphur_2: 0. m^2
  sulphur_3: 0. m^2
""" % dict(p0=bl(periodic[0]), p1=bl(periodic[1]), p2=bl(periodic[2]), nc0=ncell[0], nc1=ncell[1], nc2=ncell[2],
           ns0=nsub[0], ns1=nsub[1], ns2=nsub[2], density=density, xh=xh, nphoton=nphoton, niter=niter, copy=copy_level,
           diffuse=bl(diffuse), nbuffers=nbuffers, ntasks=ntasks, seed=seed, dir=outdir, extra=extra,
           dsrc=(("PhotonSourceDistribution:\n  type: SingleStar\n  position: [0.3 pc, -0.2 pc, 0.1 pc]\n"
                  "  luminosity: %r s^-1\n" % luminosity) if nsources == 1 else
                 ("PhotonSourceDistribution:\n  type: AsciiFile\n  filename: %s/sources.yml\n" % outdir))
           if discrete else "PhotonSourceDistribution:\n  type: None\n",
           csrc=("ContinuousPhotonSource:\n  type: Isotropic\n\nContinuousPhotonSourceSpectrum:\n  type: Monochromatic\n"
                 "  frequency: 3.28847e+15 Hz\n  total flux: 1.e8 m^-2 s^-1\n") if continuous else "",
           diff=("DiffuseReemissionHandler:\n  type: FixedValue\n  reemission probability: %r\n"
                 "  reemission frequency: 13.7 eV\n" % reem_prob) if diffuse else "")
    if discrete and nsources > 1:
        spos = [(0.3, -0.2, 0.1), (-2.6, 2.4, -1.1), (3.3, 3.4, 2.7), (-3.9, -3.1, 4.2), (1.2, -4.4, -2.3)][:nsources]
        slum = [1., 2., 5., 3., 7.][:nsources]
        y = "number of sources: %d\n\n" % nsources
        for i in range(nsources):
            y += "source[%d]:\n  position: [%r pc, %r pc, %r pc]\n  luminosity: %r s^-1\n\n" % (
                (i,) + spos[i] + (luminosity * slum[i] / sum(slum),))
        open(os.path.join(outdir, "sources.yml"), "w").write(y)
    path = os.path.join(outdir, "ion.param")
    open(path, "w").write(p)
    return path
