"""Shared helpers for the ray-tracing properties (C02, C03, C16): lattice cases,
evaluation of spec/RayLattice.tla by TLC, comparison rules."""
import json
import math
import os
import re

import vlib


def dir_id(sx, sy, sz):
    """TravelDirection of a sign triple, from the order of the enumeration: INSIDE, corners (x,y,z: P before N),
    edges parallel to x, y, z, faces."""
    nz = (sx != 0) + (sy != 0) + (sz != 0)
    if nz == 0:
        return 0
    if nz == 3:
        return 1 + (4 if sx < 0 else 0) + (2 if sy < 0 else 0) + (1 if sz < 0 else 0)
    if nz == 2:
        if sx == 0:
            return 9 + (2 if sy < 0 else 0) + (1 if sz < 0 else 0)
        if sy == 0:
            return 13 + (2 if sx < 0 else 0) + (1 if sz < 0 else 0)
        return 17 + (2 if sx < 0 else 0) + (1 if sy < 0 else 0)
    if sx:
        return 21 if sx > 0 else 22
    if sy:
        return 23 if sy > 0 else 24
    return 25 if sz > 0 else 26


def signs_of(did):
    for sx in (-1, 0, 1):
        for sy in (-1, 0, 1):
            for sz in (-1, 0, 1):
                if dir_id(sx, sy, sz) == did:
                    return (sx, sy, sz)
    raise ValueError(did)


FRAMES = {
    # name: (lattice unit per axis, anchor)
    "dyadic": ((0.25, 0.25, 0.25), (0., 0., 0.)),
    "dyadic_aniso": ((0.5, 0.125, 2.0), (-4., 1., 16.)),
    "generic": ((0.1, 0.3, 0.07), (0.3, -1.7, 2.9)),
}


def tlc_trace(rd, cases, tag):
    f = os.path.join(rd, "rays_%s.json" % tag)
    json.dump([{k: c[k] for k in ("n", "p", "d", "kap", "tau2")} for c in cases], open(f, "w"))
    cfg = os.path.join(rd, "rl_%s.cfg" % tag)
    open(cfg, "w").write("SPECIFICATION Spec\n")
    r = vlib.tlc("MC_RayLattice.tla", cfg, rd, workers=1, timeout=3000, tag="rays_" + tag, env={"CASES": f}, xss="512m")
    if r.rc != 0:
        raise vlib.Inconclusive("MC_RayLattice failed (Sanity of Layer A or error):\n" + r.out[-2500:])
    m = re.search(r'<<"RAYS", "(.*)">>', r.out)
    return json.loads(m.group(1).replace('\\"', '"')), r


def phys_scale(d, u):
    """physical path length per unit of T (x = p + T d / 24 in lattice units)"""
    return math.sqrt(sum((d[k] * u[k]) ** 2 for k in range(3))) / 24.


def decidable_exit(case, res, u):
    """Is the exit classification decided in floating point?  Yes when no two candidate axes tie, or when the tie is
    reproduced exactly by identical floating-point operations: |d| components of the tied axes equal and the frame
    isotropic and dyadic, or the ray is axis-aligned."""
    ex = res["exit"]
    tied = [k for k in range(3) if ex[k] != 0]
    if len(tied) <= 1:
        # a face: decidable if the other axes are not within a hair of tying - on the lattice a non-tie is a
        # difference of at least one unit of T, far above round-off
        return True
    mags = set(abs(case["d"][k]) for k in tied)
    iso = len(set(u[k] for k in tied)) == 1 and all(math.log2(u[k]).is_integer() for k in tied)
    if not (len(mags) == 1 and iso):
        return False
    # the code snaps the coordinate of the wall it crosses and advances the other coordinates by lmin * direction
    # (rounded): after an earlier crossing the tied coordinates are no longer exact, so the tie is only reproduced when the
    # packet leaves the block from the cell it starts in
    from fractions import Fraction
    p, d = case["p"], case["d"]
    first = None
    for k in range(3):
        if d[k] > 0:
            t = Fraction(24 * (4 * (p[k] // 4 + 1) - p[k]), d[k])
        elif d[k] < 0:
            t = Fraction(24 * (p[k] - 4 * (-(-p[k] // 4) - 1)), -d[k])
        else:
            continue
        first = t if first is None else min(first, t)
    return first is not None and Fraction(res["t4"], 4) == first


def in_face_ray(case):
    """The ray runs exactly inside a cell face (a direction component is zero and the start coordinate is a multiple of the
    cell size): which of the two adjacent cells is credited is only decided in frames where the position is exact."""
    return any(case["d"][k] == 0 and case["p"][k] % 4 == 0 for k in range(3))
