#!/bin/bash
# Confirm a seeded change produced by a sub-agent:
#   seed_confirm.sh <worktree> <agentdir>/<mN> <outdir>
# - the worktree (scratch, outside /repo and /verif) is moved to /repo's HEAD, built once (baseline)
# - demo must pass on the clean tree and fail with the patch
# - with the patch: everything still compiles, and the set of failing tests equals the baseline's
WT=$1; M=$2; OUT=$3
set -u
mkdir -p "$OUT"
LOG="$OUT/confirm.log"; : > "$LOG"
HEAD=$(git -C /repo rev-parse HEAD)
git -C "$WT" checkout -q -- . ; git -C "$WT" checkout -q --detach "$HEAD" || exit 9
B="$WT/_build"
if [ ! -f "$B/build.ninja" ]; then
  cmake -G Ninja -S "$WT" -B "$B" -DCMAKE_CXX_FLAGS="-Wno-error -Wno-cpp" >> "$LOG" 2>&1
fi
# a git worktree has a .git file: drop the .git/HEAD dependency of the generated build file
sed -i "s| $WT/.git/HEAD||g; s|$WT/.git/HEAD||g" "$B/build.ninja"
build_and_test() {  # $1 = tag
  ninja -C "$B" -j8 -k 0 all buildTests > "$OUT/build_$1.log" 2>&1; echo "build_$1 rc=$?" >> "$LOG"
  (cd "$B" && ctest -j8 --timeout 600 > "$OUT/ctest_$1.log" 2>&1)
  grep -E "^\s*[0-9]+ - " "$OUT/ctest_$1.log" | sed 's/ (.*//' | sort > "$OUT/failed_$1.txt"
  grep -E "tests passed|tests failed" "$OUT/ctest_$1.log" >> "$LOG"
}
if [ ! -f "$WT/_baseline_failed_$HEAD.txt" ]; then
  build_and_test base
  cp "$OUT/failed_base.txt" "$WT/_baseline_failed_$HEAD.txt"
fi
# the previous seed may still be compiled into the libraries: rebuild the clean tree first
ninja -C "$B" -j8 -k 0 all > "$OUT/build_clean.log" 2>&1
bash "$M/run_demo.sh" "$WT" "$B" > "$OUT/demo_clean.log" 2>&1; DC=$?
git -C "$WT" apply "$M/patch.diff" || { echo "patch does not apply" >> "$LOG"; exit 8; }
build_and_test patched
bash "$M/run_demo.sh" "$WT" "$B" > "$OUT/demo_patched.log" 2>&1; DP=$?
COMPILE_FAIL=$(grep -c "^FAILED:" "$OUT/build_patched.log")
git -C "$WT" checkout -q -- .
if diff -q "$OUT/failed_patched.txt" "$WT/_baseline_failed_$HEAD.txt" > /dev/null; then SAME=yes; else SAME=no; fi
echo "RESULT demo_clean=$DC demo_patched=$DP tests_same_as_baseline=$SAME compile_failures=$COMPILE_FAIL" | tee -a "$LOG"
