"""C03 — ray tracing does not depend on the subgrid split; hand-over and copies are consistent.

 (a) tables (binding T): the real TravelDirections tables (output->input map,
     compatibility with all 26 velocity sign patterns) and the neighbour tables
     of real DensitySubGridCreator objects - layouts x periodicities x copy
     level assignments enumerated here, copies included - are dumped and checked
     by TLC against the first-principles definitions of spec/SubgridLayout.tla.
 (b) rays (binding R): Layer A = spec/RayLattice.tla applied to the WHOLE grid
     (periodic boxes: the unfolded lattice, folded back); the real code traces
     the same packet through the chain of subgrids (interact -> neighbour ->
     output_to_input_direction) for several layouts; per-cell deposits,
     absorbed-or-not and end point must agree with the undivided geometry,
     hence with every other layout.
 (c) copies: folding duplicates back adds every contribution once (harness
     mode in the layout dump: distinct deposits per copy, update_original_counters).
"""
import itertools
import json
import math
import os
import random
import re
from concurrent.futures import ThreadPoolExecutor

import c02
import raylib
import vlib

TOL = 1.0e-11


def gen_layout_lines(tier, rng):
    lines = []
    shapes = [(1, 1, 1), (2, 1, 1), (1, 1, 2), (2, 2, 1), (3, 1, 1), (1, 3, 2), (2, 2, 2), (3, 2, 1), (3, 3, 2), (1, 2, 4)]
    pers = list(itertools.product((0, 1), repeat=3))
    n = 60 if tier == "quick" else 600
    while len(lines) < n:
        S = rng.choice(shapes)
        P = rng.choice(pers)
        nsub = S[0] * S[1] * S[2]
        mode = rng.random()
        if mode < 0.2:
            lv = [0] * nsub
        elif mode < 0.5:
            lv = [rng.choice([0, 0, 1, 2]) for _ in range(nsub)]
        else:
            # one refined subgrid (level up to 3) with arbitrary neighbours: includes level differences of 2 and 3
            lv = [0] * nsub
            lv[rng.randrange(nsub)] = rng.choice([1, 2, 3])
            if nsub > 1 and rng.random() < 0.5:
                lv[rng.randrange(nsub)] = rng.choice([1, 2, 3])
        if sum(2 ** l for l in lv) > 40:
            continue
        lines.append("%d %d %d %d %d %d %s" % (S + P + (" ".join(map(str, lv)),)))
    return lines


def gen_rays(tier, rng):
    """Global grids and layouts dividing them; one spec case per (grid, ray), several layouts per case."""
    cases = []
    grids = [((4, 4, 4), [(1, 1, 1), (2, 2, 2), (4, 1, 2), (2, 4, 1)]),
             ((6, 2, 4), [(1, 1, 1), (3, 1, 2), (2, 2, 4), (6, 1, 1)]),
             ((3, 3, 3), [(1, 1, 1), (3, 3, 3), (3, 1, 1), (1, 3, 1)])]
    dirs = [d for d in itertools.product(range(-4, 5), repeat=3) if d != (0, 0, 0)]
    special = [d for d in dirs if len(set(abs(x) for x in d if x)) == 1]
    n = 500 if tier == "quick" else 8000
    while len(cases) < n:
        G, layouts = rng.choice(grids)
        per = rng.choice([(0, 0, 0), (0, 0, 0), (1, 1, 1), (1, 0, 1), (0, 1, 0)])
        d = rng.choice(special if rng.random() < 0.5 else dirs)
        p = []
        for k in range(3):
            if rng.random() < 0.6:
                p.append(4 * rng.randint(0, G[k] - 1) + (0 if rng.random() < 0.7 else 2))   # often on subgrid / cell faces
            else:
                p.append(rng.randint(0, 4 * G[k] - 1))
        if any(p[k] == 0 and d[k] < 0 and not per[k] for k in range(3)):
            continue
        ncell = G[0] * G[1] * G[2]
        periodic = any(per[k] and d[k] != 0 for k in range(3))
        kap = [rng.choice([1, 1, 2] if periodic else [0, 1, 1, 2]) for _ in range(ncell)]
        tau = rng.choice([3, 24, 50, 96, 150] + ([] if periodic else [333, 10 ** 6]))
        frame = rng.choice(["dyadic", "dyadic", "dyadic_aniso", "generic"])
        cs = dict(G=list(G), per=list(per), p=p, d=list(d), kapG=kap, tau2=2 * tau + 1, layouts=layouts, frame=frame)
        if frame == "generic" and raylib.in_face_ray(cs):
            cs["frame"] = "dyadic"
        # Layer A case: the unfolded lattice (R replicas along periodic axes the ray moves along)
        R = [1, 1, 1]
        off = [0, 0, 0]
        for k in range(3):
            if per[k] and d[k] != 0:
                R[k] = 4
                off[k] = 0 if d[k] > 0 else 3
        N = [G[k] * R[k] for k in range(3)]
        kapU = []
        for ix in range(N[0]):
            for iy in range(N[1]):
                for iz in range(N[2]):
                    kapU.append(kap[(ix % G[0]) * G[1] * G[2] + (iy % G[1]) * G[2] + (iz % G[2])])
        cs.update(n=N, kap=kapU, R=R, pU=[p[k] + 4 * G[k] * off[k] for k in range(3)])
        cases.append(cs)
    return cases


def run(c):
    tier = c.tier
    rng = random.Random(c.seed)
    rd = c.rd.path
    vlib.ensure_hooks_build()
    exe = vlib.build_harness("ray_harness")

    # ---- (a) tables -----------------------------------------------------------------------
    lfile = os.path.join(rd, "layouts.txt")
    llines = gen_layout_lines(tier, rng)
    open(lfile, "w").write("\n".join(llines) + "\n")
    tj = os.path.join(rd, "tables.json")
    rc, out = vlib.sh("%s tables %s %s" % (exe, tj, lfile), timeout=900)
    if rc != 0:
        c.violation("layout:crash", "building subgrid layouts with copies failed (rc=%d)" % rc, {"out": out[-800:], "layouts": llines[:5]})
    else:
        cfg = os.path.join(rd, "sl.cfg")
        open(cfg, "w").write("SPECIFICATION Spec\n")
        r = vlib.tlc("SubgridLayout.tla", cfg, rd, workers=1, timeout=3000, tag="sublayout", env={"CASES": tj}, xss="512m")
        if r.rc != 0:
            raise vlib.Inconclusive("SubgridLayout evaluation failed:\n" + r.out[-2500:])
        c.add_model("SubgridLayout (tables)", r, "%d layouts with copies, 27 + 27x26 table entries" % len(llines))
        mt = re.search(r'<<\s*"TABLES",\s*(TRUE|FALSE)\s*>>', r.out)
        mb = re.search(r'<<\s*"BADLAYOUTS",\s*(\{[^}]*\})\s*>>', r.out, re.S)
        if not mt or not mb:
            raise vlib.Inconclusive("SubgridLayout printed no verdict:\n" + r.out[-1500:])
        if mt.group(1) != "TRUE":
            c.violation("handover:tables", "the TravelDirections tables disagree with the sign-triple definitions "
                        "(output->input map or compatibility)", {"tables": json.load(open(tj)).get("o2i")})
        bad = [int(x) for x in re.findall(r"\d+", mb.group(1))]
        for k in bad[:4]:
            c.violation("layout:neighbours:%s" % ("copies" if any(ch != "0" for ch in llines[k - 1].split()[6:]) else "originals"),
                        "neighbour table of layout '%s' (S1 S2 S3 P1 P2 P3 levels...) violates the wiring rules" % llines[k - 1],
                        {"layout": llines[k - 1]})
        for k, l in enumerate(llines):
            c.add_case(("layout", l), nontrivial=True)
        c.cov["traces_validated_against_impl"] += len(llines) - len(bad)
        vlib.log("tables: direction tables %s, %d layouts with copies, %d violate the wiring rules" % (mt.group(1), len(llines), len(bad)))

    # ---- (b) rays through split grids ----------------------------------------------------------
    cases = gen_rays(tier, rng)
    chunks = [cases[i:i + 250] for i in range(0, len(cases), 250)]

    def job(args):
        i, ch = args
        spec_cases = [dict(n=cs["n"], p=cs["pU"], d=cs["d"], kap=cs["kap"], tau2=cs["tau2"]) for cs in ch]
        res, r = raylib.tlc_trace(rd, spec_cases, "c03_%d" % i)
        f = os.path.join(rd, "multi_%d.txt" % i)
        idx = []
        with open(f, "w") as fh:
            for j, cs in enumerate(ch):
                u, a = raylib.FRAMES[cs["frame"]]
                ps = raylib.phys_scale(cs["d"], u)
                crng = random.Random(j * 7919 + i)
                for S in cs["layouts"]:
                    base = "%d %d %d %d %d %d %d %d %d %r %r %r %r %r %r %d %d %d %d %d %d %r 0.5 2.0 4.0e15 400 %s" % (
                        cs["G"][0], cs["G"][1], cs["G"][2], S[0], S[1], S[2], cs["per"][0], cs["per"][1], cs["per"][2],
                        u[0], u[1], u[2], a[0], a[1], a[2], cs["p"][0], cs["p"][1], cs["p"][2], cs["d"][0], cs["d"][1], cs["d"][2],
                        cs["tau2"] / 2., " ".join(repr(k / (2.0 * ps)) for k in cs["kapG"]))
                    fh.write(base + "\n")
                    idx.append((j, S))
                    if j % 2 == 0:
                        # the same packet through duplicated subgrids (seeded copy levels 0..3, seeded choice of the copy it
                        # starts in); the deposits are folded back onto the originals before they are compared
                        nsub = S[0] * S[1] * S[2]
                        while True:
                            lv = [crng.choice([0, 0, 1, 1, 2, 3]) for _ in range(nsub)]
                            if sum(2 ** l for l in lv) <= 48:
                                break
                        fh.write(base + " L %d %s\n" % (crng.randrange(1000), " ".join(map(str, lv))))
                        idx.append((j, tuple(S) + ("copies",)))
        o = os.path.join(rd, "multi_%d.ndjson" % i)
        rc, out = vlib.sh("%s multi %s %s" % (exe, f, o), timeout=1800)
        got = c02.read_partial(o)
        if rc != 0 and len(got) < len(idx):
            j, S = idx[len(got)]
            c.violation("split:crash-or-hang:layout=%dx%dx%d%s" % (tuple(S[:3]) + (":copies" if len(S) == 4 else "",)),
                        "tracing a packet through the chain of subgrids did not finish (harness rc=%d: 124 = time limit, 139 = segmentation "
                        "fault, 134 = abort) for %s, layout %s %s" % (rc, {k: ch[j][k] for k in ("G", "per", "p", "d", "tau2", "frame")}, S, out[-200:]),
                        {"case": {k: ch[j][k] for k in ("G", "per", "p", "d", "kapG", "tau2", "frame")}, "layout": S})
        return ch, res, idx, got, r

    with ThreadPoolExecutor(max_workers=8) as ex:
        results = list(ex.map(job, enumerate(chunks)))
    nchk = 0
    nskip = 0
    nv0 = len(c.violations)
    for ch, res, idx, got, r in results:
        c.add_model("RayLattice evaluation (whole grid)", r, "%d rays" % len(ch))
        for (j, S), g in zip(idx, got):
            nchk += 1
            if any(ch[j]["per"][k] and ch[j]["d"][k] != 0 for k in range(3)) and not res[j]["absorbed"]:
                nskip += 1       # the packet outlives the 4 unfolded replicas: Layer A has no verdict
                continue
            compare_multi(c, ch[j], res[j], S, g)
    nchk -= nskip
    c.cov["periodic_cases_outliving_the_unfolded_lattice"] = nskip
    c.cov["traces_validated_against_impl"] += nchk - (len(c.violations) - nv0)
    c.sample({"case": {k: results[0][0][0][k] for k in ("G", "per", "p", "d", "tau2", "layouts", "frame")},
              "code_1x1x1": {k: results[0][3][0][k] for k in ("out", "end", "hops")}})
    vlib.log("rays: %d packets x layouts traced through chains of real subgrids, %d violations" % (nchk, len(c.violations) - nv0))
    c.cov["rule"] = ("layouts x periodicity x copy levels (incl. level differences of 2 and 3) for the tables; global grids 4x4x4, "
                     "6x2x4, 3x3x3 under 4 layouts each, periodic and open, lattice rays as in C02 (many start on subgrid faces, "
                     "edges, corners and run along diagonals)")
    c.cov["exhaustive"] = False
    c.assumptions += ["periodic boxes: Layer A traces the unfolded lattice of 4 replicas; opacities are >= 1 so that every packet is "
                      "absorbed within them", "same tolerances and decidability rules as C02"]


def compare_multi(c, cs, rs, S, g):
    u, a = raylib.FRAMES[cs["frame"]]
    ps = raylib.phys_scale(cs["d"], u)
    G = cs["G"]
    diag = math.sqrt(sum((4 * cs["n"][k] * u[k]) ** 2 for k in range(3)))
    tol = 4 * TOL * diag
    withcopies = len(S) == 4
    S = tuple(S[:3])
    sig = "layout=%dx%dx%d%s:per=%d%d%d" % (S + (":copies" if withcopies else "",) + tuple(cs["per"]))
    c.add_case(("ray", tuple(cs["p"]), tuple(cs["d"]), S, withcopies, tuple(cs["per"])), nontrivial=S != (1, 1, 1) or withcopies)
    info = {"case": {k: cs[k] for k in ("G", "per", "p", "d", "kapG", "tau2", "frame")}, "layout": S, "spec": rs, "code": g}
    # fold the unfolded deposits back
    N = cs["n"]
    exp = [0.] * (G[0] * G[1] * G[2])
    i = 0
    for ix in range(N[0]):
        for iy in range(N[1]):
            for iz in range(N[2]):
                exp[(ix % G[0]) * G[1] * G[2] + (iy % G[1]) * G[2] + (iz % G[2])] += rs["dep4"][i] / 4. * ps
                i += 1
    if not all(math.isfinite(x) for x in list(g["dep"]) + list(g["end"])):
        return c.violation("split:nonfinite:%s" % sig, "non-finite path length or position (%s, layout %s)" % (info["case"], S), info)
    code_abs = g["out"] == 0
    if code_abs != rs["absorbed"]:
        return c.violation("split:absorbed:%s" % sig, "split grid says %s, undivided geometry says %s (%s, layout %s)" % (
            "absorbed" if code_abs else "left", "absorbed" if rs["absorbed"] else "left", info["case"], S), info)
    for j, (x, y) in enumerate(zip(exp, g["dep"])):
        if abs(x - y) > tol:
            return c.violation("split:deposit:%s" % sig, "cell %d is credited %r, undivided geometry gives %r (%s, layout %s, hops %s)" % (
                j, y, x, info["case"], S, g["hops"]), info)
    for j, (x, y) in enumerate(zip(exp, g.get("heat", []))):
        if abs(x - y) > tol:
            return c.violation("split:heating:%s" % sig, "heating estimator of cell %d credits %r, undivided geometry gives %r (%s, layout %s)" % (
                j, y, x, info["case"], S), info)
    # end point (folded back into the box on periodic axes)
    endl = [rs["end96"][k] / 96. for k in range(3)]
    for k in range(3):
        e = endl[k]
        if cs["per"][k] and cs["d"][k] != 0:
            e = e % (4 * G[k])
        d = abs(g["end"][k] - e)
        if cs["per"][k]:
            d = min(d, abs(d - 4 * G[k]))
        if d * u[k] > tol:
            return c.violation("split:endpoint:%s" % sig, "end point %s, undivided geometry %s (%s, layout %s)" % (g["end"], endl, info["case"], S), info)


def build():
    vlib.build_harness("ray_harness")


def replay(path):
    obj = json.load(open(path))
    print(json.dumps(obj["replay"], indent=1)[:3000])
    return 1
