"""C07 — hydro task graph: every task once, in order, conflict-free, always finishes.

 1. TLC: HydroGraph (Layer B worker loop over the Layer-B task table) satisfies
    the Layer-A properties (AtMostOnce, DepsRespected, MutualExclusion,
    AllOnceAtEnd, PhaseConsistent, FacesOnce) and terminates, for every
    interleaving of small layouts; two consecutive steps for the smallest.
    The static consistency of the table with Layer A (StaticOK) is evaluated
    for every enumerated layout.
 2. Binding E: layouts x periodicities come from spec/Configs_Hydro.tla.
 3. Binding T (tables): the task table the real code builds (hook h.table) is
    compared with the Layer-B table printed by TLC (difference = MODEL-DRIFT)
    and checked against the geometry by Trace_HydroStep (TableMatchesGeometry).
 4. Binding T (events): real hydro steps (1-16 threads, seeded jitter at every
    atomic operation) are validated by TLC against Layer A; a step that does
    not end within the timeout (twice) is a termination violation.
"""
import json
import os
import random
import re
from concurrent.futures import ThreadPoolExecutor

import hydrolib
import vlib

INV = "AtMostOnce MutualExclusion NoSelfOverlap DepsRespected AllOnceAtEnd CleanAtEnd PhaseConsistent FacesOnce"


def mc_cfg(n, per, nt, nsteps, selffix=True, fair=True):
    b = lambda v: "TRUE" if v else "FALSE"
    return ("CONSTANTS NX = %d NY = %d NZ = %d PX = %s PY = %s PZ = %s NT = %d SELFFIX = %s NSteps = %d\n"
            "SPECIFICATION %s\nINVARIANTS %s\n%sCHECK_DEADLOCK FALSE\n" % (
                n[0], n[1], n[2], b(per[0]), b(per[1]), b(per[2]), nt, b(selffix), nsteps,
                "FairSpec" if fair else "Spec", INV, "PROPERTY AllSteps\n" if fair else ""))


def table_cfg(n, per):
    b = lambda v: "TRUE" if v else "FALSE"
    return ("CONSTANTS NX = %d NY = %d NZ = %d PX = %s PY = %s PZ = %s SELFFIX = TRUE\nSPECIFICATION Spec\n" % (
        n[0], n[1], n[2], b(per[0]), b(per[1]), b(per[2])))


def model_table(c, n, per):
    rd = c.rd.path
    tag = "tab_%d%d%d_%d%d%d" % (n + per)
    cfg = os.path.join(rd, tag + ".cfg")
    open(cfg, "w").write(table_cfg(n, per))
    r = vlib.tlc("HydroTable.tla", cfg, rd, workers=1, timeout=600, tag=tag)
    if r.rc != 0:
        raise vlib.Inconclusive("HydroTable failed for %s %s (StaticOK violated or error):\n%s" % (n, per, r.out[-2000:]))
    m = re.search(r'<<"TABLE", "(.*)">>', r.out)
    return {x["t"]: x for x in json.loads(m.group(1).replace('\\"', '"'))}


def step_cfg(rd, n, per):
    """Trace_HydroStep configuration with the layout constants of one configuration."""
    b = lambda v: "TRUE" if v else "FALSE"
    p = os.path.join(rd, "Trace_HydroStep_%d%d%d_%d%d%d.cfg" % (tuple(n) + tuple(per)))
    base = open(os.path.join(vlib.SPEC, "Trace_HydroStep.cfg")).read()
    open(p, "w").write("CONSTANTS NX = %d NY = %d NZ = %d PX = %s PY = %s PZ = %s SELFFIX = TRUE\n" % (
        n[0], n[1], n[2], b(per[0]), b(per[1]), b(per[2])) + base)
    return p


def trace_for_tlc(n, per, runs):
    """runs: list of traces (lists of records) of the same configuration"""
    tab = [r for r in runs[0] if r["e"] == "h.table"]
    out = [{"e": "cfg", "n": list(n), "per": list(per), "ntab": len(tab)}]
    out += [{k: r[k] for k in ("e", "t", "g", "slot", "ty", "partner", "dir")} for r in tab]
    for tr in runs:
        out.append({"e": "reset"})
        for r in tr:
            if r["e"] in ("h.begin", "h.start", "h.stop", "h.end"):
                out.append({k: v for k, v in r.items() if k not in ("q", "th")})
    return out


def run(c):
    tier = c.tier
    rng = random.Random(c.seed)
    rd = c.rd.path
    exe = hydrolib.driver()

    # ---- 1. model checking ------------------------------------------------------
    pers = [(a, b, d) for a in (0, 1) for b in (0, 1) for d in (0, 1)]
    jobs = []
    for per in pers:
        jobs.append(((1, 1, 1), per, 2, 2))
    if tier == "quick":
        jobs += [((1, 1, 1), (1, 1, 1), 3, 1), ((2, 1, 1), (0, 0, 0), 1, 2), ((1, 2, 1), (0, 1, 0), 1, 2)]
    else:
        jobs += [((1, 1, 1), per, 3, 1) for per in pers]
        jobs += [((2, 1, 1), (0, 0, 0), 1, 2), ((1, 2, 1), (0, 1, 0), 1, 2), ((1, 1, 2), (1, 1, 1), 1, 2),
                 ((2, 1, 1), (1, 0, 0), 2, 1), ((1, 1, 2), (0, 0, 0), 2, 1)]

    def mjob(j):
        n, per, nt, nsteps = j
        tag = "hg_%d%d%d_%d%d%d_%d_%d" % (n + per + (nt, nsteps))
        cfg = os.path.join(rd, tag + ".cfg")
        open(cfg, "w").write(mc_cfg(n, per, nt, nsteps))
        big = n != (1, 1, 1) and nt > 1
        r = vlib.tlc_model("MC_HydroGraph.tla", cfg, rd, workers=8 if big else 2, timeout=7000 if big else 1500,
                           must_take=("Pick", "Finish", "Release", "Exit"), tag=tag, xmx="24g" if big else "4g")
        return j, r

    with ThreadPoolExecutor(max_workers=5) as ex:
        for j, r in ex.map(mjob, jobs):
            c.add_model("HydroGraph", r, "layout=%s per=%s threads=%d steps=%d" % j)
    vlib.log("models: %d HydroGraph configurations exhaustively, %d distinct states, all properties + termination hold" % (
        len(jobs), c.cov["states"]))
    # the defect that was repaired (same lock declared twice) is visible to the model
    cfg = os.path.join(rd, "hg_defect.cfg")
    open(cfg, "w").write(mc_cfg((1, 1, 1), (1, 0, 0), 2, 1, selffix=False))
    r = vlib.tlc("MC_HydroGraph.tla", cfg, rd, workers=2, timeout=600, tag="hg_defect")
    if r.violated is None:
        raise vlib.Inconclusive("vacuity: the model with the double-lock defect does not violate termination")
    c.cov["negative_model_test"] = "SELFFIX=FALSE on 1x1x1 periodic-x: %s violated as expected" % r.violated

    # ---- 2. configurations (binding E) --------------------------------------------
    if tier == "quick":
        cfgs = hydrolib.tlc_configs(rd, 3, 8)
        sample = hydrolib.corner_sample(cfgs, rng, 22)
        threads = [1, 2, 4]
        seeds = [c.seed]
    else:
        cfgs = hydrolib.tlc_configs(rd, 3, 27)
        sample = cfgs
        threads = [1, 2, 4, 8, 16]
        seeds = [c.seed, c.seed + 1, c.seed + 2]
    c.cov["configurations_total"] = len(cfgs)
    c.cov["configurations_run"] = len(sample)

    # ---- 3./4. real runs -------------------------------------------------------------
    def real_job(k):
        n, per = sample[k]
        runs, infos = [], []
        hang = None
        for nt in threads:
            for sd in seeds:
                jit = nt > 1
                d = os.path.join(rd, "run_%d_%d_%d" % (k, nt, sd))
                res = hydrolib.run_rhd(exe, d, n, per, threads=nt, steps=2, seed=sd, jitter=jit, timeout=90,
                                       ncell_per_sub=(3, 3, 3))
                if res["rc"] == 124:      # reproduce once before reporting
                    res = hydrolib.run_rhd(exe, d, n, per, threads=nt, steps=2, seed=sd, jitter=jit, timeout=120,
                                           ncell_per_sub=(3, 3, 3))
                    if res["rc"] == 124:
                        hang = (nt, sd, res)
                        break
                if res["rc"] != 0:
                    hang = (nt, sd, res)
                    break
                runs.append(res["trace"])
                infos.append((nt, sd))
                vlib.sh("rm -rf %s" % d)
            if hang:
                break
        return k, runs, infos, hang

    with ThreadPoolExecutor(max_workers=4) as ex:
        results = list(ex.map(real_job, range(len(sample))))

    def validate_job(item):
        k, runs, infos, hang = item
        n, per = sample[k]
        if not runs:
            return k, None, None, None
        recs = trace_for_tlc(n, per, runs)
        p = os.path.join(rd, "hstep_%d.ndjson" % k)
        vlib.write_ndjson(p, recs)
        st, r = vlib.validate_trace("Trace_HydroStep.tla", step_cfg(rd, n, per), p, rd, tag="hstep%d" % k,
                                    timeout=1800, dfs=False)
        # model table
        mt = model_table(c, n, per)
        return k, st, r, mt

    with ThreadPoolExecutor(max_workers=6) as ex:
        vres = {k: (st, r, mt) for k, st, r, mt in ex.map(validate_job, results)}

    ndrift = 0
    for k, runs, infos, hang in results:
        n, per = sample[k]
        key = "layout=%dx%dx%d per=%d%d%d" % (n + per)
        c.add_case(key, nontrivial=n != (1, 1, 1) or any(per))
        if hang:
            nt, sd, res = hang
            kind = "hang" if res["rc"] == 124 else "exit-%d" % res["rc"]
            c.violation("hydro:%s:%s" % (kind, key),
                        "hydro run did not finish normally (%s, reproduced) for %s threads=%d seed=%d" % (kind, key, nt, sd),
                        {"layout": n, "periodic": per, "threads": nt, "seed": sd, "cmd": res["cmd"], "env": res["env"],
                         "last_events": res["trace"][-10:]})
        st, r, mt = vres.get(k, (None, None, None))
        if st is None:
            continue
        if st == "error":
            raise vlib.Inconclusive("TLC error validating hydro steps of %s:\n%s" % (key, r.out[-2000:]))
        if st == "accepted":
            c.cov["traces_validated_against_impl"] += len(runs)
        else:
            m = re.findall(r"/\\ l = (\d+)", r.out)
            keep = c.replay_path("hstep_%s.ndjson" % key.replace(" ", "_").replace("=", ""))
            recs = trace_for_tlc(n, per, runs)
            vlib.write_ndjson(keep, recs)
            pos = int(m[-1]) - 1 if m else None
            c.violation("hydro:%s:%s" % (st, key),
                        "hydro steps of the real code violate Layer A (%s) for %s" % (st, key),
                        {"trace": keep, "layout": n, "periodic": per, "runs": infos,
                         "at_record": recs[pos - 1] if pos and pos <= len(recs) else None,
                         "tlc_last_state": vlib.last_trace_state(r)})
        # tables: real vs Layer B
        tab = {x["t"]: x for x in runs[0] if x["e"] == "h.table"}
        diff = None
        if set(tab) != set(mt):
            diff = "task id sets differ"
        else:
            for t in sorted(tab):
                a, b = tab[t], mt[t]
                if (a["g"], a["slot"], a["locks"], a["children"]) != (b["g"], b["slot"], b["locks"], b["children"]):
                    diff = "task %d: code %s, model %s" % (t, {x: a[x] for x in ("g", "slot", "locks", "children")},
                                                           {x: b[x] for x in ("g", "slot", "locks", "children")})
                    break
        if diff:
            ndrift += 1
            if ndrift <= 3:
                c.model_drift("task table of %s differs from Layer B: %s" % (key, diff))
    c.sample({"configuration": {"layout": sample[len(sample) // 2][0], "periodic": sample[len(sample) // 2][1]},
              "threads": threads, "first_events": [x for x in results[len(sample) // 2][1][0]
                                                    if x["e"] in ("h.begin", "h.start", "h.stop")][:8]
              if results[len(sample) // 2][1] else []})
    vlib.log("real runs: %d configurations x threads %s x %d seeds, %d runs accepted by Layer A, %d tables differ from Layer B" % (
        len(sample), threads, len(seeds), c.cov["traces_validated_against_impl"], ndrift))

    # ---- 5. self-test ------------------------------------------------------------------
    k0 = next(k for k, runs, infos, hang in results if runs and sample[k][0] != (1, 1, 1))
    n, per = sample[k0]
    recs = trace_for_tlc(n, per, results[k0][1][:1])
    # move the start of a slope limiter (slot 7) in front of everything of its step
    tabs = {r["t"]: r for r in recs if r["e"] == "h.table"}
    i0 = next(i for i, r in enumerate(recs) if r["e"] == "h.begin")
    j = next(i for i, r in enumerate(recs) if r["e"] == "h.start" and tabs[r["t"]]["slot"] == 7)
    bad = recs[:i0 + 1] + [recs[j]] + recs[i0 + 1:j] + recs[j + 1:]
    p = os.path.join(rd, "self.ndjson")
    vlib.write_ndjson(p, bad)
    st, r = vlib.validate_trace("Trace_HydroStep.tla", step_cfg(rd, n, per), p, rd, tag="self", dfs=False)
    if st != "violated:DepsRespected":
        raise vlib.Inconclusive("self-test failed: early limiter start gave %s" % st)
    c.cov["selftest"] = "limiter start moved to the front of the step rejected (DepsRespected)"
    c.cov["rule"] = ("configurations from Configs_Hydro (layout x periodicity); non-trivial = more than one subgrid or a "
                     "periodic axis; every configuration run with threads %s and %d jitter seed(s), 2 steps" % (threads, len(seeds)))
    c.cov["exhaustive"] = tier != "quick"
    c.assumptions += ["exhaustive interleavings only for the model-checked layouts; larger layouts are covered by the "
                      "static table check (StaticOK for every enumerated layout), the table comparison and observed runs",
                      "owner assignment of subgrids to threads is g mod NT in the model; stealing may take from any queue"]


def build():
    hydrolib.driver()


def replay(path):
    obj = json.load(open(path))
    rd = vlib.RunDir("C07r")
    if "trace" in obj["replay"]:
        st, r = vlib.validate_trace("Trace_HydroStep.tla", step_cfg(rd.path, obj["replay"]["layout"], obj["replay"]["periodic"]),
                                    obj["replay"]["trace"], rd.path, dfs=False)
        print("trace %s: %s" % (obj["replay"]["trace"], st))
        print(vlib.last_trace_state(r))
        rd.cleanup()
        return 0 if st == "accepted" else 1
    print("re-run: %s with env %s" % (obj["replay"]["cmd"], obj["replay"]["env"]))
    rd.cleanup()
    return 1
