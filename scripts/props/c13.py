"""C13 — same seed => same output; the random stream is RANLUX (ranlxd2).

 1. TLC evaluates spec/Ranlux.tla (written from the definition of ranlxd2): the
    first N delivered words for a set of seeds, plus: all words < 2^48, different
    seeds give different first blocks, seed 0 == seed 1, Draw/Save/Restore
    interleavings.
 2. Binding R: the real RandomGenerator must deliver exactly those words
    (value = word / 2^48).  gsl_rng_ranlxd2 is consulted only to tell a wrong
    code from a wrong specification.
 3. Binding T: seeded histories of the real class (set_seed, draws, save /
    restore through restart files at every stream position) validated by TLC.
 4. Run level: two one-thread runs of the same photoionization problem with the
    same seed must write byte-identical snapshots (records judged by TLC), and
    the one-thread PhotonSched model is deterministic.
"""
import hashlib
import json
import os
import random
import re
import shutil
from concurrent.futures import ThreadPoolExecutor

import c01
import hydrolib
import tlaval
import vlib


def seq_from_tlc(c, seeds, ndraw, tag):
    rd = c.rd.path
    cfg = os.path.join(rd, "rl_%s.cfg" % tag)
    open(cfg, "w").write("CONSTANTS Seeds = {%s} NDraw = %d Depth = 5\nSPECIFICATION Spec\n"
                         "INVARIANTS InUnitInterval RingOK CarryOK\nCHECK_DEADLOCK FALSE\n" % (
                             ",".join(map(str, seeds)), ndraw))
    r = vlib.tlc("MC_Ranlux.tla", cfg, rd, workers=2, timeout=3000, tag="rl_" + tag, xss="1g")
    if r.rc != 0:
        raise vlib.Inconclusive("MC_Ranlux failed (%s):\n%s" % (r.violated, r.out[-2500:]))
    m = re.search(r'<<"SEQ", "(.*)">>', r.out)
    tab = {x["seed"]: x["seq"] for x in json.loads(m.group(1).replace('\\"', '"'))}
    return tab, r


M48 = 1 << 48
NDRAW_STATE = 12      # one refill; the word written last is delivered as the 12th value


def back_steps(ring, c_new, steps, rng, budget):
    """Run the recurrence backwards: a state (12 words oldest first, carry) from which `steps` forward steps lead to
    (ring, c_new).  Input construction only - what the generator must deliver from the state comes from TLC."""
    stack = [(list(ring), c_new, 0)]
    while stack and budget[0] > 0:
        budget[0] -= 1
        r, cn, k = stack.pop()
        if k == steps:
            return r, cn
        wn, wn5 = r[11], r[6]
        cands = []
        for c_old in (0, 1):
            w_old = (wn5 - wn - c_old) % M48
            borrow = 1 if wn5 - w_old - c_old < 0 else 0
            if borrow == cn:
                cands.append(([w_old] + r[:11], c_old, k + 1))
        rng.shuffle(cands)
        stack.extend(cands)
    return None


def boundary_states(c, exe, rd, rng, tier):
    cases = []
    meta = []
    for e in range(12):
        first = (12 - e) % 12              # steps of the leading single-step loop of the code
        want = {1, 2, first, first + 1, first + 6, first + 12, first + 24, 200, 385, 386, 390, 391, 392, 395, 396, 397}
        if tier == "quick":
            want = {first if first else 1, first + 6, first + 12, 392, 397}
        for t in sorted(x for x in want if 1 <= x <= 397):
            for attempt in range(20):
                ring_t = [rng.randrange(M48) for _ in range(11)] + [0]        # the step just taken gave 0 (no borrow)
                if rng.random() < 0.3:
                    ring_t[6] = rng.choice([0, 1, M48 - 1])
                got = back_steps(ring_t, 0, t, rng, [20000])
                if got:
                    break
            else:
                continue
            r0, c0 = got
            cases.append(dict(ring=[[w >> 24, w & 0xffffff] for w in r0], carry=c0, n=NDRAW_STATE))
            meta.append((e, t))
    if not cases:
        raise vlib.Inconclusive("no boundary state could be constructed")
    from concurrent.futures import ThreadPoolExecutor as _TPE
    nchunk = 6
    chunks = [list(range(k, len(cases), nchunk)) for k in range(nchunk) if k < len(cases)]

    def sjob(args):
        k, idxs = args
        fj = os.path.join(rd, "ranlux_states_%d.json" % k)
        json.dump([cases[i] for i in idxs], open(fj, "w"))
        cfg = os.path.join(rd, "rl_states_%d.cfg" % k)
        open(cfg, "w").write("SPECIFICATION Spec\nCHECK_DEADLOCK FALSE\n")
        r = vlib.tlc("Eval_RanluxStates.tla", cfg, rd, workers=1, timeout=3000, tag="rl_states_%d" % k, env={"CASES": fj}, xss="1g")
        m = re.search(r'<<\s*"STATES",\s*"(.*?)"\s*>>', r.out, re.S)
        if r.rc != 0 or not m:
            raise vlib.Inconclusive("Eval_RanluxStates failed:\n" + r.out[-2500:])
        return idxs, json.loads(m.group(1).replace('\\"', '"').replace("\n", "")), r

    spec = [None] * len(cases)
    with _TPE(max_workers=nchunk) as ex:
        for idxs, res, r in ex.map(sjob, enumerate(chunks)):
            c.add_model("Ranlux from boundary states (Eval_RanluxStates)", r, "%d states" % len(idxs))
            for i, x in zip(idxs, res):
                spec[i] = x
    fin = os.path.join(rd, "ranlux_states.txt")
    with open(fin, "w") as fh:
        for (e, t), cs in zip(meta, cases):
            fh.write("%d %d %s\n" % (e, cs["carry"], " ".join("%d %d" % (w[0], w[1]) for w in cs["ring"])))
    tmp = c.rd.sub("rl_states_tmp")
    rc, out = vlib.sh("%s state %d %s %s" % (exe, NDRAW_STATE, fin, tmp), timeout=600)
    got = {}
    for line in out.splitlines():
        if line.startswith("{") and line.endswith("}"):
            d = json.loads(line)
            got[d["i"]] = d["seq"]
    nzero = 0
    for i, ((e, t), cs) in enumerate(zip(meta, cases)):
        sp = spec[i]
        if t not in sp["zeroat"]:
            raise vlib.Inconclusive("boundary state %d: the specification sees no zero result at step %d (%s)" % (i, t, sp["zeroat"]))
        nzero += 1
        c.add_case(("state", e, t), nontrivial=True)
        if i not in got:
            c.violation("ranlux:state:crash-or-hang", "the real RandomGenerator, restored from a block-end state (oldest word at index "
                        "%d, zero result at refill step %d), did not deliver its draws (harness rc=%d)" % (e, t, rc), {"case": cs, "e": e, "t": t})
            break
        want_seq = [list(x) for x in sp["seq"]]
        if got[i] != want_seq:
            k = next(j for j in range(len(want_seq)) if got[i][j] != want_seq[j])
            where = "leading-loop" if t <= (12 - e) % 12 else ("final-loop" if t > 397 - ((397 - (12 - e) % 12) % 12) else "block")
            c.violation("ranlux:state:zero-result:%s" % where,
                        "RandomGenerator restored from a state in which refill step %d (array offset %d) gives exactly 0 deviates from "
                        "ranlxd2 at draw %d: code %s, specification %s (-1 = outside [0,1) or not a 48 bit fraction)" % (
                            t, e, k, got[i][k], want_seq[k]), {"case": cs, "e": e, "t": t, "draw": k, "code": got[i][k:k + 3], "spec": want_seq[k:k + 3]})
        else:
            c.cov["traces_validated_against_impl"] += 1
    c.cov["boundary_states"] = nzero
    vlib.log("binding R on states: %d block-end states with an exactly zero refill result (every array offset, steps in the leading "
             "loop, inside and at the end of the unrolled blocks, in the final loop) compared over the block that follows" % nzero)


def run(c):
    tier = c.tier
    rng = random.Random(c.seed)
    rd = c.rd.path
    vlib.ensure_hooks_build()
    exe = vlib.build_harness("ranlux_harness", extra_link="-lgsl -lgslcblas", link_repo=False)

    # ---- 1./2. sequences --------------------------------------------------------------
    fixed = [0, 1, 2, 42, 2 ** 31 - 1] + [2 ** k for k in range(2, 31)]
    nrand = 40 if tier == "quick" else 600
    seeds = sorted(set(fixed + [rng.randrange(0, 2 ** 31) for _ in range(nrand)]))
    ndraw = 60
    nch = 6 if tier == "quick" else 16
    chunks = [seeds[i::nch] for i in range(nch)]
    long_seeds = [42] if tier == "quick" else [0, 42, 2 ** 31 - 1, rng.randrange(2 ** 30, 2 ** 31)]
    nlong = 1500 if tier == "quick" else 3000

    def job(args):
        i, ss, nd = args
        return ss, nd, seq_from_tlc(c, ss, nd, "%d_%d" % (i, nd))

    jobs = [(i, ch, ndraw) for i, ch in enumerate(chunks)] + [(10 + i, [s], nlong) for i, s in enumerate(long_seeds)]
    with ThreadPoolExecutor(max_workers=8) as ex:
        res = list(ex.map(job, jobs))
    nwords = 0
    for ss, nd, (tab, r) in res:
        c.add_model("Ranlux sequences", r, "%d seeds x %d draws" % (len(ss), nd))
        rc, out = vlib.sh("%s seq %d %s" % (exe, nd, " ".join(map(str, ss))), timeout=600)
        if rc != 0:
            c.violation("ranlux:crash-or-hang", "the real RandomGenerator did not deliver %d draws for seeds %s (harness rc=%d) %s" % (
                nd, ss[:6], rc, out[-200:]), {"seeds": ss, "draws": nd})
            out = "\n".join(l for l in out.splitlines() if l.startswith("{") and l.endswith("}"))
        for line in out.splitlines():
            d = json.loads(line)
            spec = [list(x) for x in tab[d["seed"]]]
            nwords += len(spec)
            c.add_case(("seq", d["seed"], nd), nontrivial=True)
            if d["seq"] != spec:
                k = next(i for i in range(len(spec)) if d["seq"][i] != spec[i])
                if d["gsl"] == 1:
                    raise vlib.Inconclusive("the specification disagrees with both RandomGenerator and gsl_rng_ranlxd2 "
                                            "for seed %d at draw %d: the transcription of ranlxd2 is wrong" % (d["seed"], k))
                cls = "bit30" if d["seed"] >= 2 ** 30 else "low"
                c.violation("ranlux:sequence:seedclass=%s:draw%s" % (cls, "<12" if k < 12 else ">=12"),
                            "RandomGenerator(seed=%d) deviates from ranlxd2 at draw %d: code %s, specification %s" % (
                                d["seed"], k, d["seq"][k], spec[k]),
                            {"seed": d["seed"], "draw": k, "code": d["seq"][k:k + 3], "spec": spec[k:k + 3]})
    c.sample({"binding": "R", "seed": 42, "first_words_hi_lo": [list(x) for x in res[0][2][0][res[0][0][0]][:4]]})
    vlib.log("binding R: %d seeds, %d delivered words compared with the specification" % (len(seeds) + len(long_seeds), nwords))

    # ---- 2b. boundary states: a refill step whose result is exactly zero -------------------
    boundary_states(c, exe, rd, random.Random(c.seed + 13), tier)

    # ---- 3. histories -------------------------------------------------------------------
    nh = 6 if tier == "quick" else 40
    nops = 700 if tier == "quick" else 3000

    def hjob(i):
        p = os.path.join(rd, "hist_%d.ndjson" % i)
        tmp = c.rd.sub("rl_tmp_%d" % i)
        rc, out = vlib.sh("%s hist %d %d %s %s" % (exe, c.seed * 100 + i, nops, p, tmp), timeout=300)
        if rc != 0:
            return i, p, "crash", None
        st, r = vlib.validate_trace("Trace_Ranlux.tla", "Trace_Ranlux.cfg", p, rd, tag="rlh%d" % i, timeout=1800,
                                    dfs=False, xss="1g")
        return i, p, st, r

    with ThreadPoolExecutor(max_workers=6) as ex:
        hres = list(ex.map(hjob, range(nh)))
    firstok = None
    for i, p, st, r in hres:
        recs = vlib.read_ndjson(p) if os.path.exists(p) else []
        c.add_case(("hist", i), nontrivial=any(x["e"] == "restore" for x in recs))
        if st == "accepted":
            c.cov["traces_validated_against_impl"] += 1
            firstok = firstok or p
        elif st == "error":
            raise vlib.Inconclusive("TLC error on RANLUX history:\n" + (r.out[-2000:] if r else "harness crash"))
        else:
            pos = getattr(r, "maxl", None)
            keep = c.replay_path("ranlux_hist_%d.ndjson" % i)
            shutil.copy(p, keep)
            prev = [x["e"] for x in recs[max(0, (pos or 1) - 6):(pos or 1)]]
            c.violation("ranlux:history:%s:after=%s" % (st, "restore" if "restore" in prev else ("seed" if "seed" in prev else "draw")),
                        "history of the real RandomGenerator not allowed by Ranlux (%s) at record %s: %s (preceding events %s)" % (
                            st, pos, recs[pos - 1] if pos and pos <= len(recs) else None, prev),
                        {"trace": keep, "record_index": pos})
    vlib.log("binding T: %d histories of %d operations, %d accepted" % (nh, nops, c.cov["traces_validated_against_impl"]))

    # ---- 4. run-level determinism ------------------------------------------------------
    drv = hydrolib.driver()
    cfgs = [dict(src="D", diffuse=0, n=[2, 2, 2], per=[0, 0, 0], copy=1, nthr=1, np=7775, nsrc=5),   # 4 left-over packets
            dict(src="DC", diffuse=1, n=[1, 1, 4], per=[0, 0, 0], copy=0, nthr=1, np=10000),
            dict(src="D", diffuse=1, n=[2, 1, 2], per=[1, 0, 1], copy=2, nthr=1, np=9999)]
    if tier != "quick":
        cfgs += [dict(src="C", diffuse=1, n=[3, 2, 1], per=[0, 0, 0], copy=1, nthr=1, np=20001),
                 dict(src="DC", diffuse=0, n=[2, 2, 2], per=[1, 1, 1], copy=0, nthr=1, np=5000)]

    def digest_run(k, cf, which, seed=77):
        d = os.path.join(rd, "det_%d_%s" % (k, which))
        shutil.rmtree(d, ignore_errors=True)
        import rhdparams
        n = tuple(cf["n"])
        kw = dict(ncell=tuple(4 * x for x in n), nsub=n, periodic=tuple(bool(x) for x in cf["per"]),
                  nphoton=cf["np"], niter=3, discrete="D" in cf["src"], continuous="C" in cf["src"],
                  diffuse=bool(cf["diffuse"]), copy_level=cf["copy"], seed=seed, nsources=cf.get("nsrc", 1))
        p = rhdparams.ion_param(d, **kw)
        # same output folder name inside both runs (paths may appear in outputs): run in d, compare only snapshots
        snapdir = d
        extra = ""
        if which == "c":
            # the run that counts is the SECOND set-up inside one process (output folder d/second)
            snapdir = os.path.join(d, "second")
            extra = " --params2 %s" % rhdparams.ion_param(snapdir, **kw)
        rc, out = vlib.sh("cd %s && %s --task-based --params %s%s --threads 1 > run.log 2>&1" % (d, drv, p, extra), timeout=300,
                          env={"OMP_NUM_THREADS": "1", "CMI_VERIF_TRACE": os.path.join(d, "tr.ndjson")})
        h = hashlib.sha256()
        names = sorted(f for f in os.listdir(snapdir) if f.startswith("snap_"))
        for f in names:
            h.update(open(os.path.join(snapdir, f), "rb").read())
        ev = [json.dumps({k2: v for k2, v in json.loads(l).items() if k2 != "q"}) for l in open(os.path.join(d, "tr.ndjson"))] \
            if os.path.exists(os.path.join(d, "tr.ndjson")) else []
        h2 = hashlib.sha256("\n".join(ev).encode()).hexdigest()
        fps = [tuple(json.loads(l)["fp"]) for l in open(os.path.join(d, "tr.ndjson"))
               if '"src.d"' in l and '"fp"' in l] if os.path.exists(os.path.join(d, "tr.ndjson")) else []
        shutil.rmtree(d, ignore_errors=True)
        return rc, len(names), h.hexdigest(), h2, fps

    def djob(k):
        a = digest_run(k, cfgs[k], "a")
        b = digest_run(k, cfgs[k], "b")
        cc = digest_run(k, cfgs[k], "c")
        if cc[0] != 0 or cc[1] == 0 or cc[2] != a[2]:
            b = (b[0] if b[0] != 0 else cc[0], cc[1], cc[2] if b[2] == a[2] else b[2], "second set-up in one process", [])
        other = digest_run(k, cfgs[k], "s", seed=78)
        return k, a, b, other

    with ThreadPoolExecutor(max_workers=5) as ex:
        dres = list(ex.map(djob, range(len(cfgs))))
    recs = []
    extra_recs = []
    for k, a, b, other in dres:
        extra_recs.append({"e": "seeds", "differ": 1 if (other[0] == 0 and other[1] > 0 and other[2] != a[2]) else 0, "k": k})
        if a[4]:
            extra_recs.append({"e": "batches", "n": len(a[4]), "distinct": len(set(a[4])), "k": k})
        same = 1 if (a[0] == 0 and b[0] == 0 and a[1] > 0 and a[2] == b[2]) else 0
        if same and a[3] != b[3]:
            c.model_drift("one-thread runs of %s wrote identical snapshots but took different event orders "
                          "(the one-thread scheduler is expected to be deterministic)" % cfgs[k])
        recs.append({"e": "rerun", "same": same})
        c.add_case(("rerun", k), nontrivial=True)
    p = os.path.join(rd, "rerun.ndjson")
    vlib.write_ndjson(p, recs)
    st, r = vlib.validate_trace("Trace_Ranlux.tla", "Trace_Ranlux.cfg", p, rd, tag="rerun", dfs=False, xss="1g")
    if st == "error":
        raise vlib.Inconclusive("TLC error on rerun records:\n" + r.out[-1500:])
    # the seed matters / the consumed stream advances (one record at a time: each gets its own verdict)
    for er in extra_recs:
        p2 = os.path.join(rd, "rerun_extra.ndjson")
        vlib.write_ndjson(p2, [{kk: vv for kk, vv in er.items() if kk != "k"}])
        st2, r2 = vlib.validate_trace("Trace_Ranlux.tla", "Trace_Ranlux.cfg", p2, rd, tag="rerun_extra", dfs=False, xss="1g")
        if st2 == "error":
            raise vlib.Inconclusive("TLC error on run level records:\n" + r2.out[-1500:])
        if st2 == "violated:SeedMatters":
            c.violation("ranlux:seed-ignored:src=%s" % cfgs[er["k"]]["src"], "runs with seeds 77 and 78 of %s wrote identical snapshots: the "
                        "run does not depend on its seed" % cfgs[er["k"]], {"config": cfgs[er["k"]]})
        elif st2 == "violated:StreamAdvances":
            c.violation("ranlux:stream-replayed:src=%s" % cfgs[er["k"]]["src"], "only %d of the %d batches of packets of a run of %s were drawn "
                        "from different random numbers: the generator the run uses does not advance" % (er["distinct"], er["n"], cfgs[er["k"]]),
                        {"config": cfgs[er["k"]], "batches": er})
        elif st2 == "accepted":
            c.cov["traces_validated_against_impl"] += 1
    if st != "accepted":
        for (k, a, b, other), rec in zip(dres, recs):
            if rec["same"] == 0:
                c.violation("ranlux:rerun:diffuse=%d:src=%s" % (cfgs[k]["diffuse"], cfgs[k]["src"]),
                            "two one-thread runs with the same seed differ (snapshots %s vs %s, event traces %s): %s" % (
                                a[2][:12], b[2][:12], "equal" if a[3] == b[3] else "differ", cfgs[k]),
                            {"config": cfgs[k], "run_a": a, "run_b": b})
    else:
        c.cov["traces_validated_against_impl"] += len(recs)
    # model-level reason: one thread => deterministic scheduler model
    cfg = os.path.join(rd, "ps_nt1.cfg")
    open(cfg, "w").write(c01.sched_cfg(1, 3, 2, 4, True, 2).replace("PROPERTY Terminates\n", ""))
    dot = os.path.join(rd, "ps_nt1.dot")
    r = vlib.tlc_model("PhotonSched.tla", cfg, rd, workers=1, timeout=900, coverage=False, dump="dot,actionlabels " + dot)
    nodes, edges, inits = tlaval.parse_dot(dot, parse_states=False)
    # the model leaves the fate of a packet (absorbed / moves on / re-emitted) open: determinism is about the
    # scheduler, so successors that differ only by such a choice are grouped by action label
    out = {}
    for a, b, lab in edges:
        if a != b:
            out.setdefault(a, set()).add(lab.split("(")[0])
    c.cov["one_thread_model_max_enabled_actions"] = max(len(v) for v in out.values()) if out else 0
    c.add_model("PhotonSched NT=1", r, "N=3 CAP=2 NB=4 REEMIT")
    vlib.log("run level: %d configurations run twice in separate processes and once as the second set-up inside one process (one thread): %s" % (len(cfgs), st))

    # ---- 5. self-test ----------------------------------------------------------------------
    if firstok:
        recs = vlib.read_ndjson(firstok)
        i = next(i for i, x in enumerate(recs) if x["e"] == "draw" and i > 30)
        recs[i] = dict(recs[i], lo=(recs[i]["lo"] + 1) % 16777216)
        p = os.path.join(rd, "self.ndjson")
        vlib.write_ndjson(p, recs)
        st, r = vlib.validate_trace("Trace_Ranlux.tla", "Trace_Ranlux.cfg", p, rd, tag="self", dfs=False, xss="1g")
        if st == "accepted":
            raise vlib.Inconclusive("self-test failed: a word changed in the last bit was accepted")
        c.cov["selftest"] = "history with one word changed in its last bit rejected"
    c.cov["rule"] = ("seeds: 0, 1, 2, 42, 2^31-1, all powers of two and %d from VERIF_SEED, %d draws each (+ %d draws for %s); "
                     "histories: random interleavings of draws, set_seed, save, restore" % (nrand, ndraw, nlong, long_seeds))
    c.cov["exhaustive"] = False
    c.assumptions += ["'never zero' is not an invariant of a 48-bit generator (probability 2^-48 per draw); not required, "
                      "delivered zeros would be visible in the evidence",
                      "byte identity of snapshots is checked for the ASCII writer (HDF5 files carry a creation time)"]


def build():
    vlib.build_harness("ranlux_harness", extra_link="-lgsl -lgslcblas", link_repo=False)


def replay(path):
    obj = json.load(open(path))
    if "trace" in obj["replay"]:
        rd = vlib.RunDir("C13r")
        st, r = vlib.validate_trace("Trace_Ranlux.tla", "Trace_Ranlux.cfg", obj["replay"]["trace"], rd.path, dfs=False, xss="1g")
        print("trace %s: %s" % (obj["replay"]["trace"], st))
        rd.cleanup()
        return 0 if st == "accepted" else 1
    print(json.dumps(obj["replay"], indent=1))
    return 1
