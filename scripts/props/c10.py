"""C10 — hydro results do not depend on subgrid layout or number of threads.

 Structural half (TLC): PhaseConsistent / DepsRespected for every interleaving
 of the model-checked layouts (every task combines exactly the values the
 sequential scheme combines), and the one-thread model is deterministic (every
 reachable state has at most one successor) - the model-level reason for the
 bit-for-bit clause.

 Numerical half (binding T/E): the same seeded initial state is advanced under
 layouts that divide the cell grid (from spec/Configs_Hydro.tla), 1-16 threads
 with jitter; the full cell states are compared with the 1x1x1 one-thread
 reference; TLC evaluates LayoutIndependent / OneThreadBitwise on the records.
"""
import json
import os
import random
from concurrent.futures import ThreadPoolExecutor

import c04
import c07
import hydrolib
import tlaval
import vlib

NCELL = (12, 12, 12)


def run(c):
    tier = c.tier
    rng = random.Random(c.seed)
    rd = c.rd.path
    exe = hydrolib.driver()

    # ---- structural half ------------------------------------------------------------
    jobs = [((1, 1, 1), (1, 1, 1), 2, 1), ((1, 1, 1), (0, 1, 0), 2, 1)]
    det = [((2, 1, 1), (1, 0, 0), 1, 2), ((1, 2, 2), (0, 1, 1), 1, 1), ((2, 2, 1), (0, 0, 0), 1, 1)]

    def mjob(j):
        n, per, nt, nsteps = j
        tag = "hg10_%d%d%d_%d%d%d_%d" % (n + per + (nt,))
        cfg = os.path.join(rd, tag + ".cfg")
        open(cfg, "w").write(c07.mc_cfg(n, per, nt, nsteps))
        dot = os.path.join(rd, tag + ".dot") if nt == 1 else None
        r = vlib.tlc_model("MC_HydroGraph.tla", cfg, rd, workers=2, timeout=1500,
                           must_take=("Pick", "Finish", "Release", "Exit"), tag=tag, xmx="4g",
                           dump=("dot,actionlabels " + dot) if dot else None)
        maxout = None
        if dot:
            nodes, edges, inits = tlaval.parse_dot(dot, parse_states=False)
            out = {}
            for a, b, lab in edges:
                if a != b:
                    out.setdefault(a, set()).add(b)
            maxout = max(len(v) for v in out.values()) if out else 0
            os.remove(dot)
        return j, r, maxout

    with ThreadPoolExecutor(max_workers=5) as ex:
        for j, r, maxout in ex.map(mjob, jobs + det):
            c.add_model("HydroGraph (PhaseConsistent)", r, "layout=%s per=%s threads=%d steps=%d" % j)
            if maxout is not None and maxout > 1:
                raise vlib.Inconclusive("one-thread model is not deterministic for %s (out-degree %d)" % (j, maxout))
    c.cov["one_thread_model_deterministic"] = True

    # ---- numerical half ----------------------------------------------------------------
    cfgs = hydrolib.tlc_configs(rd, 4, 64)
    layouts = sorted(set(n for n, per in cfgs if all(NCELL[i] % n[i] == 0 for i in range(3))))
    persets = [(1, 1, 1), (0, 0, 0), (1, 0, 1)] if tier == "quick" else \
        [(a, b, d) for a in (0, 1) for b in (0, 1) for d in (0, 1)]
    shapes = [((1.0, 1.5, 0.8), (0.3, -1.7, 2.9)), ((1.0, 1.0, 1.0), (0., 0., 0.)), ((2.0, 1.0, 1.0), (0., 0., 0.))]
    must = [(2, 2, 2), (1, 1, 4), (4, 3, 2), (3, 1, 1), (1, 2, 1)]
    nlay = 5 if tier == "quick" else 24
    threads_all = [1, 4] if tier == "quick" else [1, 2, 4, 8, 16]
    nfields = 1 if tier == "quick" else 3
    plans = []
    for pi, per in enumerate(persets):
        for fi in range(nfields):
            side, anchor = shapes[(pi + fi) % len(shapes)]
            fseed = rng.randrange(1, 10 ** 6)
            lays = must[:nlay] if tier == "quick" else (must + rng.sample([l for l in layouts if l not in must and l != (1, 1, 1)],
                                                                          nlay - len(must)))
            plans.append(dict(per=per, side=side, anchor=anchor, fseed=fseed, layouts=lays,
                              kind=["contrast", "calm"][fi % 2], gamma=[5. / 3., 1.4, 1.0001][fi % 3]))

    # the global time step is the minimum over ALL cells of all subgrids: cold gas at rest with a single hot cell that is
    # the last cell of a subgrid in the 2x2x2 layout and an interior cell in the others; four steps (the power-of-two time
    # line lets the step grow only from the third step on)
    plans.append(dict(per=(1, 1, 1), side=(1.0, 1.0, 1.0), anchor=(0., 0., 0.), fseed=0, kind="hotspot", gamma=5. / 3., steps=4,
                      layouts=[(2, 2, 2), (1, 1, 4), (3, 1, 1)] if tier == "quick" else must + [(2, 1, 3), (4, 4, 4), (1, 6, 2)]))

    # turbulence forcing on: the forcing added to a cell must not depend on the subgrid the cell lives in (layouts whose
    # subgrids have different cell counts along y and z)
    plans.append(dict(per=(1, 1, 1), side=(1.0, 1.0, 1.0), anchor=(0., 0., 0.), fseed=rng.randrange(1, 10 ** 6), kind="calm", gamma=5. / 3.,
                      steps=3, layouts=[(1, 4, 2), (2, 2, 2), (1, 1, 4)] if tier == "quick" else [(1, 4, 2), (2, 2, 2), (1, 1, 4), (3, 2, 4), (1, 6, 1)],
                      extra="  turbulent forcing: true\n\nTurbulenceForcing:\n  minimum wave number: 1.\n  maximum wave number: 3.\n"
                            "  forcing power: 1.e3 m^2 s^-3\n  time step: 1.e-5 s\n"))

    def field(plan):
        if plan["kind"] != "hotspot":
            return hydrolib.random_blocks(random.Random(plan["fseed"]), plan["side"], plan["anchor"], plan["kind"])
        dx = [plan["side"][i] / NCELL[i] for i in range(3)]
        cx = [plan["anchor"][i] + 0.5 * plan["side"][i] for i in range(3)]
        hot = [plan["anchor"][i] + (5 + 0.5) * dx[i] for i in range(3)]            # cell (5, 5, 5)
        return [dict(origin=cx, sides=list(plan["side"]), n=1.0e6, T=10., v=(0., 0., 0.)),
                dict(origin=hot, sides=[0.9 * d for d in dx], n=1.0e6, T=2.0e4, v=(0., 0., 0.))]

    def one(plan, n, nt, tag, seed):
        d = os.path.join(rd, "c10_%s" % tag)
        res = hydrolib.run_rhd(exe, d, n, plan["per"], threads=nt, steps=plan.get("steps", 2), ncell=NCELL, seed=seed, jitter=nt > 1,
                               timeout=180, state_file=True, side=plan["side"], anchor=plan["anchor"],
                               gamma=plan["gamma"], blocks=field(plan),
                               total_time=1.0e3, wall="reflective", extra=plan.get("extra", ""))
        st = None
        dig = None
        if res["rc"] == 0:
            states = hydrolib.read_states(os.path.join(d, "state.bin"))
            st = [hydrolib.state_by_index(cells, plan["anchor"], plan["side"], NCELL) for k, cells in states]
            dig = [x["digest"] for x in res["trace"] if x["e"] == "h.state"]
        vlib.sh("rm -rf %s" % d)
        return res["rc"], st, dig, res["cmd"]

    def pjob(args):
        pi, plan = args
        out = []
        vol = 1.
        for i in range(3):
            vol *= plan["side"][i] / NCELL[i]
        rc, ref, refdig, cmd = one(plan, (1, 1, 1), 1, "%d_ref" % pi, 1)
        if rc != 0:
            return pi, [("fail", "reference", rc, cmd)]
        rc2, ref2, refdig2, cmd2 = one(plan, (1, 1, 1), 1, "%d_ref2" % pi, 2)
        out.append(("rep", (1, 1, 1), 1 if (rc2 == 0 and refdig2 == refdig) else 0, cmd2))
        for li, n in enumerate(plan["layouts"]):
            for nt in threads_all:
                rc, st, dig, cmd = one(plan, n, nt, "%d_%d_%d" % (pi, li, nt), c.seed + li)
                if rc != 0:
                    out.append(("fail", (n, nt), rc, cmd))
                    continue
                dev = 0
                where = None
                for k in range(1, len(ref)):
                    dv, wh = hydrolib.max_deviation(ref[k], st[k], plan["gamma"], vol)
                    if dv > dev:
                        dev, where = dv, (k, wh)
                out.append(("cmp", (n, nt), dev, where))
            # one-thread repeat of this layout
            rc, st, dig, cmd = one(plan, n, 1, "%d_%d_rep" % (pi, li), 99)
            rc2, st2, dig2, cmd2 = one(plan, n, 1, "%d_%d_rep2" % (pi, li), 100)
            out.append(("rep", n, 1 if (rc == 0 and rc2 == 0 and dig == dig2) else 0, cmd))
        return pi, out

    with ThreadPoolExecutor(max_workers=4) as ex:
        results = list(ex.map(pjob, enumerate(plans)))

    recs = [{"e": "cfg", "cbound": c04.CBOUND, "lbound": c04.LBOUND}]
    index = []
    maxdev = 0
    for pi, out in results:
        plan = plans[pi]
        recs.append({"e": "run", "periodic": 1 if all(plan["per"]) else 0, "walls": 0 if all(plan["per"]) else 1})
        for item in out:
            if item[0] == "fail":
                c.violation("hydrolayout:exit:%s" % (item[1],), "hydro run failed (%s) rc=%s" % (item[1], item[2]),
                            {"plan": plan, "cmd": item[3]})
            elif item[0] == "cmp":
                index.append((len(recs) + 1, dict(plan=dict(plan, layouts=None), layout=item[1][0], threads=item[1][1],
                                                  where=item[3], per=plan["per"])))
                recs.append({"e": "cmp", "dev": item[2]})
                maxdev = max(maxdev, item[2])
                c.add_case(("cmp", pi, item[1]), nontrivial=True)
            else:
                index.append((len(recs) + 1, dict(plan=dict(plan, layouts=None), layout=item[1], threads=1,
                                                  per=plan["per"], repeat=True)))
                recs.append({"e": "rep", "same": item[2]})
                c.add_case(("rep", pi, item[1]), nontrivial=False)
    p0 = os.path.join(rd, "hlayout.ndjson")
    vlib.write_ndjson(p0, recs)
    st, r = vlib.validate_trace("Trace_HydroState.tla", "Trace_HydroState.cfg", p0, rd, tag="hlayout", timeout=1800, dfs=False)
    if st == "error":
        raise vlib.Inconclusive("TLC error on layout comparison records:\n" + r.out[-2000:])
    c04.report_state_violations(c, "C10", recs, index, st, r)
    ncmp = sum(1 for x in recs if x["e"] == "cmp")
    if st == "accepted":
        c.cov["traces_validated_against_impl"] += ncmp
    c.cov["max_deviation_eps_units"] = maxdev
    c.sample({"plan": {k: v for k, v in plans[0].items()}, "records": recs[1:8]})
    vlib.log("numerical half: %d comparisons with the 1x1x1 one-thread reference (largest deviation %d eps-units, bound %d), "
             "%d one-thread repeats: %s" % (ncmp, maxdev, c04.LBOUND, sum(1 for x in recs if x["e"] == "rep"), st))

    bad = [recs[0], {"e": "run", "periodic": 1, "walls": 0}, {"e": "cmp", "dev": 10 ** 7}]
    p1 = os.path.join(rd, "self.ndjson")
    vlib.write_ndjson(p1, bad)
    st2, r2 = vlib.validate_trace("Trace_HydroState.tla", "Trace_HydroState.cfg", p1, rd, tag="self", dfs=False)
    if st2 != "violated:LayoutIndependent":
        raise vlib.Inconclusive("self-test failed: deviation record gave %s" % st2)
    c.cov["selftest"] = "comparison record with 1e7 eps-units rejected (LayoutIndependent)"
    c.cov["rule"] = ("same seeded field on a %s cell grid under layouts dividing it (from Configs_Hydro), threads %s, "
                     "compared cell by cell with the 1x1x1 one-thread run after steps 1 and 2" % (NCELL, threads_all))
    c.cov["exhaustive"] = False
    c.assumptions += ["deviation bound %d eps x cell scale: re-association of the 6 face contributions of 5 sweeps, amplified "
                      "through the limiter and the Riemann solver (observed maximum recorded in the evidence)" % c04.LBOUND]


def build():
    hydrolib.driver()


def replay(path):
    return c04.replay(path)
