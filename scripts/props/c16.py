"""C16 (restricted: Cartesian grid, AMR grid, search structures; Voronoi part not claimed).

 (a) AMR forest as a state machine (spec/AMRTree.tla, MC_AMRTree.tla): every refinement history within the bounds is
     explored by TLC with the Layer A invariants (partition, unique containing leaf, each leaf enumerated once, mutual
     neighbour pointers, injective keys).  Binding R: histories covering every transition of the state graph, plus
     seeded random histories down to depth 8 on block counts with odd factors, are stepped through Eval_AMRTree (TLC
     prints the expected enumeration after every Refine and the located leaves / neighbour pointers / volumes at the
     end) and through the real AMRGrid (harness/grid_harness amr); the two must agree.
 (b) AMRDensityGrid: target trees are built through the real refinement machinery (a refinement scheme that follows
     the target tree), cells / get_cell_index are compared with the tree, rays of spec/RayLattice.tla on the finest
     uniform lattice (periodic: unfolded) are compared with interact().
 (c) CartesianDensityGrid: cell of every lattice point, neighbour lists, iterator enumeration (spec/CartGrid.tla) and
     RayLattice rays incl. periodic wrap on boxes with different sides and odd cell counts.
 (d) Octree / PointLocations: spec/NearestLattice.tla (integer brute force with exact ties) against get_ngbs,
     get_ngbs_sphere, get_closest_ngb (open and periodic) and get_closest_neighbour.
"""
import itertools
import json
import math
import os
import random
import re
from concurrent.futures import ThreadPoolExecutor

import raylib
import tlaval
import vlib

TOL = 1.0e-11
# block side per axis, anchor
FRAMES = {
    "dyadic": ((1., 1., 1.), (0., 0., 0.)),
    "dyadic_aniso": ((0.5, 2., 0.25), (-4., 1., 16.)),
    "generic": ((0.7, 1.3, 0.35), (0.3, -1.7, 2.9)),
}


def read_out(path):
    """ndjson written by the harness; a truncated last line (the harness died) ends the list."""
    out = []
    if os.path.exists(path):
        for line in open(path):
            try:
                out.append(json.loads(line))
            except ValueError:
                break
    return out


def unjson(s):
    return json.loads(s.replace('\\"', '"'))


# ------------------------------------------------------------------------------------------------------------------
# (a) AMR histories
# ------------------------------------------------------------------------------------------------------------------
def node_key(n):
    return (tuple(n[0]), tuple(n[1]))


def children(n):
    return [(n[0], n[1] + (d,)) for d in range(8)]


def random_history(rng, nb, level0, maxdepth, nref, focus):
    """Seeded refinement history: list of nodes (block, path) to refine; returns (hist, leaves)."""
    paths = [()]
    for _ in range(level0):
        paths = [p + (d,) for p in paths for d in range(8)]
    leaves = [((i, j, k), p) for i in range(nb[0]) for j in range(nb[1]) for k in range(nb[2]) for p in paths]
    hist = []
    last = None
    for _ in range(nref):
        cand = [n for n in leaves if len(n[1]) < maxdepth]
        if not cand:
            break
        if last is not None and rng.random() < focus:
            ch = [n for n in children(last) if n in set(cand)]
            n = rng.choice(ch) if ch else rng.choice(cand)
        else:
            n = rng.choice(cand)
        hist.append(n)
        leaves.remove(n)
        leaves += children(n)
        last = n
    return hist, leaves


def node_coords(n):
    x = list(n[0])
    for d in n[1]:
        x = [2 * x[0] + ((d >> 2) & 1), 2 * x[1] + ((d >> 1) & 1), 2 * x[2] + (d & 1)]
    return len(n[1]), x


def amr_points(rng, nb, D, leaves, npts, boundary_ok):
    """Half-lattice query points: random ones, leaf corners (boundary points) and leaf midpoints."""
    pts = []
    M = [nb[k] * 2 ** (D + 1) for k in range(3)]
    for _ in range(npts):
        mode = rng.random()
        if mode < 0.4 or not leaves:
            p = [rng.randrange(M[k]) for k in range(3)]
        else:
            L, x = node_coords(rng.choice(leaves))
            s = 2 ** (D + 1 - L)
            if mode < 0.7:
                p = [x[k] * s + rng.choice([0, 0, s - 1, s // 2]) for k in range(3)]     # corners / faces / centre planes
            else:
                p = [x[k] * s + rng.randrange(s) for k in range(3)]
        if not boundary_ok:
            p = [v | 1 for v in p]            # odd half-lattice coordinates are never on a cell boundary
        pts.append([min(p[k], M[k] - 1) for k in range(3)])
    return pts


def amr_cases_random(tier, rng):
    cases = []
    shapes = [(1, 1, 1), (2, 1, 1), (1, 1, 2), (3, 1, 1), (1, 3, 2), (3, 5, 1), (1, 2, 4), (2, 3, 1), (5, 1, 3), (1, 1, 4)]
    n = 36 if tier == "quick" else 400
    for i in range(n):
        nb = rng.choice(shapes)
        level0 = rng.choice([0, 0, 1]) if nb[0] * nb[1] * nb[2] <= 8 else 0
        deep = rng.random() < 0.4
        maxdepth = 8 if deep else rng.choice([2, 3, 4])
        nref = rng.randint(4, 14) if deep else rng.randint(1, 10)
        hist, leaves = random_history(rng, nb, level0, maxdepth, nref, 0.85 if deep else 0.4)
        D = max(len(l[1]) for l in leaves)
        frame = rng.choice(["dyadic", "dyadic", "dyadic_aniso", "generic"])
        per = rng.choice([(0, 0, 0), (1, 1, 1), (1, 0, 1), (0, 1, 0), (1, 1, 0), (0, 0, 1)])
        pts = amr_points(rng, nb, D, leaves, 40 if tier == "quick" else 80, boundary_ok=frame != "generic")
        cases.append(dict(nb=list(nb), per=list(per), level0=level0, D=D, hist=[[list(h[0]), list(h[1])] for h in hist],
                          pts=pts, frame=frame, origin="random"))
    return cases


def amr_model_cases(c, tier, rd):
    """Model checking of the AMR state machine; returns cases (histories covering every transition of the graphs)."""
    cfgs = [dict(nb=(1, 1, 1), per=(1, 0, 1), depth=2, leaves=22), dict(nb=(2, 1, 1), per=(1, 1, 0), depth=1, leaves=16),
            dict(nb=(1, 2, 1), per=(0, 1, 0), depth=2, leaves=16)]
    if tier != "quick":
        cfgs = [dict(nb=(1, 1, 1), per=(1, 0, 1), depth=2, leaves=36), dict(nb=(2, 1, 1), per=(1, 1, 0), depth=2, leaves=23),
                dict(nb=(1, 2, 1), per=(0, 1, 0), depth=2, leaves=23), dict(nb=(3, 1, 2), per=(0, 0, 1), depth=1, leaves=27),
                dict(nb=(1, 1, 1), per=(0, 0, 0), depth=3, leaves=22)]

    def job(k):
        m = cfgs[k]
        cfg = os.path.join(rd, "amr_%d.cfg" % k)
        tf = lambda b: "TRUE" if b else "FALSE"
        open(cfg, "w").write("CONSTANTS NBx = %d NBy = %d NBz = %d Px = %s Py = %s Pz = %s MaxDepth = %d MaxLeaves = %d\n"
                             "SPECIFICATION Spec\nCONSTRAINT Bound\nINVARIANTS PartitionInv UniqueCellInv KeysInv NgbMutualInv "
                             "EnumOnceInv LocateInv\nCHECK_DEADLOCK FALSE\n" % (
                                 m["nb"] + tuple(tf(x) for x in m["per"]) + (m["depth"], m["leaves"])))
        dot = os.path.join(rd, "amr_%d.dot" % k)
        r = vlib.tlc_model("MC_AMRTree.tla", cfg, rd, workers=4, timeout=3000, dump="dot " + dot, tag="amr_%d" % k,
                           must_take=("Next",))
        return m, r, dot

    with ThreadPoolExecutor(max_workers=3) as ex:
        res = list(ex.map(job, range(len(cfgs))))
    cases = []
    for m, r, dot in res:
        c.add_model("AMRTree %dx%dx%d" % m["nb"], r, "blocks %s periodic %s MaxDepth %d MaxLeaves %d" % (
            m["nb"], m["per"], m["depth"], m["leaves"]))
        nodes, edges, inits = tlaval.parse_dot(dot)
        os.remove(dot)
        paths = tlaval.maximal_cover(nodes, edges, inits)

        def leafset(st):
            out = set()
            for rec in st["leaves"]:
                d = dict(rec) if not isinstance(rec, dict) else rec
                out.add((tuple(d["b"]), tuple(d["path"])))
            return out

        for p in paths:
            hist = []
            for e in p:
                a, b = leafset(nodes[edges[e][0]]), leafset(nodes[edges[e][1]])
                gone = a - b
                if len(gone) != 1:
                    raise vlib.Inconclusive("state graph edge is not a refinement: %s" % (gone,))
                hist.append(next(iter(gone)))
            if not hist:
                continue
            leaves = list(leafset(nodes[edges[p[-1]][1]]))
            D = m["depth"]
            M = [m["nb"][k] * 2 ** (D + 1) for k in range(3)]
            pts = [[x, y, z] for x in range(0, M[0], 1) for y in range(0, M[1], 3) for z in range(0, M[2], 1)][::7][:60]
            cases.append(dict(nb=list(m["nb"]), per=list(m["per"]), level0=0, D=D, hist=[[list(h[0]), list(h[1])] for h in hist],
                              pts=pts, frame="dyadic", origin="graph"))
    return cases


def run_amr(c, tier, rng, rd, exe):
    cases = amr_model_cases(c, tier, rd)
    ngraph = len(cases)
    cases += amr_cases_random(tier, rng)
    chunks = [cases[i:i + 12] for i in range(0, len(cases), 12)]

    def job(args):
        i, ch = args
        f = os.path.join(rd, "amr_cases_%d.json" % i)
        json.dump([{k: cs[k] for k in ("nb", "per", "level0", "D", "hist", "pts")} for cs in ch], open(f, "w"))
        cfg = os.path.join(rd, "eval_amr_%d.cfg" % i)
        open(cfg, "w").write("SPECIFICATION Spec\nINVARIANTS PartitionInv KeysInv\nCHECK_DEADLOCK FALSE\n")
        r = vlib.tlc("Eval_AMRTree.tla", cfg, rd, workers=1, timeout=3000, tag="eval_amr_%d" % i, env={"CASES": f}, xss="512m")
        if r.rc != 0 or r.violated:
            raise vlib.Inconclusive("Eval_AMRTree failed (Layer A invariant on a generated history, or error):\n" + r.out[-2500:])
        enums = {}
        for m in re.finditer(r'<<\s*"ENUM",\s*(\d+),\s*(\d+),\s*"(.*?)"\s*>>', r.out, re.S):
            enums[(int(m.group(1)), int(m.group(2)))] = unjson(m.group(3))
        finals = {}
        for m in re.finditer(r'<<\s*"FINAL",\s*(\d+),\s*"(.*?)"\s*>>', r.out, re.S):
            finals[int(m.group(1))] = unjson(m.group(2))
        txt = os.path.join(rd, "amr_in_%d.txt" % i)
        with open(txt, "w") as fh:
            for cs in ch:
                side, anchor = FRAMES[cs["frame"]]
                fh.write("C %d %d %d %d %d %d %d %d %r %r %r %r %r %r %d %d\n" % (
                    tuple(cs["nb"]) + tuple(cs["per"]) + (cs["level0"], cs["D"]) + side + anchor + (len(cs["hist"]), len(cs["pts"]))))
                for h in cs["hist"]:
                    fh.write("H %d %d %d %d %s\n" % (h[0][0], h[0][1], h[0][2], len(h[1]), " ".join(map(str, h[1]))))
                for p in cs["pts"]:
                    fh.write("P %d %d %d\n" % tuple(p))
        o = os.path.join(rd, "amr_out_%d.ndjson" % i)
        rc, out = vlib.sh("%s amr %s %s" % (exe, txt, o), timeout=900)
        got = read_out(o)
        return ch, enums, finals, got, rc, out, r

    with ThreadPoolExecutor(max_workers=8) as ex:
        results = list(ex.map(job, enumerate(chunks)))
    nsteps = 0
    for ch, enums, finals, got, rc, out, r in results:
        c.add_model("AMRTree histories (Eval_AMRTree)", r, "%d histories" % len(ch))
        for j, cs in enumerate(ch):
            sig = "blocks=%dx%dx%d:per=%d%d%d" % (tuple(cs["nb"]) + tuple(cs["per"]))
            info = {"case": {k: cs[k] for k in ("nb", "per", "level0", "D", "hist", "frame", "origin")}}
            c.add_case(("amr", json.dumps(cs["hist"]), tuple(cs["nb"]), tuple(cs["per"]), cs["frame"]), nontrivial=len(cs["hist"]) > 1)
            if j >= len(got):
                c.violation("amr:crash:%s" % sig, "the real AMRGrid died on history %s (rc=%s %s)" % (cs["hist"][:6], rc, out[-300:]), info)
                break
            g = got[j]
            fin = finals[j + 1]
            bad = None
            for h, st in enumerate(g["steps"]):
                exp = enums[(j + 1, h + 1)]
                nsteps += 1
                if st["enum"] != exp or st["ncell"] != len(exp):
                    bad = ("enumeration", "after refinement %d (%s) the enumeration visits %d keys (number of cells %d), "
                           "Layer A has %d leaves; first difference at position %s" % (
                               h + 1, cs["hist"][h], len(st["enum"]), st["ncell"], len(exp),
                               next((k for k in range(min(len(exp), len(st["enum"]))) if exp[k] != st["enum"][k]), "end")))
                    break
            if bad is None:
                if g["enum"] != fin["enum"] or g["ids"] != fin["ids"]:
                    bad = ("enumeration", "final enumeration / geometry of the leaves differs from Layer A")
                elif g["vol"] != fin["vol"]:
                    bad = ("volume", "cell volumes differ from Layer A")
                elif g["loc"] != fin["loc"]:
                    k = next(k for k in range(len(fin["loc"])) if g["loc"][k] != fin["loc"][k])
                    bad = ("locate", "position %s (half lattice, depth %d) is located in key %s, Layer A: %s" % (
                        cs["pts"][k], cs["D"], g["loc"][k], fin["loc"][k]))
                elif not all(g["contain"]):
                    bad = ("locate", "the geometry of the located cell does not contain the position")
                elif [fin["enum"][v] for v in g["cellval"]] != fin["loc"]:
                    bad = ("locate", "get_cell(position) returns the contents of a different cell than get_key(position)")
                elif g["ngb"] != fin["ngb"]:
                    k = next(k for k in range(len(fin["ngb"])) if g["ngb"][k] != fin["ngb"][k])
                    bad = ("neighbours", "neighbour pointers of leaf %s [L,X,Y,Z]: code %s, Layer A %s" % (
                        fin["ids"][k], g["ngb"][k], fin["ngb"][k]))
                elif not fin["mutual"]:
                    raise vlib.Inconclusive("Layer A neighbour relation not mutual on a generated tree")
            if bad:
                info["code"] = {k: g[k] for k in ("enum", "ncell")}
                c.violation("amr:%s:%s" % (bad[0], sig), "AMRGrid, %s: %s (history %s, frame %s)" % (sig, bad[1], cs["hist"][:8], cs["frame"]), info)
            else:
                c.cov["traces_validated_against_impl"] += 1
    c.sample({"amr_case": {k: cases[-1][k] for k in ("nb", "per", "level0", "D", "hist", "frame")}})
    vlib.log("AMR: %d histories (%d from the state graphs), %d refinement steps compared" % (len(cases), ngraph, nsteps))


# ------------------------------------------------------------------------------------------------------------------
# rays on a (possibly periodic) uniform lattice: Layer A cases on the unfolded lattice
# ------------------------------------------------------------------------------------------------------------------
DIRS = [d for d in itertools.product(range(-4, 5), repeat=3) if d != (0, 0, 0)]
SPECIAL = [d for d in DIRS if len(set(abs(x) for x in d if x)) == 1]


def gen_ray(rng, G, per, allow_inface):
    for _ in range(200):
        d = rng.choice(SPECIAL if rng.random() < 0.4 else DIRS)
        p = []
        for k in range(3):
            if rng.random() < 0.5:
                p.append(4 * rng.randint(0, G[k] - 1) + (0 if rng.random() < 0.6 else 2))
            else:
                p.append(rng.randint(0, 4 * G[k] - 1))
        if any(p[k] == 0 and d[k] < 0 and not per[k] for k in range(3)):
            continue
        if not allow_inface and any(d[k] == 0 and p[k] % 4 == 0 for k in range(3)):
            continue
        return p, list(d)
    raise vlib.Inconclusive("no admissible ray")


def unfold(G, per, p, d, kap):
    R = [1, 1, 1]
    off = [0, 0, 0]
    for k in range(3):
        if per[k] and d[k] != 0:
            R[k] = 4
            off[k] = 0 if d[k] > 0 else 3
    N = [G[k] * R[k] for k in range(3)]
    kapU = []
    for ix in range(N[0]):
        for iy in range(N[1]):
            for iz in range(N[2]):
                kapU.append(kap[(ix % G[0]) * G[1] * G[2] + (iy % G[1]) * G[2] + (iz % G[2])])
    return N, kapU, [p[k] + 4 * G[k] * off[k] for k in range(3)]


def compare_ray(c, kind, sig, cs, ray, rs, g, u, fold, info):
    """rs: Layer A result on the unfolded lattice; g: code result; fold(flat index on the unfolded lattice) -> index of
    the deposit of the code.  Returns True if compared and equal."""
    G, per = cs["G"], cs["per"]
    ps = raylib.phys_scale(ray["d"], u)
    N = ray["n"]
    diag = math.sqrt(sum((4 * N[k] * u[k]) ** 2 for k in range(3)))
    tol = 4 * TOL * diag
    exp = [0.] * len(g["dep"])
    i = 0
    for ix in range(N[0]):
        for iy in range(N[1]):
            for iz in range(N[2]):
                exp[fold(ix % G[0], iy % G[1], iz % G[2])] += rs["dep4"][i] / 4. * ps
                i += 1
    info = dict(info, ray={k: ray[k] for k in ("p", "d", "tau2")}, spec={k: rs[k] for k in ("absorbed", "end96", "t4")}, code=g)
    what = "%s %s, ray p=%s d=%s tau2=%d" % (kind, sig, ray["p"], ray["d"], ray["tau2"])
    if (g["abs"] == 1) != rs["absorbed"]:
        c.violation("%s:absorbed:%s" % (kind, sig), "%s: code says %s, Layer A says %s" % (
            what, "absorbed" if g["abs"] else "escaped", "absorbed" if rs["absorbed"] else "escaped"), info)
        return False
    for j, (x, y) in enumerate(zip(exp, g["dep"])):
        if abs(x - y) > tol:
            c.violation("%s:path:%s" % (kind, sig), "%s: cell %d is credited a path of %r, exact geometry gives %r (sum code %r, exact %r)" % (
                what, j, y, x, sum(g["dep"]), sum(exp)), info)
            return False
    endl = [rs["end96"][k] / 96. for k in range(3)]
    if rs["absorbed"]:
        for k in range(3):
            e = endl[k] % (4 * G[k]) if per[k] and ray["d"][k] != 0 else endl[k]
            dd = abs(g["end"][k] - e)
            if per[k]:
                dd = min(dd, abs(dd - 4 * G[k]))
            if dd * u[k] > tol:
                c.violation("%s:endpoint:%s" % (kind, sig), "%s: absorbed at %s, exact geometry %s" % (what, g["end"], endl), info)
                return False
    return True


# ------------------------------------------------------------------------------------------------------------------
# (c) Cartesian grid
# ------------------------------------------------------------------------------------------------------------------
CFRAMES = {"dyadic": ((0.25, 0.25, 0.25), (0., 0., 0.)), "dyadic_aniso": ((0.5, 0.125, 2.0), (-4., 1., 16.)),
           "generic": ((0.1, 0.3, 0.07), (0.3, -1.7, 2.9))}


def run_cart(c, tier, rng, rd, exe):
    # Layer B: the march with periodic index wrap + position shift (spec/RayMarchPeriodic.tla) refines the closed-form
    # geometry on the unfolded lattice, folded back
    shapes = [((1, 0, 0), (2, 1, 1), "MC_Kaps2", 2)] if tier == "quick" else \
        [((1, 0, 0), (2, 1, 1), "MC_Kaps2", 3), ((1, 0, 1), (2, 2, 1), "MC_Kaps4", 2), ((0, 1, 0), (1, 3, 1), "MC_Kaps3", 2)]

    def mjob(k):
        per, (nx, ny, nz), kaps, dmax = shapes[k]
        cfg = os.path.join(rd, "rmp_%d.cfg" % k)
        tf = lambda b: "TRUE" if b else "FALSE"
        open(cfg, "w").write("CONSTANTS PX = %s PY = %s PZ = %s R = 4 NX = %d NY = %d NZ = %d DMax = %d\nKaps <- %s\nTaus2 <- MC_Taus\n"
                             "SPECIFICATION Spec\nCONSTRAINT StillInside\nINVARIANTS MarchRefinesGeometry PathSum\nCHECK_DEADLOCK FALSE\n" % (
                                 tf(per[0]), tf(per[1]), tf(per[2]), nx, ny, nz, dmax, kaps))
        return shapes[k], vlib.tlc_model("MC_RayMarchPeriodic.tla", cfg, rd, workers=4, timeout=5000, must_take=("Step",), tag="rmp_%d" % k)

    with ThreadPoolExecutor(max_workers=3) as ex:
        for sh, r in ex.map(mjob, range(len(shapes))):
            c.add_model("RayMarchPeriodic refines RayLattice on the unfolded lattice", r,
                        "periodic %s, block %s, directions in -%d..%d" % (sh[0], sh[1], sh[3], sh[3]))
    grids = [(4, 4, 4), (3, 5, 2), (6, 2, 4), (5, 3, 3), (2, 2, 7), (1, 4, 3), (8, 1, 2)]
    pers = list(itertools.product((0, 1), repeat=3))
    ngrid = 24 if tier == "quick" else 160
    nray = 40 if tier == "quick" else 120
    cases = []
    for i in range(ngrid):
        G = rng.choice(grids)
        per = rng.choice(pers)
        frame = rng.choice(["dyadic", "dyadic_aniso", "generic"])
        ncell = G[0] * G[1] * G[2]
        any_per = any(per)
        kap = [rng.choice([1, 1, 2] if any_per else [0, 1, 1, 2]) for _ in range(ncell)]
        allpts = [[x, y, z] for x in range(4 * G[0]) for y in range(4 * G[1]) for z in range(4 * G[2])]
        if frame == "generic":      # positions exactly on cell faces are only exact in dyadic frames
            allpts = [p for p in allpts if all(v % 4 for v in p)]
        pts = rng.sample(allpts, min(len(allpts), 150))
        rays = []
        while len(rays) < nray:
            p, d = gen_ray(rng, G, per, allow_inface=frame != "generic")
            N, kapU, pU = unfold(G, per, p, d, kap)
            if N[0] * N[1] * N[2] > 4100:
                continue
            periodic_ray = any(per[k] and d[k] != 0 for k in range(3))
            tau = rng.choice([3, 24, 50] if periodic_ray else [3, 24, 50, 96, 150, 333, 10 ** 6])
            rays.append(dict(p=p, d=d, tau2=2 * tau + 1, n=N, kap=kapU, pU=pU))
        cases.append(dict(G=list(G), per=list(per), frame=frame, kap=kap, pts=pts, rays=rays))
    # Layer A: locate + neighbours
    f = os.path.join(rd, "cart_cases.json")
    json.dump([dict(n=cs["G"], per=cs["per"], pts=cs["pts"]) for cs in cases], open(f, "w"))
    cfg = os.path.join(rd, "cart.cfg")
    open(cfg, "w").write("SPECIFICATION Spec\n")
    r = vlib.tlc("MC_CartGrid.tla", cfg, rd, workers=1, timeout=3000, tag="cartgrid", env={"CASES": f}, xss="512m")
    m = re.search(r'<<"CART", "(.*)">>', r.out)
    if r.rc != 0 or not m:
        raise vlib.Inconclusive("MC_CartGrid failed:\n" + r.out[-2500:])
    c.add_model("CartGrid (locate, neighbours; UniqueCell and Mutual assumed-checked per grid)", r, "%d grids" % len(cases))
    exp = unjson(m.group(1))

    # Layer A: rays, in chunks
    allrays = [(i, j) for i, cs in enumerate(cases) for j in range(len(cs["rays"]))]
    chunks = [allrays[k:k + 250] for k in range(0, len(allrays), 250)]

    def rjob(args):
        k, ch = args
        res, rr = raylib.tlc_trace(rd, [dict(n=cases[i]["rays"][j]["n"], p=cases[i]["rays"][j]["pU"], d=cases[i]["rays"][j]["d"],
                                             kap=cases[i]["rays"][j]["kap"], tau2=cases[i]["rays"][j]["tau2"]) for i, j in ch], "c16cart_%d" % k)
        return ch, res, rr

    with ThreadPoolExecutor(max_workers=8) as ex:
        rres = list(ex.map(rjob, enumerate(chunks)))
    rayres = {}
    for ch, res, rr in rres:
        c.add_model("RayLattice evaluation (Cartesian grid, unfolded)", rr, "%d rays" % len(ch))
        for (i, j), x in zip(ch, res):
            rayres[(i, j)] = x
    # the real grid
    txt = os.path.join(rd, "cart_in.txt")
    with open(txt, "w") as fh:
        for cs in cases:
            u, a = CFRAMES[cs["frame"]]
            fh.write("K %d %d %d %d %d %d %r %r %r %r %r %r %d %d\n" % (tuple(cs["G"]) + tuple(cs["per"]) + u + a + (len(cs["pts"]), len(cs["rays"]))))
            fh.write("D " + " ".join(map(str, cs["kap"])) + "\n")
            for p in cs["pts"]:
                fh.write("P %d %d %d\n" % tuple(p))
            for ry in cs["rays"]:
                fh.write("R %d %d %d %d %d %d %d\n" % (tuple(ry["p"]) + tuple(ry["d"]) + (ry["tau2"],)))
    o = os.path.join(rd, "cart_out.ndjson")
    rc, out = vlib.sh("%s cart %s %s" % (exe, txt, o), timeout=600 if tier == "quick" else 3000)
    got = read_out(o)
    nray_ok = 0
    nskip = 0
    for i, cs in enumerate(cases):
        G = cs["G"]
        sig = "cells=%dx%dx%d:per=%d%d%d:%s" % (tuple(G) + tuple(cs["per"]) + ("cubic" if len(set(G)) == 1 and cs["frame"] == "dyadic" else "noncubic",))
        info = {"grid": {k: cs[k] for k in ("G", "per", "frame", "kap")}}
        c.add_case(("cart", tuple(G), tuple(cs["per"]), cs["frame"], i), nontrivial=True)
        if i >= len(got):
            ry = cs["rays"]
            c.violation("cart:hang-or-crash:%s" % sig, "CartesianDensityGrid %s: the harness did not finish this grid (rc=%s; a traversal that "
                        "never terminates is killed by the time limit) %s" % (sig, rc, out[-300:]), info)
            break
        g = got[i]
        ncell = G[0] * G[1] * G[2]
        ok = True
        if sorted(g["visit"]) != list(range(ncell)) or g["ncell"] != ncell:
            ok = c.violation("cart:enumeration:%s" % sig, "iterating the grid does not visit every cell exactly once (%d visits, %d cells)" % (
                len(g["visit"]), ncell), info) and False
        elif any(sorted(v) != sorted(g["visit"][b:e]) for b, e, v in g["blocks"]):
            b, e, v = next(x for x in g["blocks"] if sorted(x[2]) != sorted(g["visit"][x[0]:x[1]]))
            ok = c.violation("cart:block-enumeration:%s" % sig, "the block [%d, %d) of the cell range, traversed through the job market "
                             "(DensityGrid::set_densities), touches the cells %s; the enumeration has %s there: not every cell of the "
                             "block exactly once and no other" % (b, e, sorted(v)[:12], sorted(g["visit"][b:e])[:12]), info) and False
        elif abs(g["volsum"] - 1.) > 1e-12:
            ok = c.violation("cart:volume:%s" % sig, "cell volumes sum to %r times the box volume" % g["volsum"], info) and False
        elif g["loc"] != exp[i]["loc"]:
            k = next(k for k in range(len(g["loc"])) if g["loc"][k] != exp[i]["loc"][k])
            ok = c.violation("cart:locate:%s" % sig, "lattice point %s is located in cell %s, Layer A: %s" % (cs["pts"][k], g["loc"][k], exp[i]["loc"][k]), info) and False
        elif g["ngb"] != exp[i]["ngb"]:
            k = next(k for k in range(ncell) if g["ngb"][k] != exp[i]["ngb"][k])
            ok = c.violation("cart:neighbours:%s" % sig, "neighbours [axis, sign, cell, neighbour midpoint (3), face midpoint (3), face area] of cell %d (lattice units relative to the cell midpoint): code %s, Layer A %s" % (k, g["ngb"][k], exp[i]["ngb"][k]), info) and False
        if not ok or not g["complete"]:
            continue
        u, a = CFRAMES[cs["frame"]]
        for j, ry in enumerate(cs["rays"]):
            rs = rayres[(i, j)]
            if not rs["absorbed"] and any(cs["per"][k] and rs["exit"][k] != 0 for k in range(3)):
                nskip += 1
                continue
            gj = g["rays"][j]
            if gj.get("iod", -1.) >= 0. and not rs["absorbed"]:
                # integrate_optical_depth: the total optical depth up to the box boundary = what the escaping packet used
                if abs(gj["iod"] - rs["used2"] / 2.) > 1.0e-9 * max(1., rs["used2"] / 2.):
                    c.violation("cart:integrate_optical_depth:%s" % sig, "integrate_optical_depth gives %r for ray p=%s d=%s, the exact sum of "
                                "opacity x path is %r" % (gj["iod"], ry["p"], ry["d"], rs["used2"] / 2.), dict(info, ray=ry["p"] + ry["d"]))
                    break
            if compare_ray(c, "cart", sig, cs, ry, rs, g["rays"][j], u, lambda x, y, z: x * G[1] * G[2] + y * G[2] + z, info):
                nray_ok += 1
            else:
                break
        c.cov["traces_validated_against_impl"] += 1
    c.cov["cart_rays_compared"] = nray_ok
    c.cov["periodic_rays_outliving_the_unfolded_lattice"] = nskip
    c.sample({"cart_grid": {k: cases[0][k] for k in ("G", "per", "frame")}, "ray": {k: cases[0]["rays"][0][k] for k in ("p", "d", "tau2")}})
    vlib.log("Cartesian: %d grids, %d rays compared with the exact geometry (%d periodic rays outlive the unfolded lattice)" % (len(cases), nray_ok, nskip))


# ------------------------------------------------------------------------------------------------------------------
# (b) AMRDensityGrid
# ------------------------------------------------------------------------------------------------------------------
def run_amrgrid(c, tier, rng, rd, exe):
    # Layer B: the traversal through a refined forest (spec/AMRMarch.tla: nearest wall with the x > y > z tie rule, neighbour
    # pointer, descent to the leaf containing the crossing point) refines the closed-form geometry on the finest lattice
    mcfgs = [dict(nb=(1, 1, 1), D=2, leaves="MC_Leaves1", starts="MC_Starts16", dmax=1)]
    if tier != "quick":
        mcfgs = [dict(nb=(1, 1, 1), D=2, leaves="MC_Leaves1", starts="MC_Starts16", dmax=1),
                 dict(nb=(2, 1, 1), D=1, leaves="MC_Leaves2", starts="MC_Starts8", dmax=2)]

    def mjob(k):
        m = mcfgs[k]
        cfg = os.path.join(rd, "amrmarch_%d.cfg" % k)
        open(cfg, "w").write("CONSTANTS NBX = %d NBY = %d NBZ = %d D = %d DMax = %d\nLeaves <- %s\nKapOf <- MC_Kap\nTaus2 <- MC_Taus\n"
                             "Starts1D <- %s\nSPECIFICATION Spec\nINVARIANTS MarchRefinesGeometry\nPROPERTY Terminates\nCHECK_DEADLOCK FALSE\n" % (
                                 m["nb"] + (m["D"], m["dmax"], m["leaves"], m["starts"])))
        return m, vlib.tlc_model("MC_AMRMarch.tla", cfg, rd, workers=6, timeout=5000, must_take=("Step",), tag="amrmarch_%d" % k)

    with ThreadPoolExecutor(max_workers=2) as ex:
        for m, r in ex.map(mjob, range(len(mcfgs))):
            c.add_model("AMRMarch refines RayLattice over AMRTree (MarchRefinesGeometry, Terminates)", r,
                        "blocks %s depth %d tree %s, start sub-lattice %s, directions in -%d..%d" % (m["nb"], m["D"], m["leaves"], m["starts"], m["dmax"], m["dmax"]))
    shapes = [(1, 1, 1), (1, 2, 1), (3, 1, 1), (1, 1, 3), (1, 3, 2), (3, 1, 2)]
    ngrid = 16 if tier == "quick" else 120
    nray = 30 if tier == "quick" else 80
    cases = []
    while len(cases) < ngrid:
        nb = rng.choice(shapes)
        level0 = rng.choice([0, 1, 1])
        D = rng.choice([2, 2, 3]) if nb == (1, 1, 1) else 2
        if level0 > D:
            continue
        hist, leaves = random_history(rng, nb, level0, D, rng.randint(0, 5), 0.5)
        Dl = max(max(len(l[1]) for l in leaves), 1)
        G = [nb[k] * 2 ** Dl for k in range(3)]
        if G[0] * G[1] * G[2] > 1100:
            continue
        per = rng.choice([(0, 0, 0), (0, 0, 0), (1, 1, 1), (1, 0, 1), (0, 1, 0), (0, 0, 1), (1, 1, 0)])
        if any(per[k] and nb[k] * 2 ** level0 < 2 for k in range(3)):
            continue          # a periodic axis has at least two cells (one cell that is its own neighbour is not claimed)
        if G[0] * G[1] * G[2] * 4 ** sum(per) > 4700:
            continue          # the unfolded lattice of Layer A stays small
        # the first trees of every run have a periodic axis AND a refinement jump (a fine cell next to a coarser one):
        # the wrap-around into / out of a coarser neighbour is the rarest path of the traversal
        jump = len(set(len(l[1]) for l in leaves)) > 1
        if len(cases) < (6 if tier == "quick" else 30) and not (any(per) and jump):
            continue
        frame = rng.choice(["dyadic", "dyadic_aniso", "generic"])
        lv = []
        kapfine = [0] * (G[0] * G[1] * G[2])
        levfine = [0] * (G[0] * G[1] * G[2])
        for l in leaves:
            L, x = node_coords(l)
            kap = rng.choice([1, 1, 2] if any(per) else [0, 1, 1, 2])
            lv.append([L, x[0], x[1], x[2], kap])
            s = 2 ** (Dl - L)
            for ix in range(x[0] * s, (x[0] + 1) * s):
                for iy in range(x[1] * s, (x[1] + 1) * s):
                    for iz in range(x[2] * s, (x[2] + 1) * s):
                        kapfine[ix * G[1] * G[2] + iy * G[2] + iz] = kap
                        levfine[ix * G[1] * G[2] + iy * G[2] + iz] = L
        pts = amr_points(rng, nb, Dl, leaves, 40, boundary_ok=False)
        rays = []
        tries = 0
        while len(rays) < nray and tries < 8000:
            tries += 1
            p, d = gen_ray(rng, G, per, allow_inface=False)
            if any(per) and jump and len(rays) % 2 == 0 and tries < 3000:
                # every second ray of such a tree starts in a cell of the deepest level, runs in the positive direction
                # of a periodic axis and has a component along another axis (it leaves the fine region sideways)
                cell = [min(p[k] // 4, G[k] - 1) for k in range(3)]
                if levfine[cell[0] * G[1] * G[2] + cell[1] * G[2] + cell[2]] != Dl:
                    continue
                if not any(per[k] and d[k] > 0 and any(d[j] != 0 for j in range(3) if j != k) for k in range(3)):
                    continue
            N, kapU, pU = unfold(G, per, p, d, kapfine)
            if N[0] * N[1] * N[2] > 4700:
                continue
            periodic_ray = any(per[k] and d[k] != 0 for k in range(3))
            tau = rng.choice([3, 24, 50] if periodic_ray else [3, 24, 50, 96, 150, 333, 10 ** 6])
            rays.append(dict(p=p, d=d, tau2=2 * tau + 1, n=N, kap=kapU, pU=pU))
        if len(rays) < nray:
            continue
        cases.append(dict(nb=list(nb), per=list(per), level0=level0, D=Dl, G=G, frame=frame, leaves=lv, pts=pts, rays=rays,
                          hist=[[list(h[0]), list(h[1])] for h in hist]))
    # Layer A for locate: Eval_AMRTree with the history
    f = os.path.join(rd, "amrgrid_cases.json")
    json.dump([{k: cs[k] for k in ("nb", "per", "level0", "D", "hist", "pts")} for cs in cases], open(f, "w"))
    cfg = os.path.join(rd, "eval_amrgrid.cfg")
    open(cfg, "w").write("SPECIFICATION Spec\nINVARIANTS PartitionInv KeysInv\nCHECK_DEADLOCK FALSE\n")
    r = vlib.tlc("Eval_AMRTree.tla", cfg, rd, workers=1, timeout=3000, tag="eval_amrgrid", env={"CASES": f}, xss="512m")
    if r.rc != 0 or r.violated:
        raise vlib.Inconclusive("Eval_AMRTree failed on the AMRDensityGrid cases:\n" + r.out[-2500:])
    finals = {int(m.group(1)): unjson(m.group(2)) for m in re.finditer(r'<<\s*"FINAL",\s*(\d+),\s*"(.*?)"\s*>>', r.out, re.S)}
    c.add_model("AMRTree target trees (Eval_AMRTree)", r, "%d trees" % len(cases))
    allrays = [(i, j) for i, cs in enumerate(cases) for j in range(len(cs["rays"]))]
    chunks = [allrays[k:k + 200] for k in range(0, len(allrays), 200)]

    def rjob(args):
        k, ch = args
        res, rr = raylib.tlc_trace(rd, [dict(n=cases[i]["rays"][j]["n"], p=cases[i]["rays"][j]["pU"], d=cases[i]["rays"][j]["d"],
                                             kap=cases[i]["rays"][j]["kap"], tau2=cases[i]["rays"][j]["tau2"]) for i, j in ch], "c16amr_%d" % k)
        return ch, res, rr

    with ThreadPoolExecutor(max_workers=8) as ex:
        rres = list(ex.map(rjob, enumerate(chunks)))
    rayres = {}
    for ch, res, rr in rres:
        c.add_model("RayLattice evaluation (AMR grid, finest lattice, unfolded)", rr, "%d rays" % len(ch))
        for (i, j), x in zip(ch, res):
            rayres[(i, j)] = x
    txt = os.path.join(rd, "amrgrid_in.txt")
    with open(txt, "w") as fh:
        for cs in cases:
            side, anchor = FRAMES[cs["frame"]]
            fh.write("G %d %d %d %d %d %d %d %d %r %r %r %r %r %r %d %d %d\n" % (
                tuple(cs["nb"]) + tuple(cs["per"]) + (cs["level0"], cs["D"]) + side + anchor + (len(cs["leaves"]), len(cs["pts"]), len(cs["rays"]))))
            for l in cs["leaves"]:
                fh.write("L %d %d %d %d %d\n" % tuple(l))
            for p in cs["pts"]:
                fh.write("P %d %d %d\n" % tuple(p))
            for ry in cs["rays"]:
                fh.write("R %d %d %d %d %d %d %d\n" % (tuple(ry["p"]) + tuple(ry["d"]) + (ry["tau2"],)))
    o = os.path.join(rd, "amrgrid_out.ndjson")
    rc, out = vlib.sh("%s amrgrid %s %s" % (exe, txt, o), timeout=600 if tier == "quick" else 3000)
    got = read_out(o)
    nray_ok = nskip = 0
    for i, cs in enumerate(cases):
        sig = "blocks=%dx%dx%d:per=%d%d%d" % (tuple(cs["nb"]) + tuple(cs["per"]))
        info = {"grid": {k: cs[k] for k in ("nb", "per", "level0", "D", "frame", "leaves")}}
        c.add_case(("amrgrid", i, tuple(cs["nb"]), tuple(cs["per"]), cs["frame"]), nontrivial=len(cs["hist"]) > 0)
        if i >= len(got):
            c.violation("amrgrid:hang-or-crash:%s" % sig, "AMRDensityGrid %s: the harness did not finish this grid (rc=%s) %s" % (sig, rc, out[-300:]), info)
            break
        g = got[i]
        fin = finals[i + 1]
        want = sorted(l[:4] for l in cs["leaves"])
        if sorted(g["cells"]) != want or g["ncell"] != len(want):
            c.violation("amrgrid:cells:%s" % sig, "the cells of the AMRDensityGrid are not the leaves of the tree (each exactly once): %d cells, %d leaves" % (
                len(g["cells"]), len(want)), info)
            continue
        badb = next((x for x in g.get("blocks", []) if sorted(x[2]) != sorted(g["cells"][x[0]:x[1]])), None)
        if badb is not None:
            c.violation("amrgrid:block-enumeration:%s" % sig, "the block [%d, %d) of the cell range, traversed through the job market "
                        "(DensityGrid::set_densities), touches %d cells, the enumeration has %d there: not every cell of the block "
                        "exactly once and no other" % (badb[0], badb[1], len(badb[2]), badb[1] - badb[0]), info)
            continue
        if abs(g["volsum"] - 1.) > 1e-12:
            c.violation("amrgrid:volume:%s" % sig, "cell volumes sum to %r times the box volume" % g["volsum"], info)
            continue
        # Layer A located leaves as [L,X,Y,Z]
        key2id = {tuple(k): fin["ids"][n] for n, k in enumerate(fin["enum"])}
        exploc = [key2id[tuple(k)] for k in fin["loc"]]
        if g["loc"] != exploc:
            k = next(k for k in range(len(exploc)) if g["loc"][k] != exploc[k])
            c.violation("amrgrid:locate:%s" % sig, "position %s (half lattice depth %d): get_cell_index gives cell %s, Layer A %s" % (
                cs["pts"][k], cs["D"], g["loc"][k], exploc[k]), info)
            continue
        if not g["complete"]:
            continue
        side, anchor = FRAMES[cs["frame"]]
        fin_n = 2 ** cs["D"]
        u = tuple(side[k] / (4 * fin_n) for k in range(3))
        G = cs["G"]
        leafidx = {}
        for n, l in enumerate(cs["leaves"]):
            L, x = l[0], l[1:4]
            s = 2 ** (cs["D"] - L)
            for ix in range(x[0] * s, (x[0] + 1) * s):
                for iy in range(x[1] * s, (x[1] + 1) * s):
                    for iz in range(x[2] * s, (x[2] + 1) * s):
                        leafidx[(ix, iy, iz)] = n
        okgrid = True
        for j, ry in enumerate(cs["rays"]):
            rs = rayres[(i, j)]
            if not rs["absorbed"] and any(cs["per"][k] and rs["exit"][k] != 0 for k in range(3)):
                nskip += 1
                continue
            if compare_ray(c, "amrgrid", sig, cs, ry, rs, g["rays"][j], u, lambda x, y, z: leafidx[(x, y, z)], info):
                nray_ok += 1
            else:
                okgrid = False
                break
        if okgrid:
            c.cov["traces_validated_against_impl"] += 1
    c.cov["amr_rays_compared"] = nray_ok
    vlib.log("AMRDensityGrid: %d trees built through the refinement machinery, %d rays compared (%d skipped)" % (len(cases), nray_ok, nskip))


# ------------------------------------------------------------------------------------------------------------------
# (d) search structures
# ------------------------------------------------------------------------------------------------------------------
def run_search(c, tier, rng, rd, exe):
    ncase = 40 if tier == "quick" else 160
    cases = []
    for i in range(ncase):
        S = rng.choice([4, 8, 16, 64])
        per = rng.choice([0, 1])
        frame = rng.choice(["dyadic", "dyadic", "generic"])
        mode = rng.random()
        npos = rng.randint(2, 12) if mode < 0.3 else rng.randint(20, 120 if tier == "quick" else 250)
        npos = min(npos, S ** 3 // 2)
        pts = set()
        clustered = rng.random() < 0.35
        tries = 0
        while len(pts) < npos:
            tries += 1
            if clustered and tries < 20 * npos:      # thin sheets / clumps: many empty buckets
                p = (rng.randrange(S), rng.randrange(S), rng.randrange(max(1, S // 8))) if rng.random() < 0.5 else \
                    (rng.randrange(max(1, S // 8)), rng.randrange(S), rng.randrange(S))
            else:
                p = (rng.randrange(S), rng.randrange(S), rng.randrange(S))
            pts.add(p)
        pos = [list(p) for p in pts]
        rng.shuffle(pos)
        h2 = [rng.choice([0, 1, 2, 3, rng.randint(0, S), rng.randint(0, 2 * S)]) for _ in pos]
        qs = []
        for _ in range(30 if tier == "quick" else 60):
            m2 = rng.random()
            if m2 < 0.4:      # close to a face (periodic images matter)
                q = [rng.randrange(2 * S) for _ in range(3)]
                q[rng.randrange(3)] = rng.choice([0, 1, 2 * S - 1, 2 * S - 2])
            elif m2 < 0.6:    # on a point
                q = [2 * v for v in rng.choice(pos)]
            else:
                q = [rng.randrange(2 * S) for _ in range(3)]
            qs.append(q + [rng.choice([0, 1, 2, rng.randint(0, S)])])
        cases.append(dict(S=S, per=per, pos=pos, h2=h2, q=qs, frame=frame, npc=rng.choice([1, 2, 5, 10, 100])))
    # bucket-grid focus (PointLocations): open boxes, 2..5 buckets per axis, uniform / sheet-like / single-clump point sets, one
    # query in EVERY bucket (the shell-by-shell traversal starts from the bucket of the query) plus queries far from all points
    for i in range(16 if tier == "quick" else 60):
        S = rng.choice([8, 16, 32])
        nb1 = rng.choice([2, 2, 2, 3, 3, 4] if tier == "quick" else [2, 2, 3, 3, 4, 5])
        npc = rng.choice([3, 6])
        npos = min(nb1 ** 3 * npc + rng.randint(-npc // 2, npc // 2), S ** 3 // 4)
        kind = rng.choice(["uniform", "sheets", "clump"])
        pts = set()
        tries = 0
        while len(pts) < npos:
            tries += 1
            if kind == "sheets" and tries < 20 * npos:
                p = (rng.randrange(S), rng.randrange(S), rng.randrange(max(1, S // 8))) if rng.random() < 0.5 else \
                    (rng.randrange(S), rng.randrange(max(1, S // 8)), rng.randrange(S))
            elif kind == "clump" and tries < 20 * npos:
                p = tuple(min(S - 1, rng.randrange(max(2, S // 3)) + o) for o in (S // 2, 0, S // 2))
            else:
                p = (rng.randrange(S), rng.randrange(S), rng.randrange(S))
            pts.add(p)
        pos = [list(p) for p in pts]
        rng.shuffle(pos)
        qs = []
        for bx in range(nb1):
            for by in range(nb1):
                for bz in range(nb1):
                    q = [min(2 * S - 1, int((2 * b + 1) * S / nb1) + rng.choice([-1, 0, 0, 1])) for b in (bx, by, bz)]
                    qs.append(q + [0])
        qs = rng.sample(qs, min(len(qs), 64 if tier == "quick" else 125))
        cases.append(dict(S=S, per=0, pos=pos, h2=[1] * len(pos), q=qs, frame=rng.choice(["dyadic", "generic"]), npc=npc))
    txt = os.path.join(rd, "search_in.txt")
    with open(txt, "w") as fh:
        for cs in cases:
            u = 0.25 if cs["frame"] == "dyadic" else 0.1
            a = (0., 0., 0.) if cs["frame"] == "dyadic" else (0.3, -1.7, 2.9)
            fh.write("S %r %r %r %r %d %d %d %d %d\n" % (u, a[0], a[1], a[2], cs["S"], cs["per"], len(cs["pos"]), len(cs["q"]), cs["npc"]))
            for p, h in zip(cs["pos"], cs["h2"]):
                fh.write("X %d %d %d %d\n" % (p[0], p[1], p[2], h))
            for q in cs["q"]:
                fh.write("Q %d %d %d %d\n" % tuple(q))
    o = os.path.join(rd, "search_out.ndjson")
    rc, out = vlib.sh("%s search %s %s" % (exe, txt, o), timeout=600 if tier == "quick" else 3000)
    got = read_out(o)
    for i, cs in enumerate(cases):
        cs["iter"] = got[i].get("iter", []) if i < len(got) else []
    chunks = [cases[k:k + 10] for k in range(0, len(cases), 10)]

    def job(args):
        k, ch = args
        f = os.path.join(rd, "search_%d.json" % k)
        json.dump([{kk: cs[kk] for kk in ("S", "per", "pos", "h2", "q", "iter")} for cs in ch], open(f, "w"))
        cfg = os.path.join(rd, "search_%d.cfg" % k)
        open(cfg, "w").write("SPECIFICATION Spec\n")
        r = vlib.tlc("MC_NearestLattice.tla", cfg, rd, workers=1, timeout=3000, tag="search_%d" % k, env={"CASES": f}, xss="512m")
        m = re.search(r'<<\s*"SEARCH",\s*"(.*?)"\s*>>', r.out, re.S)
        mi = re.search(r'<<\s*"ITER",\s*"(.*?)"\s*>>', r.out, re.S)
        if r.rc != 0 or not m or not mi:
            raise vlib.Inconclusive("MC_NearestLattice failed:\n" + r.out[-2500:])
        return ch, unjson(m.group(1)), r, unjson(mi.group(1))

    with ThreadPoolExecutor(max_workers=8) as ex:
        res = list(ex.map(job, enumerate(chunks)))
    exp = []
    itv = []
    for ch, e, r, iv in res:
        c.add_model("NearestLattice evaluation", r, "%d point sets" % len(ch))
        exp += e
        itv += iv
    nq = 0
    for i, cs in enumerate(cases):
        sig = "per=%d:npos=%s" % (cs["per"], "small" if len(cs["pos"]) <= 12 else "large")
        info = {"case": {k: cs[k] for k in ("S", "per", "pos", "h2", "frame", "npc")}}
        c.add_case(("search", i, cs["S"], cs["per"], len(cs["pos"])), nontrivial=True)
        if i >= len(got):
            c.violation("search:hang-or-crash:%s" % sig, "search structures: harness did not finish point set %d (rc=%s) %s" % (i, rc, out[-300:]), info)
            break
        exact = cs["frame"] == "dyadic"
        okc = True
        for j, q in enumerate(cs["q"]):
            g, e = got[i]["q"][j], exp[i][j]
            nq += 1
            bad = None
            lo, hi = set(e["ngbs"] if exact else e["ngbs_strict"]), set(e["ngbs"])
            if not (lo <= set(g["ngbs"]) <= hi):
                bad = ("octree.get_ngbs", g["ngbs"], sorted(hi))
            lo, hi = set(e["sphere"] if exact else e["sphere_strict"]), set(e["sphere"])
            if not bad and not (lo <= set(g["sphere"]) <= hi):
                bad = ("octree.get_ngbs_sphere", g["sphere"], sorted(hi))
            if not bad and g["closest"] not in e["closest"]:
                bad = ("octree.get_closest_ngb" + (":periodic" if cs["per"] else ""), g["closest"], e["closest"])
            inbox = all(0 <= v < 2 * cs["S"] for v in q[:3])
            if not bad and not cs["per"] and inbox and g["pl"] not in e["closest_open"]:
                bad = ("pointlocations.get_closest_neighbour", g["pl"], e["closest_open"])
            if bad:
                c.violation("search:%s:%s" % (bad[0], sig), "%s for query %s (half lattice; point set of %d, box %d, periodic %d): code %s, brute force %s" % (
                    bad[0], q, len(cs["pos"]), cs["S"], cs["per"], bad[1], bad[2]), dict(info, query=q, code=g, spec=e))
                okc = False
                break
        for k, v in enumerate(itv[i] if i < len(itv) else []):
            if okc and not (v["exhaustive"] and v["complete"]):
                it = cs["iter"][k]
                c.violation("search:pointlocations.ngbiterator:%s" % ("exhaustive" if not v["exhaustive"] else "complete"),
                            "PointLocations neighbour iterator around point %d of a set of %d: %s" % (
                                it["i"], len(cs["pos"]),
                                "does not return every point exactly once (%d returned, %d twice)" % (it["count"], it["dup"])
                                if not v["exhaustive"] else "a point inside the radius it claims to be complete in had not been returned yet"),
                            dict(info, iterator={kk: it[kk] for kk in ("i", "dup", "count", "stages")}))
                okc = False
        if okc:
            c.cov["traces_validated_against_impl"] += 1
    c.cov["search_queries_compared"] = nq
    c.cov["ngbiterator_walks_checked"] = sum(len(x) for x in itv)
    c.sample({"search_case": {k: cases[0][k] for k in ("S", "per", "frame", "npc")}, "npos": len(cases[0]["pos"]), "query": cases[0]["q"][0]})
    vlib.log("search structures: %d point sets, %d queries compared with the integer brute force, %d neighbour iterator walks" % (len(cases), nq, sum(len(x) for x in itv)))


def run(c):
    tier = c.tier
    rng = random.Random(c.seed)
    rd = c.rd.path
    vlib.ensure_hooks_build()
    exe = vlib.build_harness("grid_harness")
    run_amr(c, tier, rng, rd, exe)
    run_cart(c, tier, rng, rd, exe)
    run_amrgrid(c, tier, rng, rd, exe)
    run_search(c, tier, rng, rd, exe)
    c.cov["rule"] = ("AMR: histories covering every transition of the MC_AMRTree graphs + seeded random histories to depth 8 on "
                     "block counts with odd factors, 3 frames, 6 periodicity patterns; Cartesian: 7 grid shapes (odd cell counts, "
                     "unequal sides) x 8 periodicity patterns x 3 frames; AMRDensityGrid: trees to depth 3 through the refinement "
                     "scheme; search: lattice point sets (uniform and clustered), queries near faces and on points")
    c.cov["exhaustive"] = False
    c.assumptions += ["Voronoi grid part of C16 not claimed (needs real geometry, see DESIGN.md)",
                      "rays that run exactly inside a cell face are only compared in dyadic frames for the Cartesian grid and never for the "
                      "AMR grid (which of the two adjacent cells is credited is not fixed by the property)",
                      "periodic boxes: Layer A traces the unfolded lattice of 4 replicas; periodic axes of the AMR grid have at least two cells",
                      "in the generic frame exact ties of the radius searches may go either way (strict and non-strict brute force bound the answer)"]


def build():
    vlib.build_harness("grid_harness")


def replay(path):
    obj = json.load(open(path))
    print(json.dumps(obj["replay"], indent=1)[:4000])
    return 1
