"""C19 — the simulation time line never overshoots and ends exactly on time.

 1. TLC: Layer A (TimeLineA) properties and Layer B (TimeLineB = the code's
    algorithm) refines A, for a grid of (min, max) configurations.
 2. Binding R: the reachable graph of Layer B is dumped; one real-code test per
    transition (BFS path + that transition) is replayed into the real TimeLine.
    A mismatch with B is model drift and is then judged against Layer A.
 3. Binding T: seeded random histories (K = 20, four physical frames,
    save/restore) recorded from the real class and validated against Layer A.
 4. Self-test of the binding (a corrupted record must be rejected).
"""
import json
import os
import random
from concurrent.futures import ThreadPoolExecutor

import tlaval
import vlib


def reqs_for(K):
    N = 2 ** K
    s = {0, 1, 2, 3, 4 * N + 4, 16 * N}
    for j in range(K + 1):
        for d in (-1, 0, 1):
            s.add(4 * 2 ** j + d)
    return sorted(s)


def cfg_text(K, min4, max4, spec, invariants=(), props=(), extra=""):
    # without a configured minimum the real class resolves 2^-63 of the interval:
    # requests below one model unit would leave the model line, so they are
    # only part of the model when a minimum >= one unit is configured
    reqs = [r for r in reqs_for(K) if r >= 4 or min4 >= 4]
    t = "CONSTANTS K = %d MinCfg4 = %d MaxCfg4 = %d\nReqs4 = {%s}\nSPECIFICATION %s\n" % (
        K, min4, max4, ",".join(map(str, reqs)), spec)
    if invariants:
        t += "INVARIANTS " + " ".join(invariants) + "\n"
    if props:
        t += "PROPERTIES " + " ".join(props) + "\n"
    return t + extra


A_INV = ["TypeOK", "NoOvershoot", "MinDividesLeft", "CandidateExists", "StepsSumToTime",
         "EndsExactly", "AliveMeansNotAtEnd"]
A_PROP = ["StrictlyIncreasing", "StepRespectsRequest", "StopOnlyBelowMin"]


def config_grid(K, tier):
    N = 2 ** K
    mins = [0, 4, 6, 8, 16] if tier == "quick" else [0, 4, 5, 6, 8, 12, 16, 4 * N]
    maxs = [0, 4, 20, 4 * N] if tier == "quick" else [0, 3, 4, 8, 20, 32, 2 * N, 4 * N, 16 * N]
    # a maximum below one model unit without a minimum >= one unit makes the real class take steps of a fraction of a
    # unit (it resolves 2^-63 of the interval): such runs leave the model line (same reason as for the requests above)
    return [(m, M) for m in mins for M in maxs if not (0 < M < 4 and m < 4)]


def run(c):
    tier = c.tier
    vlib.ensure_hooks_build()
    exe = vlib.build_harness("timeline_harness")
    rd = c.rd.path
    rng = random.Random(c.seed)
    K = 4 if tier == "quick" else 5
    grid = config_grid(K, tier)

    # ---- 1. model checking -------------------------------------------------
    def model_job(args):
        i, (m, M) = args
        ca = os.path.join(rd, "A_%d.cfg" % i)
        cb = os.path.join(rd, "B_%d.cfg" % i)
        open(ca, "w").write(cfg_text(K, m, M, "Spec", A_INV, A_PROP))
        open(cb, "w").write(cfg_text(K, m, M, "Spec", (), ["RefinesAByWitness", "TakesLargest"]))
        ra = vlib.tlc_model("TimeLineA.tla", ca, rd, workers=2, timeout=900,
                            must_take=("Step", "Save", "Restore") + (("Stop",) if m >= 4 else ()))
        rb = vlib.tlc_model("TimeLineB.tla", cb, rd, workers=2, timeout=900,
                            must_take=("AdvanceB",))
        return (m, M, ra, rb)

    with ThreadPoolExecutor(max_workers=6) as ex:
        results = list(ex.map(model_job, enumerate(grid)))
    for m, M, ra, rb in results:
        c.add_model("TimeLineA", ra, "K=%d min4=%d max4=%d" % (K, m, M))
        c.add_model("TimeLineB refines TimeLineA", rb, "K=%d min4=%d max4=%d" % (K, m, M))
    # the plain refinement statement (TLC enumerates A's quantifiers) on a tiny line
    cb = os.path.join(rd, "B_plain.cfg")
    open(cb, "w").write(cfg_text(3, 6, 20, "Spec", (), ["RefinesA"]))
    rb = vlib.tlc_model("TimeLineB.tla", cb, rd, workers=4, timeout=900, coverage=False)
    c.add_model("TimeLineB => TimeLineA!Spec (plain)", rb, "K=3 min4=6 max4=20")
    vlib.log("models: %d configurations of (min,max), K=%d, all properties hold" % (len(grid), K))

    # ---- 2. binding R: one real-code test per Layer-B transition -----------
    KR = 4 if tier == "quick" else 6
    rgrid = config_grid(KR, tier)
    if tier == "quick":
        rgrid = rng.sample(rgrid, 6) + [(0, 0)]
    frames = [0, 1, 2, 3]
    hist_lines, expected = [], []
    nedges = 0
    for i, (m, M) in enumerate(rgrid):
        cfg = os.path.join(rd, "R_%d.cfg" % i)
        open(cfg, "w").write(cfg_text(KR, m, M, "SpecNoSave"))
        dot = os.path.join(rd, "R_%d.dot" % i)
        r = vlib.tlc_model("TimeLineB.tla", cfg, rd, workers=1, timeout=900, coverage=False,
                           deadlock=False, dump="dot,actionlabels " + dot)
        nodes, edges, inits = tlaval.parse_dot(dot)
        nedges += len(edges)
        paths = tlaval.transition_cover(nodes, edges, inits)
        for p in paths:
            fr = frames[len(hist_lines) % 4]
            ops, exp = [], []
            for e in p:
                st = nodes[edges[e][1]]
                ops.append("a%d" % st["last"]["req4"])
                exp.append((st["last"]["step"], st["t"], 1 if st["alive"] else 0))
            hist_lines.append("%d %d %d %d %s" % (KR, m, M, fr, " ".join(ops)))
            expected.append(exp)
        os.remove(dot)
    # save / restore: all edges of the full Layer-B graph of a tiny line
    cfg = os.path.join(rd, "RS.cfg")
    open(cfg, "w").write(cfg_text(3, 6, 20, "Spec"))
    dot = os.path.join(rd, "RS.dot")
    vlib.tlc_model("TimeLineB.tla", cfg, rd, workers=1, timeout=600, coverage=False,
                   dump="dot,actionlabels " + dot)
    nodes, edges, inits = tlaval.parse_dot(dot)
    for p in tlaval.maximal_cover(nodes, edges, inits):
        ops, exp = [], []
        for e in p:
            st = nodes[edges[e][1]]
            kind = st["last"]["kind"]
            if kind == "save":
                ops.append("s")
                exp.append("S")
            elif kind == "restore":
                ops.append("r")
                exp.append(("R", st["t"]))
            else:
                ops.append("a%d" % st["last"]["req4"])
                exp.append((st["last"]["step"], st["t"], 1 if st["alive"] else 0))
        hist_lines.append("3 6 20 %d %s" % (len(hist_lines) % 4, " ".join(ops)))
        expected.append(exp)
    nedges += len(edges)
    os.remove(dot)

    hin, hout = os.path.join(rd, "replay.in"), os.path.join(rd, "replay.out")
    open(hin, "w").write("\n".join(hist_lines) + "\n")
    rc, out = vlib.sh("%s replay %s %s %s 2>/dev/null" % (exe, hin, hout, rd), timeout=1200)
    if rc != 0:
        c.violation("replay-crash", "TimeLine harness exited with %d while replaying Layer-B paths" % rc,
                    {"cmd": "replay", "rc": rc, "out": out[-2000:]})
        return
    got_lines = open(hout).read().splitlines()
    drift = []
    for idx, (line, exp) in enumerate(zip(got_lines, expected)):
        toks = line.split()
        ok = len(toks) == len(exp)
        if ok:
            for tk, e in zip(toks, exp):
                if e == "S":
                    ok = ok and tk == "S"
                elif e[0] == "R":
                    ok = ok and tk == "R:%d" % e[1]
                else:
                    ok = ok and tk == "%d:%d:%d:1" % e
        nontrivial = len(exp) >= 2
        c.add_case(("R", hist_lines[idx]), nontrivial)
        if not ok:
            drift.append(idx)
    c.sample({"binding": "R", "history": hist_lines[len(hist_lines) // 2],
              "code_says": got_lines[len(hist_lines) // 2]})
    vlib.log("binding R: %d Layer-B transitions, %d replayed paths, %d mismatches" % (
        nedges, len(hist_lines), len(drift)))
    # judge mismatching paths against Layer A (verdict rule 3.3)
    for idx in drift[:20]:
        judge_history_against_A(c, exe, hist_lines[idx], got_lines[idx], expected[idx])

    # ---- 3. binding T: random histories against Layer A --------------------
    KT = 20
    NT = 2 ** KT
    tcfgs = [(0, 0), (4, 0), (4 * 64, 4 * NT // 8), (6 * 1024, 0), (5, 4 * NT), (4 * 4096, 4 * 4096 * 33),
             (4 * NT // 4, 0), (7, 3 * NT)]
    nhist = 12 if tier == "quick" else 150
    jobs = []
    for i, (m, M) in enumerate(tcfgs):
        for fr in ([i % 4] if tier == "quick" else frames):
            jobs.append((len(jobs), m, M, fr, rng.randrange(1, 2 ** 31)))

    def trace_job(j):
        n, m, M, fr, seed = j
        tr = os.path.join(rd, "trace_%d.ndjson" % n)
        tmp = c.rd.sub("tmp_%d" % n)
        rc, out = vlib.sh("%s random %d %d %d %d %d %d %s %s 2>/dev/null" % (
            exe, seed, nhist, KT, m, M, fr, tr, tmp), timeout=600)
        if rc != 0:
            return (j, tr, "crash:%d" % rc, None)
        status, r = vlib.validate_trace("Trace_TimeLine.tla", "Trace_TimeLine.cfg", tr, rd,
                                        tag="T%d" % n, timeout=900)
        return (j, tr, status, r)

    with ThreadPoolExecutor(max_workers=8) as ex:
        tres = list(ex.map(trace_job, jobs))
    first_ok = None
    for j, tr, status, r in tres:
        n, m, M, fr, seed = j
        recs = vlib.read_ndjson(tr) if os.path.exists(tr) else []
        nh = sum(1 for x in recs if x["e"] == "reset")
        if status == "accepted":
            c.cov["traces_validated_against_impl"] += nh
            nrest = sum(1 for x in recs if x["e"] == "restore")
            c.add_case(("T", n), nrest > 0)
            if first_ok is None:
                first_ok = tr
                c.sample({"binding": "T", "config": {"K": KT, "min4": m, "max4": M, "frame": fr},
                          "first_records": recs[:8]})
        elif status == "error":
            raise vlib.Inconclusive("TLC failed while validating %s:\n%s" % (tr, r.out[-2000:]))
        else:
            report_trace(c, tr, status, r, {"K": KT, "min4": m, "max4": M, "frame": fr, "seed": seed})
    vlib.log("binding T: %d traces, %d histories accepted by Layer A" % (
        len(tres), c.cov["traces_validated_against_impl"]))

    # ---- 4. self-test: a corrupted record must be rejected ------------------
    if first_ok:
        recs = vlib.read_ndjson(first_ok)
        k = next(i for i, x in enumerate(recs) if x["e"] == "adv" and x["s"] > 0 and i > 5)
        bad = [dict(x) for x in recs]
        bad[k]["s"] *= 2
        bad[k]["t"] += recs[k]["s"]
        p = os.path.join(rd, "selftest.ndjson")
        vlib.write_ndjson(p, bad)
        status, r = vlib.validate_trace("Trace_TimeLine.tla", "Trace_TimeLine.cfg", p, rd, tag="self")
        if status == "accepted":
            raise vlib.Inconclusive("self-test failed: corrupted trace was accepted")
        c.cov["selftest"] = "corrupted step (doubled) rejected: " + status

    c.cov["rule"] = ("R: one path per transition of the Layer-B graph (non-trivial = at least two "
                     "advances); T: one NDJSON trace per (config, frame) holding many histories "
                     "(non-trivial = contains a save/restore cycle)")
    c.cov["exhaustive"] = True
    c.cov["explanation"] = ("exhaustive: Layer A/B state spaces for K=%d over %d (min,max) configurations; "
                            "every Layer-B transition for K=%d replayed into TimeLine.hpp" % (K, len(grid), KR))
    c.assumptions += [
        "the model line 0..2^K is the image of the real 2^63 line (exact: the configured minimum step keeps "
        "all times multiples of one model unit); requests below one real integer unit (2^-63 of the interval) "
        "are not exercised",
        "'configured minimum' is read as: a request below the largest power-of-two fraction not exceeding the "
        "configured minimum must stop; between that and the configured value either outcome is accepted",
        "calling advance() again after it reported the end of the time line is outside the contract"]


def to_trace(hist_line, got_line):
    toks = hist_line.split()
    K, m, M = int(toks[0]), int(toks[1]), int(toks[2])
    recs = [{"e": "cfg", "K": K, "min4": m, "max4": M}, {"e": "reset"}]
    for op, g in zip(toks[4:], got_line.split()):
        if op[0] == "a":
            s, t, hn, ok = g.split(":")
            recs.append({"e": "adv", "r4": int(op[1:]), "s": int(s), "t": int(t), "hn": int(hn),
                         "ok": int(ok), "rep": 0})
        elif op == "s":
            recs.append({"e": "save"})
        else:
            recs.append({"e": "restore", "t": int(g.split(":")[1])})
    return recs


def judge_history_against_A(c, exe, hist_line, got_line, exp):
    p = os.path.join(c.rd.path, "drift_%d.ndjson" % len(c.drift))
    vlib.write_ndjson(p, to_trace(hist_line, got_line))
    status, r = vlib.validate_trace("Trace_TimeLine.tla", "Trace_TimeLine.cfg", p, c.rd.path,
                                    tag="drift%d" % len(c.drift))
    if status == "accepted":
        c.model_drift("TimeLine deviates from Layer B but satisfies Layer A: %s -> %s" % (hist_line, got_line))
    elif status == "error":
        raise vlib.Inconclusive("TLC error while judging a drifting path:\n" + r.out[-2000:])
    else:
        report_trace(c, p, status, r, {"history": hist_line, "code_says": got_line,
                                       "layerB_expected": exp})


def report_trace(c, trace_path, status, r, info):
    recs = vlib.read_ndjson(trace_path)
    maxl = None
    for line in r.out.splitlines():
        mm = __import__("re").match(r'<<"MAXL", (\d+)>>', line.strip())
        if mm:
            maxl = int(mm.group(1))
    what = "real TimeLine history not allowed by Layer A (%s)" % status
    info = dict(info)
    info["status"] = status
    if maxl:
        info["first_rejected_record"] = recs[maxl - 1] if maxl - 1 < len(recs) else None
        info["index"] = maxl
    info["last_state"] = vlib.last_trace_state(r)
    keep = c.replay_path("trace_%d.ndjson" % (len(c.violations) + 1))
    vlib.write_ndjson(keep, recs)
    info["trace"] = keep
    sig = "timeline:%s:%s" % (status, json.dumps(info.get("first_rejected_record")))
    c.violation(sig, what, info)


def replay(path):
    """Re-validate the trace stored in a replay file."""
    obj = json.load(open(path))
    tr = obj["replay"]["trace"]
    rd = vlib.RunDir("C19r")
    status, r = vlib.validate_trace("Trace_TimeLine.tla", "Trace_TimeLine.cfg", tr, rd.path)
    print("trace %s: %s" % (tr, status))
    print(vlib.last_trace_state(r))
    rd.cleanup()
    return 0 if status == "accepted" else 1
def build():
    import vlib
    vlib.build_harness('timeline_harness')
