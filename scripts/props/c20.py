"""C20 (restricted to parameter trees) — parameter files round-trip.

 Layer A: Parse(Print(d)) = d.  Layer B (spec/YamlDict.tla): the printer with
 its group stack (incl. the pop loop whose bound shrinks while it pops) and the
 parser with its indentation stack.  TLC asserts the round trip of Layer B for
 every enumerated dictionary (exhaustive up to a size, sampled beyond) and
 prints Layer B's text.  Binding R: every dictionary is built in the real
 YAMLDictionary (add_value), printed, the print parsed by the real constructor
 and compared with d (verdict); the printed lines are compared with Layer B's
 (MODEL-DRIFT only).  Used-values clause: typed and unit-bearing reads through
 ParameterFile with defaults, dump of the used values, re-read with different
 defaults: every physical value reproduced to the printed precision.

 Not claimed: consistency of the unit table and the HDF5 snapshot round trip.
"""
import itertools
import json
import os
import random
import re
import shutil
from concurrent.futures import ThreadPoolExecutor

import vlib

NAMES = ["", "a", "b", "ab", "k", "grp x", "B", "a b", "z9"]
VALUES = ["", "1", "[1., 2., 3.]", "true", "1.5 m", "some text value", "-2.e-3 kg m^-3", "[true, false]"]


def key_string(path):
    return ":".join(NAMES[i] for i in path)


def normalise(entries):
    """dict semantics: unique full keys, std::map order (byte-lexicographic on the key string)."""
    d = {}
    for path, val in entries:
        d[key_string(path)] = (list(path), val)
    return [d[k] for k in sorted(d, key=lambda s: s.encode())]


def valid(entries):
    """A key may not also be a group (a parameter file cannot express 'a: 1' together with 'a:b: 2' unambiguously)."""
    keys = [tuple(p) for p, v in entries]
    for k in keys:
        for o in keys:
            if len(o) > len(k) and o[:len(k)] == k:
                return False
    return True


def gen_cases(tier, rng):
    names = [1, 2, 3]
    paths = []
    for depth in range(1, 5):
        for p in itertools.product(names, repeat=depth):
            paths.append(list(p))
    paths = [p for p in paths if len(p) <= 2 or p[0] != 3]        # 3 + 9 + 18 + 54 = 84 paths
    small = [p for p in paths if len(p) <= 3 and all(x in (1, 2) for x in p)]   # 2 + 4 + 8 = 14 paths
    cases = []
    # exhaustive: all dictionaries with <= 3 entries over the 14 small paths, values fixed by position
    for n in ((1, 2, 3, 4) if tier == "quick" else (1, 2, 3, 4, 5)):
        for combo in itertools.combinations(small, n):
            e = [(list(p), 1 + (i % 3)) for i, p in enumerate(combo)]
            if valid(e):
                cases.append(normalise(e))
    nexh = len(cases)
    # sampled larger ones: up to 8 entries, depth up to 6, more names, nesting jumps of two and more levels
    big_names = [1, 2, 3, 4, 5, 6, 7, 8]
    nrand = 1500 if tier == "quick" else 40000
    while len(cases) < nexh + nrand:
        n = rng.randint(2, 8)
        e = []
        for _ in range(n):
            depth = rng.choice([1, 2, 2, 3, 3, 4, 5, 6])
            if e and rng.random() < 0.6:
                # share a prefix with an earlier entry, then jump
                base = list(rng.choice(e)[0])
                cut = rng.randint(0, len(base) - 1)
                path = base[:cut] + [rng.choice(big_names) for _ in range(max(1, depth - cut))]
            else:
                path = [rng.choice(big_names) for _ in range(depth)]
            e.append((path, rng.randint(1, len(VALUES) - 1)))
        if valid(e):
            cases.append(normalise(e))
    return cases, nexh


def run(c):
    tier = c.tier
    rng = random.Random(c.seed)
    rd = c.rd.path
    vlib.ensure_hooks_build()
    exe = vlib.build_harness("yaml_harness")
    cases, nexh = gen_cases(tier, rng)

    # ---- TLC: Layer B round trip + Layer B text ----------------------------------------
    chunks = [cases[i:i + 800] for i in range(0, len(cases), 800)]

    def tjob(args):
        i, ch = args
        f = os.path.join(rd, "ycases_%d.json" % i)
        json.dump(ch, open(f, "w"))
        cfg = os.path.join(rd, "yd_%d.cfg" % i)
        open(cfg, "w").write("SPECIFICATION Spec\n")
        r = vlib.tlc("MC_YamlDict.tla", cfg, rd, workers=1, timeout=3000, tag="yd_%d" % i, env={"CASES": f}, xss="512m")
        if r.rc != 0:
            raise vlib.Inconclusive("MC_YamlDict failed (Layer B does not round trip, or error):\n" + r.out[-2500:])
        m = re.search(r'<<"LINES", "(.*)">>', r.out)
        return json.loads(m.group(1).replace('\\"', '"')), r

    with ThreadPoolExecutor(max_workers=8) as ex:
        tres = list(ex.map(tjob, enumerate(chunks)))
    model_lines = []
    for lines, r in tres:
        model_lines += lines
        c.add_model("YamlDict (Layer B round trip)", r, "%d dictionaries" % len(lines))

    # ---- real code -------------------------------------------------------------------------
    cf = os.path.join(rd, "ycases.txt")
    with open(cf, "w") as f:
        for e in cases:
            f.write("%d %s\n" % (len(e), " ".join("%d %s %d" % (len(p), " ".join(map(str, p)), v) for p, v in e)))
    out = os.path.join(rd, "yout.ndjson")
    rc, o = vlib.sh("%s trees %s %s" % (exe, cf, out), timeout=3000)
    if rc != 0:
        c.violation("yaml:trees:crash-or-hang", "building / printing / re-parsing the dictionaries with the real YAMLDictionary did not finish "
                    "(harness rc=%d) %s" % (rc, o[-300:]), {"out": o[-800:]})
    got = {}
    for line in open(out):
        try:
            d = json.loads(line)
            got[d["i"]] = d
        except ValueError:
            pass
    ndrift = 0
    for i, e in enumerate(cases):
        depth = max(len(p) for p, v in e)
        c.add_case(json.dumps(e), nontrivial=depth >= 2 and len(e) >= 2)
        g = got.get(i)
        expect = {key_string(p): VALUES[v] for p, v in e}
        shape = "depth%d" % min(depth, 4)
        if g is None or "died" in g:
            c.violation("yaml:parse-abort:%s" % shape,
                        "the parser aborted on the text the printer produced for %s" % expect,
                        {"dictionary": expect, "printed": (g or {}).get("lines")})
            continue
        if g["parsed"] != expect:
            missing = sorted(set(expect) - set(g["parsed"]))
            extra = sorted(set(g["parsed"]) - set(expect))
            c.violation("yaml:roundtrip:%s" % shape,
                        "Parse(Print(d)) != d: missing %s, unexpected %s" % (missing[:3], extra[:3]),
                        {"dictionary": expect, "printed": g["lines"], "parsed": g["parsed"]})
            continue
        if g.get("restored") != expect or g.get("used_same") != 1:
            c.violation("yaml:restart-roundtrip:%s" % shape,
                        "the restart dump of the dictionary (write_restart_file -> restart constructor) does not give back the tree / "
                        "the record of used values: restored %s, used values identical: %s" % (
                            str(g.get("restored"))[:200], g.get("used_same")),
                        {"dictionary": expect, "restored": g.get("restored"), "used_same": g.get("used_same")})
            continue
        c.cov["traces_validated_against_impl"] += 1
        ml = [[2 * l["ind"], NAMES[l["name"]], VALUES[l["val"]]] for l in model_lines[i]]
        if ml != g["lines"]:
            ndrift += 1
            if ndrift <= 3:
                c.model_drift("printed text differs from Layer B for %s: code %s, model %s" % (expect, g["lines"], ml))
    c.sample({"dictionary": {key_string(p): VALUES[v] for p, v in cases[nexh + 1]}, "printed": got.get(nexh + 1, {}).get("lines")})
    vlib.log("trees: %d dictionaries (%d exhaustive small ones), %d round trips in the real code, %d texts differ from Layer B" % (
        len(cases), nexh, c.cov["traces_validated_against_impl"], ndrift))

    # ---- used values --------------------------------------------------------------------------
    uo = os.path.join(rd, "used.ndjson")
    tmp = c.rd.sub("ytmp")
    rc, o = vlib.sh("%s used %d %d %s %s 2>/dev/null" % (exe, c.seed, 10 if tier == "quick" else 60, uo, tmp), timeout=600)
    if rc != 0:
        c.violation("yaml:used-values:abort", "reading back the dump of used values failed (rc=%d)" % rc, {"out": o[-800:]})
    else:
        seen = set()
        for r in vlib.read_ndjson(uo):
            c.add_case(("used", r["group"]), nontrivial=True)
            if r["same"] != 1 and r["index"] not in seen:
                seen.add(r["index"])
                c.violation("yaml:used-values:index=%d" % r["index"],
                            "the dump of used values does not reproduce parameter number %d of the battery (group %s): %r != %r" % (
                                r["index"], r["group"], r["a"], r["b"]), r)
            elif r["same"] == 1:
                c.cov["traces_validated_against_impl"] += 1
            # strings (mandatory and defaulted) and 64 bit integers through the same round trip
            if r.get("ssame", 1) != 1 and ("s", r["sindex"]) not in seen:
                seen.add(("s", r["sindex"]))
                c.violation("yaml:used-values:string=%d" % r["sindex"],
                            "the dump of used values does not reproduce string / 64 bit integer parameter %d of the battery (group %s): %r != %r" % (
                                r["sindex"], r["group"], r["sa"], r["sb"]), r)
            if (r.get("bigdigits", "123456789012") != "123456789012" or r.get("bignum", "100000000000") != "100000000000") \
                    and "digits" not in seen:
                seen.add("digits")
                c.violation("yaml:integer-digits", "the integers given as 123456789012 and 1e11 are read as %s and %s" % (
                    r.get("bigdigits"), r.get("bignum")), r)

    # ---- unit relations (spec/UnitLaws.tla) ---------------------------------------------------------
    cfg = os.path.join(rd, "units.cfg")
    open(cfg, "w").write("SPECIFICATION Spec\n")
    r0 = vlib.tlc("UnitLaws.tla", cfg, rd, workers=1, timeout=300, tag="units0")
    m = re.search(r'<<\s*"RELATIONS",\s*"(.*?)"\s*>>', r0.out, re.S)
    if r0.rc != 0 or not m:
        raise vlib.Inconclusive("UnitLaws printed no table:\n" + r0.out[-1500:])
    rel = json.loads(m.group(1).replace('\\"', '"'))
    mp = re.search(r'<<\s*"PRODUCTS",\s*"(.*?)"\s*>>', r0.out, re.S)
    mr = re.search(r'<<\s*"ROUNDTRIPS",\s*"(.*?)"\s*>>', r0.out, re.S)
    prods = json.loads(mp.group(1).replace('\\"', '"'))
    rts = json.loads(mr.group(1).replace('\\"', '"'))
    extra = {}
    for tag in ("QUANTITIES", "CROSS", "RATIOS", "SCALINGS"):
        mx = re.search(r'<<\s*"%s",\s*"(.*?)"\s*>>' % tag, r0.out, re.S)
        if not mx:
            raise vlib.Inconclusive("UnitLaws printed no table %s:\n" % tag + r0.out[-1500:])
        extra[tag] = json.loads(mx.group(1).replace('\\"', '"'))
    uin, uout = os.path.join(rd, "units.txt"), os.path.join(rd, "units.ndjson")
    open(uin, "w").write("".join("%s|%s|%d|%d\n" % tuple(x) for x in rel) +
                         "".join("P|%s|%s\n" % (x[0], "|".join("%s|%d" % tuple(y) for y in x[1:])) for x in prods) +
                         "".join("R|%s|%d|%d\n" % tuple(x) for x in rts) +
                         "".join("Q|%s|%s|%s|%d|%d\n" % tuple(x) for x in extra["QUANTITIES"]) +
                         "".join("X|%s|%s|%d|%d\n" % tuple(x) for x in extra["CROSS"]) +
                         "".join("T|%s|%s|%s|%s|%d|%d\n" % tuple(x) for x in extra["RATIOS"]) +
                         "".join("S|%s|%s|%d|%d\n" % tuple(x) for x in extra["SCALINGS"]))
    rel = rel + [[x[0], "product of its parts", 1, 0] for x in prods] + [[x[0], "itself after SI and back", 1, 0] for x in rts]
    for x in extra["QUANTITIES"]:
        rel += [["%s in %s" % (x[0], x[1]), "the SI unit of the quantity", 1, 0],
                ["%s: %d x 10^%d %s through to_SI / to_unit" % (x[0], x[3], x[4], x[2]), "itself", 1, 0],
                ["%s: to_SI of %s" % (x[0], x[2]), "convert to the SI unit name", 1, 0]]
    rel += [["%d x 10^%d %s" % (x[2], x[3], x[0]), "itself after conversion to %s and back" % x[1], 1, 0] for x in extra["CROSS"]]
    rel += [["%s in %s" % (x[0], x[1]), "%s in %s" % (x[2], x[3]), x[4], x[5]] for x in extra["RATIOS"]]
    rel += [["%d %s in %s" % (x[2], x[0], x[1]), "1 %s in %s scaled with power %d" % (x[0], x[1], x[3]), 1, 0] for x in extra["SCALINGS"]]
    rc, o = vlib.sh("%s units %s %s 2>&1" % (exe, uin, uout), timeout=120)
    if rc != 0:
        c.violation("yaml:units:abort", "UnitConverter::convert failed on a relation of the table (rc=%d): %s" % (rc, o[-300:]), {"relations": rel})
    else:
        r1 = vlib.tlc("UnitLaws.tla", cfg, rd, workers=1, timeout=300, tag="units1", env={"RESULTS": uout})
        m = re.search(r'<<\s*"BADUNITS",\s*"(.*?)"\s*>>', r1.out, re.S)
        if r1.rc != 0 or not m:
            raise vlib.Inconclusive("UnitLaws evaluation failed:\n" + r1.out[-1500:])
        c.add_model("UnitLaws", r1, "%d defining relations between unit names" % len(rel))
        flags = json.loads(m.group(1))
        devs = vlib.read_ndjson(uout)
        for x, fl, dv in zip(rel, flags, devs):
            c.add_case(("unit", x[0], x[1]), nontrivial=True)
            if fl:
                c.violation("yaml:units:%s:%s" % (x[0], x[1]), "1 %s should be %d x 10^%d %s; the converter deviates by %d x 1e-12 (relative)" % (
                    x[0], x[2], x[3], x[1], dv["dev"]), {"relation": x, "measured": dv})
            else:
                c.cov["traces_validated_against_impl"] += 1
    # ---- snapshot round trip (spec/SnapshotRoundTrip.tla) -------------------------------------------------
    sexe = vlib.build_harness("snap_harness")
    r0 = vlib.tlc("SnapshotRoundTrip.tla", cfg, rd, workers=1, timeout=300, tag="snap0")
    m = re.search(r'<<\s*"GEOMETRIES",\s*"(.*?)"\s*>>', r0.out, re.S)
    if r0.rc != 0 or not m:
        raise vlib.Inconclusive("SnapshotRoundTrip printed no geometries:\n" + r0.out[-1500:])
    geos = sorted(json.loads(m.group(1)))
    gsample = rng.sample(geos, min(len(geos), 12 if tier == "quick" else 150))
    mb = re.search(r'<<\s*"BIG",\s*"(.*?)"\s*>>', r0.out, re.S)
    big = sorted(json.loads(mb.group(1))) if mb else []
    gsample += big[:2] if tier == "quick" else big
    frames = [((1., 1., 1.), (0., 0., 0.)), ((0.9, 1.3, 0.35), (0.1, -0.7, 3.3)), ((3.0e16, 1.0e16, 2.0e16), (-1.5e16, 0., 1.0e15))]
    sin, sout = os.path.join(rd, "snap.txt"), os.path.join(rd, "snap.ndjson")
    with open(sin, "w") as fh:
        for k, g in enumerate(gsample):
            sd, an = frames[k % 3]
            fh.write("%d %d %d %d %d %d %d %r %r %r %r %r %r\n" % (tuple(g) + (c.seed * 100 + k,) + sd + an))
    stmp = c.rd.sub("snaptmp")
    rc, o = vlib.sh("%s %s %s %s 2>&1" % (sexe, sin, sout, stmp), timeout=900)
    done = vlib.read_ndjson(sout) if os.path.exists(sout) else []
    if rc != 0 or len(done) != len(gsample):
        c.violation("yaml:snapshot:abort", "writing a snapshot and reading it back as initial condition failed for geometry %s (rc=%d): %s" % (
            gsample[len(done)] if len(done) < len(gsample) else "?", rc, o[-300:]), {"geometries": gsample})
    else:
        r1 = vlib.tlc("SnapshotRoundTrip.tla", cfg, rd, workers=1, timeout=300, tag="snap1", env={"RESULTS": sout})
        m = re.search(r'<<\s*"BADSNAPS",\s*"(.*?)"\s*>>', r1.out, re.S)
        if r1.rc != 0 or not m:
            raise vlib.Inconclusive("SnapshotRoundTrip evaluation failed:\n" + r1.out[-1500:])
        c.add_model("SnapshotRoundTrip", r1, "%d of %d geometries" % (len(gsample), len(geos)))
        for g, fl, dv in zip(gsample, json.loads(m.group(1)), done):
            c.add_case(("snapshot", tuple(g)), nontrivial=g[3] * g[4] * g[5] > 1)
            if fl:
                c.violation("yaml:snapshot:cells=%dx%dx%d:subgrids=%dx%dx%d" % tuple(g),
                            "snapshot round trip on %s: largest relative deviations (1e-9) density %d, temperature %d, neutral fraction %d" % (
                                g, dv["dev_n"], dv["dev_T"], dv["dev_x"]), {"geometry": g, "measured": dv})
            else:
                c.cov["traces_validated_against_impl"] += 1
    shutil.rmtree(stmp, ignore_errors=True)
    c.cov["selftest"] = "n/a (plain equality of dictionaries); Layer B round trip asserted by TLC on every batch"
    c.cov["rule"] = ("all dictionaries with <= 4 (thorough: 5) entries over 14 paths (names a, b; depth <= 3) exhaustively + seeded random ones "
                     "(<= 8 entries, depth <= 6, 8 names incl. names with blanks, shared prefixes and nesting jumps); non-trivial = "
                     "at least two entries and depth >= 2")
    c.cov["exhaustive"] = False
    c.assumptions += ["a key is never also a group name (such a tree is not expressible in the file format)",
                      "values are non-empty strings without '#'; group/key names without ':' and '#'"]


def build():
    vlib.build_harness("yaml_harness")
    vlib.build_harness("snap_harness")


def replay(path):
    obj = json.load(open(path))
    print(json.dumps(obj["replay"], indent=1)[:3000])
    return 1
