"""C04 — a hydro step conserves mass, momentum, energy; states stay physical.

 Structural half (TLC, spec/HydroGraph.tla + HydroGeom.tla): for every
 interleaving of the model-checked layouts every face of every subgrid receives
 exactly one gradient and one flux contribution (FacesOnce), each task reads
 its inputs at the right stage (PhaseConsistent); FaceCover/StaticOK for every
 sampled layout: a neighbour sweep serves exactly two faces, a boundary sweep
 one - so fluxes cancel pairwise inside the grid and across periodic boundaries.

 Numerical half (binding T/E, spec/Trace_HydroState.tla): real steps of
 layouts x boundary mixes x gamma x cell shapes x seeded initial fields x
 thread counts; the harness sums exactly (fsum) and reports deviations as
 integers in units of eps x natural scale; TLC evaluates Physical,
 ConservedPeriodic, ConservedReflective on every observed step.
"""
import json
import os
import random
from concurrent.futures import ThreadPoolExecutor

import c07
import hydrolib
import vlib

CBOUND = 64      # |delta| <= 64 eps scale: 8x the worst case of 7 additions per cell (DESIGN.md 3.3)
LBOUND = 256     # 30 contributions per cell (6 faces x 5 sweeps) x 8


def run(c):
    tier = c.tier
    rng = random.Random(c.seed)
    rd = c.rd.path
    exe = hydrolib.driver()

    # ---- structural half ---------------------------------------------------------
    pers = [(a, b, d) for a in (0, 1) for b in (0, 1) for d in (0, 1)]
    jobs = [((1, 1, 1), per, 2, 1) for per in (pers if tier != "quick" else [(0, 0, 0), (1, 1, 1), (1, 0, 0), (0, 1, 1)])]
    jobs += [((2, 1, 1), (0, 0, 0), 1, 1), ((1, 1, 2), (1, 1, 1), 1, 1)]

    def mjob(j):
        n, per, nt, nsteps = j
        tag = "hg4_%d%d%d_%d%d%d_%d" % (n + per + (nt,))
        cfg = os.path.join(rd, tag + ".cfg")
        open(cfg, "w").write(c07.mc_cfg(n, per, nt, nsteps))
        return j, vlib.tlc_model("MC_HydroGraph.tla", cfg, rd, workers=2, timeout=1500,
                                 must_take=("Pick", "Finish", "Release", "Exit"), tag=tag, xmx="4g")

    with ThreadPoolExecutor(max_workers=6) as ex:
        for j, r in ex.map(mjob, jobs):
            c.add_model("HydroGraph (FacesOnce, PhaseConsistent, ...)", r, "layout=%s per=%s threads=%d steps=%d" % j)

    # ---- numerical half -------------------------------------------------------------
    cfgs = hydrolib.tlc_configs(rd, 3, 12)
    nrun = 20 if tier == "quick" else 1500
    sample = hydrolib.corner_sample(cfgs, rng, nrun) if tier == "quick" else [rng.choice(cfgs) for _ in range(nrun)]
    gammas = [1.0001, 1.4, 5. / 3., 2.0]
    shapes = [((1.0, 1.0, 1.0), (0., 0., 0.)), ((1.0, 1.5, 0.8), (0.3, -1.7, 2.9)), ((0.7, 0.7, 0.7), (0., 0., 0.))]
    kinds = ["contrast", "calm", "vacuum", "supersonic"]
    plan = []
    for k, (n, per) in enumerate(sample):
        side, anchor = shapes[k % len(shapes)]
        # static table check (FaceCover etc.) for the layout
        plan.append(dict(k=k, n=n, per=per, gamma=gammas[k % 4], side=side, anchor=anchor, kind=kinds[(k + k // 4) % 4],
                         threads=[1, 4][k % 2] if tier == "quick" else rng.choice([1, 2, 4, 8]),
                         cfl=[0.2, 0.05][(k // 2) % 2], seed=rng.randrange(1, 10 ** 6)))

    # external point-mass gravity (a source term: only the "states stay physical" clause applies).  The mass is large
    # enough that the gravity kick on gas moving away from it exceeds the energy of a cell within one step
    for j in range(2 if tier == "quick" else 80):
        plan.append(dict(k=len(plan), n=[(2, 2, 2), (1, 2, 3)][j % 2], per=(0, 0, 0), gamma=gammas[(j + 2) % 4], side=(1.0, 1.0, 1.0),
                         anchor=(0., 0., 0.), kind="contrast", threads=[1, 4][j % 2], cfl=0.2, seed=rng.randrange(1, 10 ** 6),
                         gravity=[3.0e19, 1.0e20][j % 2]))

    # velocity limiter (Hydro:maximum velocity below the speed of part of the gas): it caps the primitive velocity only, the
    # conserved totals of a periodic box still do not change
    for j in range(2 if tier == "quick" else 40):
        plan.append(dict(k=len(plan), n=[(2, 2, 2), (1, 1, 1), (3, 1, 2)][j % 3], per=(1, 1, 1), gamma=gammas[(j + 1) % 4],
                         side=shapes[j % 3][0], anchor=shapes[j % 3][1], kind="supersonic", threads=[1, 4][j % 2], cfl=0.2,
                         seed=rng.randrange(1, 10 ** 6), vcap=[2000., 700.][j % 2]))

    def rjob(p):
        n, per = p["n"], p["per"]
        ncell = tuple(3 * n[i] if n[i] > 1 else 6 for i in range(3))
        d = os.path.join(rd, "c04run_%d" % p["k"])
        frng = random.Random(p["seed"])
        res = hydrolib.run_rhd(exe, d, n, per, threads=p["threads"], steps=3, ncell=ncell, seed=p["seed"],
                               jitter=p["threads"] > 1, timeout=120, state_file=True,
                               side=p["side"], anchor=p["anchor"], gamma=p["gamma"], cfl=p["cfl"],
                               blocks=hydrolib.random_blocks(frng, p["side"], p["anchor"], p["kind"]),
                               total_time=1.0e3, wall="reflective",
                               hydro_extra="  maximum velocity: %r m s^-1\n" % p["vcap"] if p.get("vcap") else "",
                               extra=("  external gravity: true\n\nExternalPotential:\n  type: PointMass\n"
                                      "  position: [0.5 m, 0.5 m, 0.5 m]\n  mass: %r kg\n" % p["gravity"]) if p.get("gravity") else "")
        out = dict(p=p, rc=res["rc"], recs=None, cmd=res["cmd"], ncell=ncell)
        if res["rc"] == 0:
            states = hydrolib.read_states(os.path.join(d, "state.bin"))
            hst = [x for x in res["trace"] if x["e"] == "h.state"]
            out["recs"] = hydrolib.step_records(states, hst, p["gamma"], p["anchor"], p["side"], ncell, per)
        vlib.sh("rm -rf %s" % d)
        return out

    with ThreadPoolExecutor(max_workers=6) as ex:
        runs = list(ex.map(rjob, plan))

    recs = [{"e": "cfg", "cbound": CBOUND, "lbound": LBOUND}]
    index = []
    nsteps = 0
    for r in runs:
        p = r["p"]
        key = "layout=%dx%dx%d per=%d%d%d gamma=%g kind=%s shape=%s%s" % (
            tuple(p["n"]) + tuple(p["per"]) + (p["gamma"], p["kind"], p["side"], (" gravity" if p.get("gravity") else "") + (" vcap" if p.get("vcap") else "")))
        if r["rc"] != 0:
            c.violation("hydrostate:exit-%d:%s" % (r["rc"], key), "hydro run ended with status %d (%s)" % (r["rc"], key),
                        {"plan": p, "cmd": r["cmd"]})
            continue
        allper = all(p["per"])
        if p.get("gravity"):
            recs.append({"e": "run", "periodic": 0, "walls": 0})
        else:
            recs.append({"e": "run", "periodic": 1 if allper else 0, "walls": 0 if allper else 1})
        index.append((len(recs), p))
        recs += r["recs"]
        nsteps += len(r["recs"])
        c.add_case(key, nontrivial=p["n"] != (1, 1, 1))
    p0 = os.path.join(rd, "hstate.ndjson")
    vlib.write_ndjson(p0, recs)
    st, r = vlib.validate_trace("Trace_HydroState.tla", "Trace_HydroState.cfg", p0, rd, tag="hstate", timeout=1800, dfs=False)
    c.sample({"plan": {k: v for k, v in runs[0]["p"].items()}, "records": (runs[0]["recs"] or [])[:3]})
    if st == "error":
        raise vlib.Inconclusive("TLC error on hydro state records:\n" + r.out[-2000:])
    report_state_violations(c, "C04", recs, index, st, r)
    if st == "accepted":
        c.cov["traces_validated_against_impl"] += len(index)
    vlib.log("numerical half: %d runs, %d observed steps judged by TLC: %s" % (len(index), nsteps, st))

    # ---- self-test -----------------------------------------------------------------
    bad = [recs[0], {"e": "run", "periodic": 1, "walls": 0},
           {"e": "step", "k": 1, "finite": 1, "nonneg": 1, "clamps": 0, "slow": 1, "dM": 3, "dPx": 2, "dPy": 0,
            "dPz": 70000, "dE": 1}]
    p1 = os.path.join(rd, "self.ndjson")
    vlib.write_ndjson(p1, bad)
    st2, r2 = vlib.validate_trace("Trace_HydroState.tla", "Trace_HydroState.cfg", p1, rd, tag="self", dfs=False)
    if st2 != "violated:ConservedPeriodic":
        raise vlib.Inconclusive("self-test failed: non-conserved momentum gave %s" % st2)
    c.cov["selftest"] = "record with dPz = 70000 eps-units rejected (ConservedPeriodic)"
    c.cov["rule"] = ("configurations from Configs_Hydro x gamma x cell shape x field kind x CFL x threads; one run = 3 "
                     "steps from a seeded piecewise-constant field; non-trivial = more than one subgrid")
    c.cov["exhaustive"] = False
    c.cov["explanation"] = "structure: all interleavings of the model-checked layouts; numbers: only on the observed steps"
    c.assumptions += [
        "that the value of each face flux is right (antisymmetry under exchange of the two states) is a property of the "
        "Riemann solver (C05, not applicable to this technique); observed here only through the totals",
        "conservation bound: |delta| <= %d eps x scale with scale = 2 x sum over cells of the natural magnitude of the quantity "
        "(mass; |momentum| + m(|v|+c); E + PV); totals by exact summation" % CBOUND]


def report_state_violations(c, pid, recs, index, st, r):
    if st in ("accepted", "error"):
        return
    import re
    m = re.findall(r"/\\ l = (\d+)", r.out)
    pos = int(m[-1]) - 1 if m else None
    plan = None
    for start, p in index:
        if pos and start <= pos:
            plan = p
    keep = c.replay_path("hstate_%d.ndjson" % (len(c.violations) + 1))
    vlib.write_ndjson(keep, recs)
    what = recs[pos - 1] if pos and pos <= len(recs) else None
    sig = "hydrostate:%s:%s" % (st, "walls" if plan and not all(plan["per"]) else "periodic")
    c.violation(sig, "observed hydro step violates %s: %s (plan %s)" % (st, what, plan),
                {"trace": keep, "record": what, "plan": plan, "tlc_last_state": vlib.last_trace_state(r)})
    # other violations further down the log: re-validate the remainder
    if pos and pos < len(recs):
        rest = [recs[0]] + [x for x in recs[pos:]]
        # make sure the remainder starts with a run record
        j = next((i for i, x in enumerate(rest[1:], 1) if x["e"] == "run"), None)
        if j and len(c.violations) < 6:
            rest = [recs[0]] + rest[j:]
            p2 = os.path.join(c.rd.path, "hstate_rest_%d.ndjson" % len(c.violations))
            vlib.write_ndjson(p2, rest)
            st2, r2 = vlib.validate_trace("Trace_HydroState.tla", "Trace_HydroState.cfg", p2, c.rd.path,
                                          tag="hstate_rest%d" % len(c.violations), dfs=False)
            off = pos + j - 1
            index2 = [(s - off, p) for s, p in index if s - off > 0]
            report_state_violations(c, pid, rest, index2, st2, r2)


def build():
    hydrolib.driver()


def replay(path):
    obj = json.load(open(path))
    rd = vlib.RunDir("C04r")
    st, r = vlib.validate_trace("Trace_HydroState.tla", "Trace_HydroState.cfg", obj["replay"]["trace"], rd.path, dfs=False)
    print("trace %s: %s" % (obj["replay"]["trace"], st))
    rd.cleanup()
    return 0 if st == "accepted" else 1
