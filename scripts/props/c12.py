"""C12 (restricted) — complete runs end normally, write their outputs, and
optional component pointers obey the ownership protocol.

 Layer A: spec/Trace_RunLifecycle.tla.  Binding E: modes x optional components x
 threads from spec/Configs_C12.tla; every sampled configuration is run to
 completion by a driver whose two simulation translation units are compiled
 with -O0 -ftrivial-auto-var-init=pattern (an uninitialised member then holds a
 recognisable non-null pattern) and with MALLOC_PERTURB_; the event stream plus
 exit status and the outputs found on disk are validated by TLC.

 Not claimed: absence of out-of-bounds / use-after-free accesses and of
 decisions on uninitialised memory in general (sanitizer territory; a TLA+
 specification only sees what the hooks log).
"""
import glob
import json
import os
import random
import re
import shutil
from concurrent.futures import ThreadPoolExecutor

import c09
import hydrolib
import rhdparams
import vlib

LEVEL = "other"
SRC = ["/verif/harness/cmi_driver.cpp", os.path.join(vlib.REPO, "src/TaskBasedRadiationHydrodynamicsSimulation.cpp"),
       os.path.join(vlib.REPO, "src/TaskBasedIonizationSimulation.cpp")]


def pattern_driver():
    vlib.ensure_hooks_build()
    return vlib.build_harness("cmi_driver_pat", sources=SRC, opt="-O0 -ftrivial-auto-var-init=pattern")


def configs(rd):
    cfg = os.path.join(rd, "Configs_C12.cfg")
    open(cfg, "w").write("SPECIFICATION Spec\n")
    r = vlib.tlc("Configs_C12.tla", cfg, rd, workers=1, timeout=300, tag="configs_c12")
    m = re.search(r'<<"CONFIGS", "(.*)">>', r.out)
    if not m:
        raise vlib.Inconclusive("Configs_C12 printed nothing:\n" + r.out[-1500:])
    return sorted(json.loads(m.group(1).replace('\\"', '"')), key=lambda x: json.dumps(x, sort_keys=True))


TRACKERS = """number of trackers: 3

tracker[0]:
  type: Spectrum
  position: [0. pc, 0. pc, 0. pc]

tracker[1]:
  type: Spectrum
  position: [2. pc, 0. pc, 1. pc]
  output name: special_position.txt

tracker[2]:
  type: Spectrum
  position: [0.01 pc, 0.01 pc, 0.01 pc]
  output name: same_cell_as_the_first.txt
"""


def run_one(exe, d, cf, seed):
    """Returns (records, info)."""
    shutil.rmtree(d, ignore_errors=True)
    os.makedirs(d)
    env = {"CMI_VERIF_TRACE": os.path.join(d, "trace.ndjson"), "VERIF_SEED": str(seed), "MALLOC_PERTURB_": "165",
           "OMP_NUM_THREADS": str(cf["nthr"]), "OMP_WAIT_POLICY": "passive",
           "CMI_VERIF_MODE": "jitter" if cf["nthr"] > 1 else "off"}
    cmds = []
    expect = []
    if cf["mode"] == "ion":
        extra = ""
        if cf["trackers"]:
            open(os.path.join(d, "trackers.yml"), "w").write(TRACKERS)
            extra = "  enable trackers: true\n\nTrackerManager:\n  filename: %s/trackers.yml\n" % d
            expect += ["Spectrum_tracker_*.txt|special_position.txt|*tracker*"]
        big = bool(cf.get("big"))
        p = rhdparams.ion_param(d, ncell=(24, 24, 24) if big else (8, 8, 8), nsub=(1, 1, 1) if big else (2, 2, 2), nphoton=5000, niter=2,
                                diffuse=bool(cf["diffuse"]),
                                continuous=bool(cf["continuous"]), copy_level=cf["copy"], seed=seed, extra=extra,
                                luminosity=0. if cf.get("lum0") else 1.0e46)
        if cf.get("gadget"):
            ptxt = open(p).read().replace("type: AsciiFile", "type: Gadget")
            open(p, "w").write(ptxt)
        cmds.append("%s --task-based --params %s --threads %d%s" % (exe, p, cf["nthr"], " --task-plot" if cf["plot"] else ""))
        expect += ["snap_*.hdf5" if cf.get("gadget") else "snap_*.txt"]
    else:
        extra = ""
        if cf["turb"]:
            extra += "  turbulent forcing: true\n"
        if cf["mask"]:
            extra += "  use mask: true\n"
        if cf["snaps"]:
            extra += "  snapshot time: 2.5e-4 s\n"
            if cf["first"]:
                extra += "  first snapshot: %d\n" % cf["first"]
        blocks = ""
        if cf["turb"]:
            blocks += c09.TURB
        if cf["mask"]:
            blocks += c09.MASK
        if cf["live"]:
            blocks += ("\nLiveOutputManager:\n  enabled: true\n  output interval: 2.e-4 s\n"
                       "  output ionized surface density: %s\n" % ("true" if cf["ionsurf"] else "false"))
            expect += ["surface_density_0*.txt", "density_PDF_0*.txt", "velocity_PDF_0*.txt"]
            if cf["ionsurf"]:
                expect += ["surface_density_ionized_*.txt|*ionized*"]
        rad = cf["mode"] == "rhdrad"
        # with radiation the box must be open: in a periodic box of negligible optical depth packets never terminate
        per = (False, False, False) if rad else (True, True, True)
        p = rhdparams.rhd_param(d, ncell=(16, 8, 8) if cf.get("aniso") else (8, 8, 8), nsub=(2, 2, 2), periodic=per, total_time=1.0e-3,
                                radiation=rad, nphoton=2000, niter=2, seed=seed, dump_every_step=cf["mode"] == "restart",
                                diffuse=0.4 if cf.get("rdiff") == 1 else None,
                                # a diffuse field only matters when packets are absorbed: opaque, neutral gas for these runs
                                **(dict(sigma_h="3.e-6 m^2", alpha_h="1.e12 m^3 s^-1", luminosity=1.e20, xh=1.0, nbuffers=4000, ntasks=40000)
                                   if cf.get("rdiff") and not cf.get("sn") else {}),
                                max_backups=cf["maxb"], extra=extra + ("  diffuse field: true\n" if cf.get("rdiff") == 2 else "") + blocks + ("  do stellar feedback: true\n" if cf.get("sn") else ""),
                                source_block=("PhotonSourceDistribution:\n  type: SingleSupernova\n  position: [0.4 m, 0.6 m, 0.55 m]\n"
                                              "  lifetime: 1.e-12 s\n  luminosity: 1.e46 s^-1\n  energy: 1.e-9 J\n") if cf.get("sn") else None)
        txt = open(p).read().replace("type: AsciiFile", "type: Gadget").replace("  snapshot time: -1 s\n", "" if cf["snaps"] else "  snapshot time: -1 s\n")
        open(p, "w").write(txt)
        base = "%s --task-based-rhd --params %s --threads %d" % (exe, p, cf["nthr"])
        if cf["mode"] == "restart":
            cmds.append(base + " --number-of-steps %d" % (1 + cf["maxb"]))
            cmds.append(base + " --restart %s" % d)
            expect += ["restart.dump"]
        else:
            cmds.append(base)
        expect += ["snap_*.hdf5"]
    recs = []
    info = {"cmds": cmds, "expect": expect}
    for i, cmd in enumerate(cmds):
        last = i == len(cmds) - 1
        tr = os.path.join(d, "trace.ndjson")
        if os.path.exists(tr):
            os.remove(tr)
        rc, out = vlib.sh("cd %s && %s > run%d.log 2>&1" % (d, cmd, i), timeout=90, env=env)
        if rc == 124 and i == 0:
            # killed by the time limit: a loaded machine or a genuine hang - decided by one repetition with a generous limit
            for fn in glob.glob(os.path.join(d, "snap_*")) + glob.glob(os.path.join(d, "restart.*")):
                os.remove(fn)
            if os.path.exists(tr):
                os.remove(tr)
            rc, out = vlib.sh("cd %s && %s > run%d.log 2>&1" % (d, cmd, i), timeout=400, env=env)
        ev = []
        if os.path.exists(tr):
            for line in open(tr):
                try:
                    ev.append(json.loads(line))
                except ValueError:
                    pass
        found = 0
        for pat in expect if last else []:
            if any(glob.glob(os.path.join(d, a)) for a in pat.split("|")):
                found += 1
        runrec = {"e": "run", "expect": len(expect) if last else 0}
        if cf["mode"] != "ion":
            runrec.update({"snapmodel": 1, "first": cf["first"], "fresh": 1 if i == 0 else 0,
                           "dumpmodel": 1 if (cf["mode"] == "restart" and i == 0) else 0, "maxb": cf["maxb"]})
        recs.append(runrec)
        for x in ev:
            if x["e"] in ("run.start", "own.enter", "own.alloc", "own.delete", "run.end", "snap.dec", "snap.fin", "fs.open"):
                recs.append({k: v for k, v in x.items() if k not in ("q", "th")})
            elif x["e"] in ("it.end", "h.end"):
                recs.append({"e": "work"})
                if x["e"] == "h.end":
                    recs.append({"e": "h.end", "step": x["step"]})
            elif x["e"] in ("run.init", "h.begin", "dump.begin", "dump.end") and cf["mode"] != "ion":
                recs.append({"e": x["e"], "step": x.get("step", 0)})
        snaps = sorted(int(re.search(r"snap_(\d+)\.hdf5$", f).group(1)) for f in glob.glob(os.path.join(d, "snap_*.hdf5")))
        backs = sorted(int(re.search(r"restart\.(\d+)\.back$", f).group(1)) for f in glob.glob(os.path.join(d, "restart.*.back")))
        recs.append({"e": "exit", "rc": rc, "outputs": found, "snaps": snaps, "backs": backs,
                     "dump": 1 if os.path.exists(os.path.join(d, "restart.dump")) else 0})
        info["rc%d" % i] = rc
        info["found"] = found
        if rc != 0:
            info["log_tail"] = open(os.path.join(d, "run%d.log" % i)).read()[-800:] if os.path.exists(os.path.join(d, "run%d.log" % i)) else ""
            break
    info["files"] = sorted(os.listdir(d))[:60]
    shutil.rmtree(d, ignore_errors=True)
    return recs, info


def run(c):
    tier = c.tier
    rng = random.Random(c.seed)
    rd = c.rd.path
    exe = pattern_driver()
    cfgs = configs(rd)
    c.cov["configurations_total"] = len(cfgs)
    # every mode and every component at least once
    must = []
    for mode in ("ion", "rhd", "rhdrad", "restart"):
        cand = [x for x in cfgs if x["mode"] == mode]
        must.append(rng.choice(cand))
        if mode == "ion":
            for key in ("diffuse", "continuous", "trackers", "plot", "gadget", "lum0"):
                must.append(rng.choice([x for x in cand if x[key] == 1]))
            must.append(rng.choice([x for x in cand if x["gadget"] == 1 and x["big"] == 1 and x["nthr"] == 4]))
        else:
            for key in ("live", "ionsurf", "mask", "turb", "snaps"):
                must.append(rng.choice([x for x in cand if x[key] == 1 and (key != "ionsurf" or x["live"] == 1)]))
            if mode == "rhd":
                must.append(rng.choice([x for x in cand if x["aniso"] == 1 and x["live"] == 1 and x["ionsurf"] == 1]))
                for fs in (2, 9):
                    must.append(rng.choice([x for x in cand if x["first"] == fs]))
            if mode == "rhdrad":
                must.append(rng.choice([x for x in cand if x["sn"] == 1]))
                for rdf in (1, 2):
                    must.append(rng.choice([x for x in cand if x["rdiff"] == rdf and x["sn"] == 0]))
            if mode == "restart":
                for mb in (2, 3):
                    must.append(rng.choice([x for x in cand if x["maxb"] == mb]))
                must.append(rng.choice([x for x in cand if x["first"] == 9]))
    seen = set()
    sample = []
    for x in must:
        k = json.dumps(x, sort_keys=True)
        if k not in seen:
            seen.add(k)
            sample.append(x)
    nrun = 36 if tier == "quick" else 300
    rest = [x for x in cfgs if json.dumps(x, sort_keys=True) not in seen]
    sample = sample[:nrun] if tier == "quick" else sample + rng.sample(rest, min(len(rest), nrun - len(sample)))

    def job(k):
        return k, run_one(exe, os.path.join(rd, "life_%d" % k), sample[k], c.seed * 100 + k)

    with ThreadPoolExecutor(max_workers=5) as ex:
        results = list(ex.map(job, range(len(sample))))
    allrecs = []
    starts = []
    for k, (recs, info) in results:
        starts.append((len(allrecs) + 1, k))
        allrecs += recs
        c.add_case(json.dumps(sample[k], sort_keys=True), nontrivial=True)
    p = os.path.join(rd, "life.ndjson")
    todo = allrecs
    offset = 0
    rounds = 0
    while todo and rounds < 8:
        rounds += 1
        vlib.write_ndjson(p, todo)
        st, r = vlib.validate_trace("Trace_RunLifecycle.tla", "Trace_RunLifecycle.cfg", p, rd, tag="life%d" % rounds, dfs=False)
        if st == "error":
            raise vlib.Inconclusive("TLC error on lifecycle records:\n" + r.out[-2000:])
        if st == "accepted":
            break
        m = re.findall(r"/\\ l = (\d+)", r.out)
        pos = (int(m[-1]) - 1 if m else getattr(r, "maxl", 1)) + offset
        k = max(kk for s0, kk in starts if s0 <= pos)
        recs, info = results[k][1]
        tags = re.findall(r"/\\ bad = (\{[^}]*\})", r.out)
        cf = sample[k]
        if st == "violated:LoopOrder":
            # Layer B only: the description of the outer loop is out of date; this run is not judged further
            c.model_drift("the outer loop of configuration %s does not follow the loop grammar of Trace_RunLifecycle near record %d"
                          % (cf, pos))
            nxt = [s0 for s0, kk in starts if s0 > pos]
            if not nxt:
                todo = []
                break
            offset = min(nxt) - 1
            todo = allrecs[offset:]
            continue
        comp = ",".join(sorted(key for key, v in cf.items() if v == 1 and key not in ("nthr", "first", "maxb")))
        c.violation("lifecycle:%s:mode=%s:components=%s" % (st, cf["mode"], comp),
                    "run of configuration %s violates Layer A (%s, tags %s): exit %s, outputs found %s of %s" % (
                        cf, st, tags[-1] if tags else "?", [info.get("rc0"), info.get("rc1")], info.get("found"), info["expect"]),
                    {"config": cf, "records": recs, "info": info})
        # continue after this run
        nxt = [s0 for s0, kk in starts if s0 > pos]
        if not nxt:
            todo = []
            break
        offset = min(nxt) - 1
        todo = allrecs[offset:]
    nok = len(sample) - len(c.violations)
    c.cov["traces_validated_against_impl"] = max(0, nok)
    c.sample({"config": sample[0], "records": results[0][1][0][:8]})
    vlib.log("lifecycle: %d configurations run to completion, %d without violation" % (len(sample), nok))

    bad = [{"e": "run", "expect": 1}, {"e": "run.start"}, {"e": "own.enter", "members": [0, 1, 0, 0]}, {"e": "work"},
           {"e": "run.end", "rc": 0}, {"e": "exit", "rc": 0, "outputs": 1}]
    p1 = os.path.join(rd, "self.ndjson")
    vlib.write_ndjson(p1, bad)
    st, r = vlib.validate_trace("Trace_RunLifecycle.tla", "Trace_RunLifecycle.cfg", p1, rd, tag="self", dfs=False)
    if st != "violated:OwnershipProtocol":
        raise vlib.Inconclusive("self-test failed: non-null member at constructor entry gave %s" % st)
    c.cov["selftest"] = "own.enter with a non-null member rejected (OwnershipProtocol)"
    c.cov["explanation"] = ("restricted claim: exit status, promised outputs and the ownership protocol of optional component "
                            "pointers on %d sampled configurations (modes x components x threads); memory-safety clauses of "
                            "C12 are not claimed" % len(sample))
    c.cov["rule"] = "configurations from Configs_C12; every mode and every optional component at least once"
    c.cov["exhaustive"] = False
    c.assumptions += ["-ftrivial-auto-var-init=pattern at -O0 fills otherwise uninitialised members of stack objects of the two "
                      "simulation translation units with 0xFE..; heap objects rely on MALLOC_PERTURB_"]


def build():
    pattern_driver()


def replay(path):
    obj = json.load(open(path))
    print(json.dumps(obj["replay"]["config"]), "\n", "\n".join(obj["replay"]["info"]["cmds"]))
    return 1
