"""C02 — a packet crossing a block deposits exactly its geometric path.

 Layer A: spec/RayLattice.tla (exact geometry on an integer lattice, no
 marching).  TLC evaluates every case (and asserts on each that the deposited
 lengths sum to the distance travelled and the optical depth used equals the
 sum of opacity x length); binding R: every case is replayed into the real
 DensitySubGrid::interact (dyadic frames where lattice points, ties and
 thresholds are exact in floating point, and generic frames with a tolerance);
 per-cell deposits, heating, optical depth used, absorbed-or-not, exit
 face/edge/corner and end position must agree.
"""
import itertools
import json
import math
import os
import random
from concurrent.futures import ThreadPoolExecutor

import raylib
import vlib

TOL = 1.0e-11


def gen_cases(tier, rng):
    cases = []
    dirs = [d for d in itertools.product(range(-4, 5), repeat=3) if d != (0, 0, 0) and all(x in (0, 1, 2, 3, 4, -1, -2, -3, -4) for x in d)]
    shapes = [(1, 1, 1), (2, 1, 1), (1, 2, 3), (2, 2, 2), (3, 3, 3), (3, 1, 2)]
    n = 2500 if tier == "quick" else 60000
    # structured part: every entry class x every exit class family, axis-aligned and diagonal directions
    special_dirs = [d for d in dirs if len(set(abs(x) for x in d if x)) == 1]
    while len(cases) < n:
        N = rng.choice(shapes)
        d = rng.choice(special_dirs if rng.random() < 0.45 else dirs)
        # entry class: a subset of the axes along which the packet sits on the block boundary, moving inwards
        cls = [0, 0, 0]
        p = [0, 0, 0]
        ok = True
        for k in range(3):
            r = rng.random()
            if d[k] != 0 and r < 0.35:
                cls[k] = -1 if d[k] > 0 else 1          # on the lower side moving up / on the upper side moving down
                p[k] = 0 if d[k] > 0 else 4 * N[k]
            else:
                # anywhere in the half-open block, often exactly on a cell face
                if rng.random() < 0.5:
                    p[k] = 4 * rng.randint(0, N[k] - 1) + (0 if rng.random() < 0.6 else 2)
                else:
                    p[k] = rng.randint(0, 4 * N[k] - 1)
                if p[k] == 0 and d[k] < 0:
                    ok = False                          # would leave at once through an undeclared face
        if not ok:
            continue
        ncell = N[0] * N[1] * N[2]
        kap = [rng.choice([0, 1, 1, 2]) for _ in range(ncell)]
        total = 24 * 4 * sum(N) * 2
        tau = rng.choice([1, 3, 7, 24, 48, 50, 96, 131, 200, 10 ** 6])
        frame = rng.choice(["dyadic", "dyadic", "dyadic_aniso", "generic"])
        cs = dict(n=list(N), p=p, d=list(d), kap=kap, tau2=2 * tau + 1, cls=raylib.dir_id(*cls), frame=frame)
        if frame == "generic" and raylib.in_face_ray(cs):
            cs["frame"] = "dyadic"
        cases.append(cs)
    return cases


def run(c):
    tier = c.tier
    rng = random.Random(c.seed)
    rd = c.rd.path
    vlib.ensure_hooks_build()
    exe = vlib.build_harness("ray_harness")
    # ---- Layer B refines Layer A: the cell-by-cell march (spec/RayMarch.tla) ends with exactly the closed-form geometry of
    # RayLattice for every start point, direction, opacity pattern and target of small blocks
    shapes = [((2, 2, 1), "MC_Kaps4", 2)] if tier == "quick" else [((2, 2, 1), "MC_Kaps4", 3), ((2, 1, 2), "MC_Kaps4", 2), ((3, 1, 1), "MC_Kaps3", 3)]

    def mjob(k):
        (nx, ny, nz), kaps, dmax = shapes[k]
        cfg = os.path.join(rd, "raymarch_%d.cfg" % k)
        open(cfg, "w").write("CONSTANTS NX = %d NY = %d NZ = %d DMax = %d\nKaps <- %s\nTaus2 <- MC_Taus\nSPECIFICATION Spec\n"
                             "INVARIANTS MarchRefinesGeometry PathSum\nPROPERTY Terminates\nCHECK_DEADLOCK FALSE\n" % (nx, ny, nz, dmax, kaps))
        return shapes[k], vlib.tlc_model("MC_RayMarch.tla", cfg, rd, workers=4, timeout=3000, must_take=("Step",), tag="raymarch_%d" % k)

    with ThreadPoolExecutor(max_workers=3) as ex:
        for sh, r in ex.map(mjob, range(len(shapes))):
            c.add_model("RayMarch refines RayLattice (MarchRefinesGeometry, PathSum, Terminates)", r,
                        "block %dx%dx%d, all lattice start points, directions in -%d..%d, 3 opacity patterns, 3 targets" % (sh[0] + (sh[2], sh[2])))
    cases = gen_cases(tier, rng)
    chunks = [cases[i:i + 600] for i in range(0, len(cases), 600)]

    def job(args):
        i, ch = args
        res, r = raylib.tlc_trace(rd, ch, "c02_%d" % i)
        f = os.path.join(rd, "single_%d.txt" % i)
        with open(f, "w") as fh:
            for cs in ch:
                u, a = raylib.FRAMES[cs["frame"]]
                ps = raylib.phys_scale(cs["d"], u)
                # optical depth is dimensionless: number density = kappa / (sigma x physical path per unit T)
                tau_phys = cs["tau2"] / 2.
                fh.write("%d %d %d %r %r %r %r %r %r %d %d %d %d %d %d %d %r 0.5 2.0 4.0e15 %s\n" % (
                    cs["n"][0], cs["n"][1], cs["n"][2], u[0], u[1], u[2], a[0], a[1], a[2], cs["cls"], cs["p"][0], cs["p"][1],
                    cs["p"][2], cs["d"][0], cs["d"][1], cs["d"][2], tau_phys, " ".join(repr(k / (2.0 * ps)) for k in cs["kap"])))
        o = os.path.join(rd, "single_%d.ndjson" % i)
        rc, out = vlib.sh("%s single %s %s" % (exe, f, o), timeout=900)
        got = read_partial(o)
        if rc != 0 and len(got) < len(ch):
            # the real interact() crashed or never returned on the first case without an answer
            cs = ch[len(got)]
            c.violation("ray:crash-or-hang:frame=%s:class=%d" % ("dyadic" if cs["frame"].startswith("dyadic") else "generic", cs["cls"]),
                        "DensitySubGrid::interact did not return for %s (harness rc=%d: 124 = time limit, 139 = segmentation fault, "
                        "134 = abort) %s" % (cs, rc, out[-200:]), {"case": cs})
        return ch, res, got, r

    with ThreadPoolExecutor(max_workers=8) as ex:
        results = list(ex.map(job, enumerate(chunks)))
    nchk = 0
    for ch, res, got, r in results:
        c.add_model("RayLattice evaluation", r, "%d rays" % len(ch))
        for cs, rs, g in zip(ch, res, got):
            nchk += 1
            compare(c, cs, rs, g)
    c.cov["traces_validated_against_impl"] = nchk - len(c.violations)
    c.sample({"case": {k: results[0][0][0][k] for k in ("n", "p", "d", "kap", "tau2", "cls", "frame")},
              "spec": results[0][1][0], "code": results[0][2][0]})
    vlib.log("binding R: %d rays replayed into DensitySubGrid::interact, %d violations" % (nchk, len(c.violations)))
    c.cov["rule"] = ("blocks 1x1x1..3x3x3, start points on the integer lattice (cell size 4: interior, face, edge, corner points), "
                     "directions in {-4..4}^3, 27 entry classes, opacities {0,1,2}, thresholds incl. larger than the block total; "
                     "dyadic, anisotropic dyadic and generic frames; non-trivial = visits more than one cell or starts on a cell boundary")
    c.cov["exhaustive"] = False
    c.assumptions += ["target optical depths are odd multiples of half a unit, so they are never reached exactly on a cell boundary "
                      "(the decision 'in this cell or the next' is then stable under round-off); rays running exactly inside a cell "
                      "face are only used in dyadic frames",
                      "exit classification compared exactly only where it is decided in floating point (no tie, or a tie between "
                      "axes with equal |direction| in an isotropic dyadic frame, or axis-aligned rays); otherwise the end point "
                      "must lie on the claimed boundary within tolerance"]


def compare(c, cs, rs, g):
    """Layer A result rs (from TLC) vs the real code g."""
    u, a = raylib.FRAMES[cs["frame"]]
    ps = raylib.phys_scale(cs["d"], u)
    diag = math.sqrt(sum((4 * cs["n"][k] * u[k]) ** 2 for k in range(3)))
    tol = 4 * TOL * diag
    key = "%s|%s|%s" % (cs["n"], cs["p"], cs["d"])
    c.add_case(key, nontrivial=sum(1 for x in rs["dep4"] if x > 0) > 1 or any(x % 4 == 0 for x in cs["p"]))
    absorbed = rs["absorbed"]
    exp = [x / 4. * ps for x in rs["dep4"]]
    sig = "frame=%s:class=%d" % ("dyadic" if cs["frame"].startswith("dyadic") else "generic", cs["cls"])
    dep = g["dep"]
    info = {"case": cs, "spec": rs, "code": g}
    # (0) every number the code reports is finite
    if not all(math.isfinite(x) for x in list(dep) + list(g["end"]) + list(g["heat"]) + [g["tauleft"]]):
        return c.violation("ray:nonfinite:%s" % sig, "non-finite path length, position or optical depth (%s)" % cs, info)
    # (1) straight-line distance = sum of credited paths
    end = [g["end"][k] * u[k] for k in range(3)]
    start = [cs["p"][k] * u[k] for k in range(3)]
    dist = math.sqrt(sum((end[k] - start[k]) ** 2 for k in range(3)))
    if abs(sum(dep) - dist) > tol:
        return c.violation("ray:pathsum:%s" % sig, "credited paths sum to %r, distance travelled %r (%s)" % (sum(dep), dist, cs), info)
    # (2) heating estimator = same path
    if any(abs(x - y) > tol for x, y in zip(dep, g["heat"])):
        return c.violation("ray:heating:%s" % sig, "heating estimator path differs from intensity path (%s)" % cs, info)
    # (2b) helium carries a quarter of the opacity in every second case: its estimators grow by the same path
    if "dephe" in g and (any(abs(x - y) > tol for x, y in zip(dep, g["dephe"])) or any(abs(x - y) > tol for x, y in zip(dep, g["heathe"]))):
        return c.violation("ray:helium:%s" % sig, "helium intensity / heating estimator path differs from the hydrogen one (%s)" % cs, info)
    # (3) stops inside exactly when the target is reached
    code_abs = g["out"] == 0
    if code_abs != absorbed:
        return c.violation("ray:absorbed:%s" % sig, "code says %s, geometry says %s (%s)" % (
            "absorbed" if code_abs else "left", "absorbed" if absorbed else "left", cs), info)
    # (4) optical depth used = sum of opacity x path (an absorbed packet has used exactly its target; its leftover is
    # not meaningful any more - it gets a new target when it is re-emitted)
    used = sum(k * x for k, x in zip(cs["kap"], dep)) / ps
    tau_phys = cs["tau2"] / 2.
    used_code = tau_phys if absorbed else tau_phys - g["tauleft"]
    if abs(used - used_code) > 1e-9 * max(1., abs(used_code)):
        return c.violation("ray:taubalance:%s" % sig, "optical depth used %r, sum of opacity x path %r (%s)" % (used_code, used, cs), info)
    # (5) per-cell deposits
    for i, (x, y) in enumerate(zip(exp, dep)):
        if abs(x - y) > tol:
            return c.violation("ray:deposit:%s" % sig, "cell %d is credited %r, geometry gives %r (%s)" % (i, y, x, cs), info)
    # (6) end position
    endl = [rs["end96"][k] / 96. for k in range(3)]
    if any(abs(g["end"][k] - endl[k]) * u[k] > tol for k in range(3)):
        return c.violation("ray:endpoint:%s" % sig, "end point %s, geometry %s (%s)" % (g["end"], endl, cs), info)
    if absorbed:
        return
    # (7) exit classification
    want = raylib.dir_id(*rs["exit"])
    if g["out"] != want:
        if raylib.decidable_exit(cs, rs, u):
            return c.violation("ray:exitclass:%s:want=%d:got=%d" % (sig, want, g["out"]),
                               "leaves through class %d, the straight line crosses class %d (%s)" % (g["out"], want, cs), info)
        # not decidable: the claimed class must be a sub-feature of the true one (a tie split by round-off)
        gs = raylib.signs_of(g["out"])
        if any(gs[k] != 0 and gs[k] != rs["exit"][k] for k in range(3)) or gs == (0, 0, 0):
            return c.violation("ray:exitclass:%s:want=%d:got=%d" % (sig, want, g["out"]),
                               "leaves through class %d which is not part of the crossed feature %d (%s)" % (g["out"], want, cs), info)


def read_partial(path):
    """Answers of the harness up to the first missing / truncated line."""
    out = []
    if os.path.exists(path):
        try:
            out = vlib.read_ndjson(path)
        except ValueError:
            for line in open(path):
                try:
                    out += vlib.read_ndjson_line(line)
                except ValueError:
                    break
    return out


def full_lengths(cs):
    """T-lengths of the uncut ray per cell (plain Python, only used for the half-unit corner case)."""
    N, p, d = cs["n"], cs["p"], cs["d"]
    out = []
    for ix in range(N[0]):
        for iy in range(N[1]):
            for iz in range(N[2]):
                tin, tout = 0., 1e30
                okc = True
                for k, i in enumerate((ix, iy, iz)):
                    lo, hi = 4 * i, 4 * i + 4
                    if d[k] > 0:
                        tin, tout = max(tin, 24. * (lo - p[k]) / d[k]), min(tout, 24. * (hi - p[k]) / d[k])
                    elif d[k] < 0:
                        tin, tout = max(tin, 24. * (hi - p[k]) / d[k]), min(tout, 24. * (lo - p[k]) / d[k])
                    elif not (lo <= p[k] < hi):
                        okc = False
                out.append(max(0., tout - tin) if okc else 0.)
    return out


def build():
    vlib.build_harness("ray_harness")


def replay(path):
    obj = json.load(open(path))
    print(json.dumps(obj["replay"], indent=1)[:3000])
    return 1
