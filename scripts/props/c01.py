"""C01 — every photon packet launched in an iteration terminates exactly once.

 1. TLC: PhotonSched (Layer B: the worker loop with source, traversal, store
    with overflow, accounting, release, premature launch, two-read termination
    test, pool flag/counter as separate steps) for small constants:
    conservation at quiescence, clean end, run flag false => all done,
    termination.
 2. Binding E: configurations from spec/Configs_C01.tla.
 3. Binding T: whole iterations of the real simulation (hooks in the task
    contexts, recorded before a transfer becomes visible) validated by TLC
    against Layer A (spec/Trace_PacketLedger.tla): Conservation, ExactlyOnce,
    OverflowExact, LaunchExact, EndOnlyWhenDone, CleanEnd; an iteration that does
    not end within the timeout (twice) is reported as a violation.
"""
import json
import os
import random
import re
import shutil
from concurrent.futures import ThreadPoolExecutor

import hydrolib
import rhdparams
import vlib

KEEP = ("it.begin", "src.d", "cont.draw", "cont.send", "trav", "reemit", "reemit.ids", "prem", "term.set", "it.end")


def sched_cfg(nt, n, cap, nb, reemit, budget):
    return ("CONSTANTS defaultInitValue = 0 NT = %d N = %d CAP = %d NB = %d REEMIT = %s PREADD_FIRST = TRUE BUDGET = %d\n"
            "SPECIFICATION Spec\nINVARIANTS ConservationQ CleanEnd FlagFalseImpliesDone DoneBound\n"
            "PROPERTY Terminates\nCHECK_DEADLOCK FALSE\n" % (nt, n, cap, nb, "TRUE" if reemit else "FALSE", budget))


def configs(rd):
    cfg = os.path.join(rd, "Configs_C01.cfg")
    open(cfg, "w").write("SPECIFICATION Spec\n")
    r = vlib.tlc("Configs_C01.tla", cfg, rd, workers=1, timeout=300, tag="configs_c01")
    m = re.search(r'<<"CONFIGS", "(.*)">>', r.out)
    if not m:
        raise vlib.Inconclusive("Configs_C01 printed nothing:\n" + r.out[-1500:])
    return sorted(json.loads(m.group(1).replace('\\"', '"')), key=lambda x: json.dumps(x, sort_keys=True))


def run_ion(exe, d, cf, seed, niter=2, timeout=45):
    shutil.rmtree(d, ignore_errors=True)
    n = tuple(cf["n"])
    ncell = tuple(4 * x for x in n) if max(n) > 1 else (8, 8, 8)
    p = rhdparams.ion_param(d, ncell=ncell, nsub=n, periodic=tuple(bool(x) for x in cf["per"]), nphoton=cf["np"],
                            niter=niter, discrete="D" in cf["src"], continuous="C" in cf["src"],
                            diffuse=bool(cf["diffuse"]), copy_level=cf["copy"], seed=seed,
                            density="100. cm^-3", nsources=cf.get("nsrc", 1))
    tr = os.path.join(d, "trace.ndjson")
    env = {"CMI_VERIF_TRACE": tr, "VERIF_SEED": str(seed), "CMI_VERIF_MODE": "jitter" if cf["nthr"] > 1 else "off",
           "OMP_NUM_THREADS": str(cf["nthr"]), "OMP_WAIT_POLICY": "passive"}
    cmd = "%s --task-based --params %s --threads %d" % (exe, p, cf["nthr"])
    rc, out = vlib.sh("cd %s && %s > run.log 2>&1" % (d, cmd), timeout=timeout, env=env)
    recs = []
    if os.path.exists(tr):
        for line in open(tr):
            try:
                recs.append(json.loads(line))
            except ValueError:
                pass
    return rc, recs, cmd, env


def run_rhd_rad(exe, d, cf, seed, timeout=90):
    """The radiation loop of the radiation-hydrodynamics simulation (the second copy of the worker loop): two time steps
    with two photoionization iterations each; opacities chosen so that packets are absorbed and cross subgrids."""
    r = hydrolib.run_rhd(exe, d, tuple(cf["n"]), tuple(cf["per"]), threads=cf["nthr"], steps=2, ncell_per_sub=(4, 4, 4),
                         seed=seed, jitter=cf["nthr"] > 1, timeout=timeout, radiation=True, nphoton=cf["np"], niter=2,
                         diffuse=0.4 if cf["diffuse"] and not cf.get("nohandler") else None,
                         extra="  diffuse field: true\n" if cf.get("nohandler") else "", copy_level=cf["copy"], sigma_h="3.e-6 m^2",
                         luminosity=1.e20, alpha_h="1.e12 m^3 s^-1", nsources=cf["nsrc"],
                         nbuffers=4000, ntasks=40000, xh=1.0)
    return r["rc"], r["trace"], r["cmd"], r["env"]


def ledger_trace(recs):
    ev = [{k: v for k, v in r.items() if k not in ("q", "th")} for r in recs if r["e"] in KEEP]
    nb = 1
    for r in ev:
        if "b" in r:
            nb = max(nb, r["b"] + 1)
        for m in r.get("moves", []):
            nb = max(nb, m[2] + 1, m[4] + 1)
    return [{"e": "cfg", "nbuf": nb + 1}] + ev


def quota_part(c, tier, rng, rd):
    """Launch side: division of the requested packets over the entries of real DistributedPhotonSource objects and their
    concurrent drain, against spec/PhotonQuota.tla."""
    qexe = vlib.build_harness("quota_harness")
    # the drain as a state machine (all interleavings of two / three threads on small totals)
    for k, (nt, calls) in enumerate([(2, 4)] if tier == "quick" else [(2, 5), (3, 3)]):
        cfg = os.path.join(rd, "pq_%d.cfg" % k)
        open(cfg, "w").write("CONSTANTS MaxBatch = 2 NThreads = %d MaxCalls = %d\nTotals <- MC_Totals\nSPECIFICATION Spec\n"
                             "INVARIANTS NeverTooMany BatchesBounded ZeroOnlyWhenDrained OneShortBatch\nCHECK_DEADLOCK FALSE\n" % (nt, calls))
        r = vlib.tlc_model("MC_PhotonQuota.tla", cfg, rd, workers=4, timeout=1800, tag="pq_%d" % k, must_take=("Take", "Unlock", "Check"))
        c.add_model("PhotonQuota drain", r, "totals <<3, 2>>, batches of 2, %d threads, %d calls each" % (nt, calls))
    cases = []
    layouts = [(1, 1, 1), (2, 1, 1), (2, 2, 1), (3, 2, 1), (2, 2, 2)]
    for i in range(30 if tier == "quick" else 400):
        S = rng.choice(layouts)
        nsub = S[0] * S[1] * S[2]
        nsrc = rng.choice([1, 1, 2, 3, 5])
        W = rng.choice([4, 16, 64])
        if nsrc > W:
            continue
        cuts = sorted(rng.sample(range(1, W), nsrc - 1)) if nsrc > 1 else []
        ws = [b - a for a, b in zip([0] + cuts, cuts + [W])]
        subs = [rng.randrange(nsub) for _ in range(nsrc)]
        if len(set(subs)) < nsrc:
            continue              # one source per subgrid keeps the entry table of the harness simple
        levels = [rng.choice([0, 0, 1, 2, 3]) for _ in range(nsub)]
        N = rng.choice([999, 1000, 7777, 10007, 20001, 100003, rng.randint(50, 100000)])
        cases.append(dict(N=N, S=S, ws=ws, subs=subs, levels=levels, cs=[2 ** levels[s] for s in subs],
                          max=rng.choice([1, 7, 100, 200, 1000]), nthr=rng.choice([1, 2, 4, 8])))
        if cases[-1]["max"] * 4000 < N:
            cases[-1]["max"] = 200
    fin, fout = os.path.join(rd, "quota.txt"), os.path.join(rd, "quota.ndjson")
    with open(fin, "w") as fh:
        for cs in cases:
            fh.write("%d %d %d %d %d %d %d %s %s\n" % (cs["N"], cs["S"][0], cs["S"][1], cs["S"][2], cs["max"], cs["nthr"], len(cs["ws"]),
                                                    " ".join("%d %d" % (w, s) for w, s in zip(cs["ws"], cs["subs"])),
                                                    " ".join(map(str, cs["levels"]))))
    rc, o = vlib.sh("%s %s %s 2>&1" % (qexe, fin, fout), timeout=900)
    got = vlib.read_ndjson(fout) if os.path.exists(fout) else []
    if rc != 0 or len(got) != len(cases):
        c.violation("quota:abort", "DistributedPhotonSource harness failed on case %s (rc=%d): %s" % (
            cases[len(got)] if len(got) < len(cases) else "?", rc, o[-300:]), {"cases": cases[:5]})
        return
    fj = os.path.join(rd, "quota_cases.json")
    json.dump([dict(N=cs["N"], ws=cs["ws"], cs=cs["cs"], tot=g["tot"], max=cs["max"], batches=g["batches"]) for cs, g in zip(cases, got)],
              open(fj, "w"))
    cfg = os.path.join(rd, "pq_eval.cfg")
    open(cfg, "w").write("CONSTANTS MaxBatch = 2 NThreads = 1 MaxCalls = 0\nTotals <- MC_Totals\nSPECIFICATION Spec\nCHECK_DEADLOCK FALSE\n")
    r = vlib.tlc("MC_PhotonQuota.tla", cfg, rd, workers=1, timeout=1800, tag="pq_eval", env={"CASES": fj}, xss="512m")
    m = re.search(r'<<\s*"QUOTA",\s*"(.*?)"\s*>>', r.out, re.S)
    if r.rc != 0 or not m:
        raise vlib.Inconclusive("MC_PhotonQuota evaluation failed:\n" + r.out[-2000:])
    c.add_model("PhotonQuota (division and ledgers of real sources)", r, "%d sources" % len(cases))
    for cs, g, v in zip(cases, got, json.loads(m.group(1).replace('\\"', '"'))):
        c.add_case(("quota", cs["N"], tuple(cs["ws"]), tuple(cs["cs"]), cs["max"], cs["nthr"]), nontrivial=len(cs["ws"]) > 1 or max(cs["cs"]) > 1)
        nb_ok = all(nb == (t + cs["max"] - 1) // cs["max"] for nb, t in zip(g["nbatch"], g["tot"]))
        if not v["totals"]:
            c.violation("quota:division:copies=%s" % ("yes" if max(cs["cs"]) > 1 else "no"),
                        "%d packets over weights %s with %s entries per source are divided as %s (sum %d): not the shares of "
                        "PhotonQuota!ValidTotals" % (cs["N"], cs["ws"], cs["cs"], g["tot"], sum(g["tot"])), {"case": cs, "code": g})
        elif not v["ledger"] or not nb_ok:
            c.violation("quota:drain:threads=%d" % cs["nthr"],
                        "concurrent drain of %s entries with batches of %d: the batches handed out do not add up to the totals %s "
                        "(or more than one short batch / wrong number of batches %s)" % (len(g["tot"]), cs["max"], g["tot"], g["nbatch"]),
                        {"case": cs, "code": {k: g[k] for k in ("tot", "nbatch")}})
        else:
            c.cov["traces_validated_against_impl"] += 1
    vlib.log("launch side: %d DistributedPhotonSource objects (division + concurrent drain) checked against PhotonQuota" % len(cases))


def run(c):
    tier = c.tier
    rng = random.Random(c.seed)
    rd = c.rd.path
    exe = hydrolib.driver()

    # ---- 1. Layer B model ---------------------------------------------------------
    mcfgs = [(2, 2, 1, 4, False, 1)] if tier == "quick" else \
        [(2, 2, 1, 4, False, 2), (2, 2, 1, 4, True, 2), (2, 3, 2, 4, False, 3)]

    def mjob(m):
        cfg = os.path.join(rd, "ps_%d_%d_%d_%d_%d_%d.cfg" % tuple(int(x) for x in m))
        open(cfg, "w").write(sched_cfg(*m))
        return m, vlib.tlc_model("PhotonSched.tla", cfg, rd, workers=8, timeout=3000, xmx="16g",
                                 coverage=tier != "quick", must_take=("Exec", "Get", "Enq") if tier != "quick" else (),
                                 tag=os.path.basename(cfg)[:-4])

    model_pool = ThreadPoolExecutor(max_workers=2)
    model_futs = [model_pool.submit(mjob, m) for m in mcfgs]     # runs while the real iterations are traced

    # ---- 2. configurations ------------------------------------------------------------
    cfgs = configs(rd)
    vlib.log("configs enumerated")
    c.cov["configurations_total"] = len(cfgs)
    nrun = 16 if tier == "quick" else 160
    # corner cases always present: every source mix with and without diffuse field, copies, many threads
    must = []
    for src in ("D", "C", "DC"):
        for dif in (0, 1):
            cand = [x for x in cfgs if x["src"] == src and x["diffuse"] == dif and x["nthr"] >= 4 and x["n"] != [1, 1, 1]
                    and x["np"] in (7777, 10000)]
            must.append(rng.choice(cand))
    must.append(rng.choice([x for x in cfgs if x["copy"] == 2 and x["nthr"] == 8 and x["np"] == 20001 and x["src"] == "D"]))
    must.append(rng.choice([x for x in cfgs if x["nthr"] == 1 and x["np"] == 999]))
    must.append(rng.choice([x for x in cfgs if x["nsrc"] == 3 and x["copy"] >= 1 and x["np"] in (7777, 999) and max(x["n"]) > 1]))
    must.append(rng.choice([x for x in cfgs if x["nsrc"] == 3 and x["copy"] == 0 and x["nthr"] >= 4 and max(x["n"]) > 1]))
    sample = must + rng.sample([x for x in cfgs if x not in must], max(0, nrun - len(must)))
    # the second copy of the worker loop (radiation step of the RHD simulation): discrete sources only
    rcand = [x for x in cfgs if x["src"] == "D" and x["n"] != [1, 1, 4]]
    rmust = [rng.choice([x for x in rcand if x["diffuse"] == 1 and x["copy"] == 2 and x["nthr"] >= 4 and max(x["n"]) > 1]),
             rng.choice([x for x in rcand if x["diffuse"] == 0 and x["nsrc"] == 3 and x["nthr"] >= 2 and max(x["n"]) > 1]),
             rng.choice([x for x in rcand if x["nthr"] == 1 and x["diffuse"] == 1])]
    nrhd = 6 if tier == "quick" else 60
    rsample = rmust + rng.sample([x for x in rcand if x not in rmust], nrhd - len(rmust))
    sample = sample + [dict(x, rhd=1) for x in rsample]
    # "diffuse field: true" without a re-emission handler block (the factory's default gives none): absorbed packets end
    sample.append(dict(rng.choice([x for x in rcand if x["diffuse"] == 1 and x["nthr"] == 2 and max(x["n"]) > 1]), rhd=1, nohandler=1))

    # ---- 3. real iterations ------------------------------------------------------------
    def rjob(k):
        cf = sample[k]
        d = os.path.join(rd, "ion_%d" % k)
        seed = c.seed * 1000 + k
        runner = run_rhd_rad if cf.get("rhd") else run_ion
        rc, recs, cmd, env = runner(exe, d, cf, seed)
        if rc == 124:
            rc, recs, cmd, env = runner(exe, d, cf, seed, timeout=180)
        out = dict(k=k, cf=cf, rc=rc, cmd=cmd, env=env, status=None, tlc=None, nrec=0, tail=recs[-3:], tr=None)
        if rc == 0:
            out["tr"] = ledger_trace(recs)
            out["nrec"] = len(out["tr"])
            if k == 0:
                out["sample"] = out["tr"][:6]
        shutil.rmtree(d, ignore_errors=True)
        return out

    with ThreadPoolExecutor(max_workers=6) as ex:
        results = list(ex.map(rjob, range(len(sample))))

    # validate in batches (several runs per TLC process: "it.begin" resets the ledger)
    def vjob(batch):
        nb = max(o["tr"][0]["nbuf"] for o in batch)
        recs = [{"e": "cfg", "nbuf": nb}]
        starts = []
        for o in batch:
            starts.append(len(recs) + 1)
            recs += o["tr"][1:]
        p = os.path.join(rd, "ledger_b%d.ndjson" % batch[0]["k"])
        vlib.write_ndjson(p, recs)
        st, r = vlib.validate_trace("Trace_PacketLedger.tla", "Trace_PacketLedger.cfg", p, rd,
                                    tag="ledger_b%d" % batch[0]["k"], timeout=2400, dfs=False)
        if st == "accepted" or st == "error" or len(batch) == 1:
            for o in batch:
                o["status"], o["tlc"], o["path"] = st, r, p
            return
        # locate the offending run and judge the runs individually
        for o in batch:
            vjob([o])

    vlib.log("runs done")
    ok_runs = [o for o in results if o["rc"] == 0]
    nbatch = 4 if tier == "quick" else 8
    batches = [ok_runs[i::nbatch] for i in range(nbatch) if ok_runs[i::nbatch]]
    with ThreadPoolExecutor(max_workers=nbatch) as ex:
        list(ex.map(vjob, batches))

    for o in results:
        cf = o["cf"]
        key = "%ssrc=%s diffuse=%d layout=%s per=%s copy=%d threads=%d packets=%d" % (
            "rhd " if cf.get("rhd") else "", cf["src"], cf["diffuse"], "x".join(map(str, cf["n"])), "".join(map(str, cf["per"])),
            cf["copy"], cf["nthr"], cf["np"])
        c.add_case(key, nontrivial=cf["nthr"] > 1 or cf["diffuse"] == 1 or cf["src"] != "D")
        if o["rc"] != 0:
            kind = "hang" if o["rc"] == 124 else "exit-%d" % o["rc"]
            c.violation("ledger:%s:%ssrc=%s:diffuse=%d" % (kind, "rhd:" if cf.get("rhd") else "", cf["src"], cf["diffuse"]),
                        "photoionization run did not finish normally (%s, reproduced): %s" % (kind, key),
                        {"config": cf, "cmd": o["cmd"], "env": o["env"], "last_events": o["tail"]})
            continue
        if o["status"] == "error":
            raise vlib.Inconclusive("TLC error on ledger trace:\n" + o["tlc"].out[-2000:])
        if o["status"] == "accepted":
            c.cov["traces_validated_against_impl"] += 1
        else:
            m = re.findall(r"/\\ l = (\d+)", o["tlc"].out)
            pos = int(m[-1]) - 1 if m else None
            tr = vlib.read_ndjson(o["path"])
            keep = c.replay_path("ledger_%d.ndjson" % o["k"])
            shutil.copy(o["path"], keep)
            bad = re.findall(r"/\\ bad = (\{[^}]*\})", o["tlc"].out)
            c.violation("ledger:%s:%ssrc=%s:diffuse=%d" % (o["status"], "rhd:" if cf.get("rhd") else "", cf["src"], cf["diffuse"]),
                        "iteration of the real simulation violates Layer A (%s, tags %s): %s" % (
                            o["status"], bad[-1] if bad else "?", key),
                        {"trace": keep, "config": cf, "at_record": tr[pos - 1] if pos and pos <= len(tr) else None,
                         "cmd": o["cmd"], "tlc_last_state": vlib.last_trace_state(o["tlc"])})
    for fut in model_futs:
        m, r = fut.result()
        c.add_model("PhotonSched", r, "NT=%d N=%d CAP=%d NB=%d REEMIT=%s BUDGET=%d" % m)
    vlib.log("model: PhotonSched %s: %d distinct states, invariants + termination hold" % (mcfgs, c.cov["states"]))
    if "sample" in results[0]:
        c.sample({"config": results[0]["cf"], "records": results[0]["sample"]})
    vlib.log("real iterations: %d configurations (2 iterations each; %d of them the radiation step of the RHD simulation, "
             "2 steps x 2 iterations), %d traces accepted by Layer A" % (
                 len(sample), len(rsample) + 1, c.cov["traces_validated_against_impl"]))
    c.cov["rhd_radiation_runs"] = len(rsample) + 1

    # ---- 4. self-test ---------------------------------------------------------------------
    good = next((o for o in results if o["status"] == "accepted"), None)
    if good:
        tr = vlib.read_ndjson(good["path"])
        i = next(i for i, r in enumerate(tr) if r["e"] in ("trav", "reemit") and r["done"] > 0)
        tr[i] = dict(tr[i], done=tr[i]["done"] - 1)      # one packet not accounted for
        p = os.path.join(rd, "self.ndjson")
        vlib.write_ndjson(p, tr)
        st, r = vlib.validate_trace("Trace_PacketLedger.tla", "Trace_PacketLedger.cfg", p, rd, tag="self", dfs=False)
        if not st.startswith("violated:"):
            raise vlib.Inconclusive("self-test failed: lost packet gave %s" % st)
        c.cov["selftest"] = "trace with one unaccounted packet rejected (%s)" % st
    quota_part(c, tier, rng, rd)
    c.cov["rule"] = ("configurations from Configs_C01 (source mix x diffuse x layout x periodicity x copy level x threads x "
                     "packet count); non-trivial = several threads or diffuse field or a continuous source")
    c.cov["exhaustive"] = False
    c.assumptions += ["packets are counted, not identified: two compensating errors inside one record would cancel",
                      "the pools are large enough (the property's proviso)",
                      "trackers are not exercised by this check; the RHD variant of the loop only with discrete sources (it has no others)"]


def build_quota():
    vlib.build_harness("quota_harness")


def build():
    build_quota()
    hydrolib.driver()


def replay(path):
    obj = json.load(open(path))
    rd = vlib.RunDir("C01r")
    if "trace" in obj["replay"]:
        st, r = vlib.validate_trace("Trace_PacketLedger.tla", "Trace_PacketLedger.cfg", obj["replay"]["trace"], rd.path, dfs=False)
        print("trace %s: %s" % (obj["replay"]["trace"], st))
        rd.cleanup()
        return 0 if st == "accepted" else 1
    print("re-run: %s" % obj["replay"]["cmd"])
    rd.cleanup()
    return 1
