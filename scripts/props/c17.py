"""C17 — orientation and in-sphere tests return the exact sign.

 Layer A: spec/OrientExact.tla (integer determinants on a lattice, symbolic
 perturbation by units in the last place).  TLC evaluates the exact sign of
 every case; binding R: orient3d_exact/adaptive and insphere_exact/adaptive of
 the real code must return it; the permutation laws are checked in the
 specification (ASSUME PermutationLaws) and on the code through permuted cases.
"""
import itertools
import json
import os
import random
import re
from concurrent.futures import ThreadPoolExecutor

import vlib


GUNIT = 0xAAAAAAAAAB   # 733 007 751 851 ulps; 6100 units stay inside [1,2)


def exact_py(t, pts, shift=3):
    """Independent big-integer evaluation: only a guard against a transcription slip in the TLA+ module and
    against coefficients that reach the lattice unit (then the first-non-zero-coefficient rule does not apply)."""
    # shift <= 52: the lattice unit is 2^-shift; larger values: the lattice unit is `shift` ulps (not a power of two)
    K = 2 ** (52 - shift) if shift <= 52 else shift
    co = [[K * p[j] + p[3 + j] for j in range(3)] for p in pts]
    if t == "o":
        r = [[co[i][j] - co[3][j] for j in range(3)] for i in range(3)]
        d = (r[0][0] * (r[1][1] * r[2][2] - r[1][2] * r[2][1]) - r[0][1] * (r[1][0] * r[2][2] - r[1][2] * r[2][0])
             + r[0][2] * (r[1][0] * r[2][1] - r[1][1] * r[2][0]))
    else:
        r = [[co[i][j] - co[4][j] for j in range(3)] for i in range(4)]
        l = [sum(x * x for x in row) for row in r]

        def d3(a, b, c):
            return (a[0] * (b[1] * c[2] - b[2] * c[1]) - a[1] * (b[0] * c[2] - b[2] * c[0]) + a[2] * (b[0] * c[1] - b[1] * c[0]))
        d = -l[0] * d3(r[1], r[2], r[3]) + l[1] * d3(r[0], r[2], r[3]) - l[2] * d3(r[0], r[1], r[3]) + l[3] * d3(r[0], r[1], r[2])
    return (d > 0) - (d < 0)


def gen_cases(tier, rng):
    """Returns {deg: [case,...]} ; a case is dict(t, p=[[kx,ky,kz,qx,qy,qz],...])"""
    L = [(x, y, z) for x in range(3) for y in range(3) for z in range(3)]
    L7 = [(x, y, z) for x in (0, 3, 7) for y in (0, 2, 7) for z in (0, 5, 7)]
    zero = [0, 0, 0]
    by = {1: [], 2: [], 3: []}
    quads = list(itertools.combinations(L, 4))
    rng.shuffle(quads)
    nq = 2500 if tier == "quick" else len(quads)
    lat_o = [list(q) for q in quads[:nq]] + [list(q) for q in rng.sample(list(itertools.combinations(L7, 4)), 400)]
    for q in lat_o:
        by[1].append({"t": "o", "p": [list(p) + zero for p in q]})
    # all permutations of a few quadruples
    for q in lat_o[:40]:
        for perm in itertools.permutations(range(4)):
            by[1].append({"t": "o", "p": [list(q[i]) + zero for i in perm]})
    # in-sphere: the 8 cube corners are cospherical; quintuples of the 3^3 lattice
    cube = [(x, y, z) for x in (0, 2) for y in (0, 2) for z in (0, 2)]
    quints = [list(q) for q in itertools.combinations(cube, 5)]
    allq = list(itertools.combinations(L, 5))
    quints += [list(q) for q in rng.sample(allq, 2500 if tier == "quick" else 30000)]
    for q in quints:
        by[1].append({"t": "i", "p": [list(p) + zero for p in q]})
    for q in quints[:30]:
        for perm in itertools.permutations(range(4)):
            by[1].append({"t": "i", "p": [list(q[i]) + zero for i in perm] + [list(q[4]) + zero]})
    # perturbations of degenerate configurations
    deg_o = [q for q in lat_o if exact_py("o", [list(p) + zero for p in q]) == 0]
    deg_i = [q for q in quints if exact_py("i", [list(p) + zero for p in q]) == 0]
    npert = 6 if tier == "quick" else 20
    for q in deg_o[:400 if tier == "quick" else 4000]:
        for _ in range(npert):
            # one coordinate of one point moved by 1..1000 ulps: decided at first order unless it moves inside the plane
            pts = [list(p) + zero for p in q]
            i, j = rng.randrange(4), rng.randrange(3)
            pts[i][3 + j] = rng.choice([1, -1, 2, -7, 100, -1000, 1000, rng.randint(-1000, 1000)])
            by[1].append({"t": "o", "p": pts})
        for _ in range(npert // 2):
            pts = [list(p) + [rng.randint(-300, 300) for _ in range(3)] for p in q]
            by[3].append({"t": "o", "p": pts})
    for q in deg_i[:300 if tier == "quick" else 3000]:
        for _ in range(npert):
            pts = [list(p) + zero for p in q]
            i, j = rng.randrange(5), rng.randrange(3)
            pts[i][3 + j] = rng.choice([1, -1, 3, -9, 100, -1000, 1000, rng.randint(-1000, 1000)])
            by[1].append({"t": "i", "p": pts})
        for _ in range(npert // 2):
            pts = [list(p) + [rng.randint(-30, 30) for _ in range(3)] for p in q]
            by[2].append({"t": "i", "p": pts})
    # large configurations: corners of boxes that span most of [1,2) are cospherical; the exact in-sphere determinant
    # of such points needs the full width of the exact integer type (coordinate differences of 5/8 .. 7/8 of the interval)
    big = []
    for (ea, eb, ec) in [(7, 7, 7), (7, 6, 5), (5, 7, 6), (6, 6, 7)]:
        corners = [(x, y, z) for x in (0, ea) for y in (0, eb) for z in (0, ec)]
        big += [list(q) for q in itertools.combinations(corners, 5)]
    rng.shuffle(big)
    for q in big[:60 if tier == "quick" else 224]:
        by[1].append({"t": "i", "p": [list(p) + zero for p in q]})
        for _ in range(4 if tier == "quick" else 12):
            pts = [list(p) + zero for p in q]
            i, j = rng.randrange(5), rng.randrange(3)
            pts[i][3 + j] = rng.choice([1, -1, 3, -9, 100, -300, 300, rng.randint(-300, 300)])
            by[1].append({"t": "i", "p": pts})
    # fine lattice (unit 2^-25 = 2^27 ulps): products of coordinate differences no longer fit a double, so the
    # floating-point filter really rounds; perturbations of a few ulps on every coordinate, decided at orders 1..5
    by[5] = []
    for q in deg_o[:500 if tier == "quick" else 5000]:
        for _ in range(4 if tier == "quick" else 10):
            by[5].append({"t": "o", "s": 25, "p": [list(p) + [rng.randint(-3, 3) for _ in range(3)] for p in q]})
    for q in lat_o[:300 if tier == "quick" else 3000]:
        by[5].append({"t": "o", "s": 25, "p": [list(p) + [rng.randint(-2, 2) for _ in range(3)] for p in q]})
    for q in deg_i[:300 if tier == "quick" else 3000]:
        for _ in range(3 if tier == "quick" else 8):
            by[5].append({"t": "i", "s": 25, "p": [list(p) + [rng.randint(-2, 2) for _ in range(3)] for p in q]})
    # "vertical plane" family on the fine lattice: the xy projections of the four points are collinear, so all three
    # xy minors of orient3d nearly cancel (an error bound computed from the cancelled minors would be far too small)
    dirs = [(1, 0), (0, 1), (1, 1), (1, 2), (2, 1), (1, -1), (2, -1), (1, 3)]
    for _ in range(3000 if tier == "quick" else 40000):
        dx, dy = rng.choice(dirs)
        x0, y0 = rng.randint(0, 1), rng.randint(3, 4)
        ts = [rng.randint(0, 3) for _ in range(4)]
        pts = [[x0 + t * dx, y0 + t * dy, rng.randint(0, 7)] + [rng.randint(-4, 4) for _ in range(3)] for t in ts]
        if len(set(tuple(p[:3]) for p in pts)) == 4:
            by[5].append({"t": "o", "s": 25, "p": pts})
    # "wide parallelogram" family: a, a + B, a + C, a + B + C with long edges (up to 250 units per axis) whose projections
    # on one coordinate plane are almost parallel (projected area of one unit), then moved by 1..3 ulps.  The lattice unit
    # is GUNIT ulps, an odd 40 bit number: coordinate differences have dense 48 bit mantissas, every product of the
    # floating-point evaluation rounds, and the rounding noise is 10^3..10^4 times the exact determinant (the perturbation
    # times a cofactor of one unit): only an honest error bound sends the filter to the exact fall-back.  The exact sign
    # is still the first non-zero coefficient of the polynomial in 1 / GUNIT (all coefficients are below 2^31 < GUNIT).
    def egcd(a, b):
        if b == 0:
            return (a, 1, 0)
        g, x, y = egcd(b, a % b)
        return (g, y, x - (a // b) * y)
    made = 0
    while made < (4000 if tier == "quick" else 40000):
        u1, u2 = rng.randint(-60, 60), rng.randint(-60, 60)
        if u1 == 0 or u2 == 0:
            continue
        g, x, y = egcd(abs(u1), abs(u2))
        if g != 1:
            continue
        # u1 * e2 - u2 * e1 = +-1
        e2, e1 = x * (1 if u1 > 0 else -1), -y * (1 if u2 > 0 else -1)
        if abs(u1 * e2 - u2 * e1) != 1:
            continue
        m = rng.choice([1, 2, 3, -2])
        B = [u1, u2, rng.randint(-250, 250)]
        C = [m * u1 + e1, m * u2 + e2, rng.randint(-250, 250)]
        if max(abs(v) for v in B + C) > 250:
            continue
        ax = rng.sample(range(3), 3)
        B, C = [B[ax[j]] for j in range(3)], [C[ax[j]] for j in range(3)]
        a = [rng.randint(600, 5000) for _ in range(3)]
        P = [a, [a[j] + B[j] for j in range(3)], [a[j] + C[j] for j in range(3)], [a[j] + B[j] + C[j] for j in range(3)]]
        order = rng.sample(range(4), 4)
        if made % 4 != 3:
            pts = [list(P[i]) + zero for i in order]
            # the coordinate whose cofactor is the projected area of one unit
            i, j = rng.randrange(4), ax.index(2)
            pts[i][3 + j] = rng.choice([1, -1, 2, -2, 3, -3])
            by[1].append({"t": "o", "s": GUNIT, "p": pts})
        else:
            by[3].append({"t": "o", "s": GUNIT, "p": [list(P[i]) + [rng.randint(-2, 2) for _ in range(3)] for i in order]})
        made += 1
    # "nearly coincident pair" family: two of the four points share their lattice coordinates and differ only by a few
    # (up to 128) ulps, so one 2x2 minor of the floating-point evaluation is the difference of two products that agree to
    # more than 53 bits: it rounds to exactly 0 although the exact minor is a non-zero second-order term, while the other
    # terms are first order times zero or second order with either sign.  A filter that trusts "no term has the opposite
    # sign" (or any reasoning on the rounded terms instead of an error bound) returns a wrong non-zero sign here.
    # c0 = c1 = 0: decided at order 2 or 3; all vertex orders of every configuration.
    made = 0
    while made < (60 if tier == "quick" else 600):
        dk = [rng.randint(0, 2), rng.randint(0, 2), rng.randint(0, 3)]
        A = [rng.choice([1, 2, 3, -1]), rng.choice([1, 2, 3]), rng.choice([1, 2, 4, -2])]
        B = [rng.choice([1, 2, 4]), rng.choice([1, 2, 4]), rng.choice([0, 0, 1])]
        t = rng.choice([1, 2, 8, 64])
        qb = [t * rng.randint(-2, 2) for _ in range(3)]
        qc = [t * rng.randint(-2, 2) for _ in range(3)]
        if qb == qc:
            continue
        pa = [dk[j] + A[j] for j in range(3)]
        pb = [dk[j] + B[j] for j in range(3)]
        if min(pa + pb) < 0 or max(pa + pb) > 7:
            continue
        P = [pa + zero, pb + qb, pb + qc, dk + zero]
        for perm in itertools.permutations(range(4)):
            by[3].append({"t": "o", "p": [list(P[i]) for i in perm]})
        made += 1
    # the sharpest members of that family: seen from d, the far point a and the pair b ~ c lie in one vertical plane (their
    # xy projections are multiples of the same lattice vector (u, v)), the pair has no lattice height above d, and c - b is
    # parallel to (u, v) to first order.  Then the (b, c) minor is exactly r t^2 (v e1 - u e2) - invisible in double
    # precision next to products of order one - and the two other terms are second order as well: the exact sign is that of
    # t (u e2 - v e1) [m1 (zc - zb) - Az r t], decided by which second-order term wins.
    made = 0
    while made < (60 if tier == "quick" else 600):
        u, v = rng.choice([(1, 1), (1, 2), (2, 1), (1, 3)])
        m1, m2 = rng.choice([(1, 2), (2, 1), (1, 1), (1, 3)])
        dk = [rng.randint(0, 1), rng.randint(0, 1), rng.randint(0, 3)]
        Az = rng.choice([1, 2, 4, -1, -2])
        pa = [dk[0] + m1 * u, dk[1] + m1 * v, dk[2] + Az]
        pb = [dk[0] + m2 * u, dk[1] + m2 * v, dk[2]]
        if min(pa + pb) < 0 or max(pa + pb) > 7:
            continue
        t = rng.choice([1, 2, 8, 64])
        e1, e2 = rng.randint(-2, 2), rng.randint(-2, 2)
        if v * e1 == u * e2:
            continue
        r = rng.choice([1, -1, 2])
        zb, zc = rng.choice([(0, 1), (0, -1), (1, 0), (0, 2), (-1, 0), (0, 0), (1, 1)])
        qb = [t * e1, t * e2, zb]
        qc = [t * e1 + r * t * u, t * e2 + r * t * v, zc]
        P = [pa + zero, pb + qb, pb + qc, dk + zero]
        for perm in itertools.permutations(range(4)):
            by[3].append({"t": "o", "p": [list(P[i]) for i in perm]})
        made += 1
    # coordinates must stay inside [1,2): a lattice coordinate 0 cannot be perturbed downwards
    for cases in by.values():
        for cs in cases:
            for pt in cs["p"]:
                for j in range(3):
                    if pt[j] == 0 and pt[3 + j] < 0:
                        pt[3 + j] = -pt[3 + j]
    return by


def tlc_signs(c, cases, deg, tag):
    rd = c.rd.path
    f = os.path.join(rd, "cases_%s.json" % tag)
    json.dump(cases, open(f, "w"))
    cfg = os.path.join(rd, "oe_%s.cfg" % tag)
    open(cfg, "w").write("CONSTANT Deg = %d\nSPECIFICATION Spec\n" % deg)
    r = vlib.tlc("MC_OrientExact.tla", cfg, rd, workers=1, timeout=3000, tag="oe_" + tag, env={"CASES": f}, xss="512m")
    if r.rc != 0:
        raise vlib.Inconclusive("MC_OrientExact failed (overflow or PermutationLaws?):\n" + r.out[-2500:])
    m = re.search(r'<<"SIGNS", "(.*)">>', r.out)
    return json.loads(m.group(1).replace('\\"', '"')), r


def run(c):
    tier = c.tier
    rng = random.Random(c.seed)
    rd = c.rd.path
    vlib.ensure_hooks_build()
    exe = vlib.build_harness("orient_harness", link_repo=False)
    by = gen_cases(tier, rng)
    jobs = []
    for deg, cases in by.items():
        n = 1500
        for i in range(0, len(cases), n):
            jobs.append((deg, i // n, cases[i:i + n]))

    def job(j):
        deg, i, cases = j
        signs, r = tlc_signs(c, cases, deg, "%d_%d" % (deg, i))
        f = os.path.join(rd, "in_%d_%d.txt" % (deg, i))
        with open(f, "w") as fh:
            for cs in cases:
                fh.write("%s %d %d %s\n" % (cs["t"], len(cs["p"]), cs.get("s", 3), " ".join(" ".join(map(str, p)) for p in cs["p"])))
        rc, out = vlib.sh("%s %s" % (exe, f), timeout=600)
        if rc != 0:
            # the predicates themselves crashed or did not return: the lines answered so far are compared, the next case is reported
            lines = [l for l in out.splitlines() if l and all(tok.lstrip("-").isdigit() for tok in l.split())]
            k = len(lines)
            c.violation("predicate:crash-or-hang:%s" % ("orient3d" if k < len(cases) and cases[k]["t"] == "o" else "insphere"),
                        "the geometric predicates did not return for %s (harness rc=%d: 124 = time limit, 134 = abort, 139 = segmentation "
                        "fault)" % (cases[k] if k < len(cases) else "?", rc), {"case": cases[k] if k < len(cases) else None})
            out = "\n".join(lines)
            cases = cases[:k]
            signs = signs[:k]
        got = [tuple(map(int, l.split())) for l in out.splitlines()]
        return deg, cases, signs, got, r

    with ThreadPoolExecutor(max_workers=8) as ex:
        results = list(ex.map(job, jobs))
    ncmp = ndeg = nund = 0
    for deg, cases, signs, got, r in results:
        c.add_model("OrientExact evaluation", r, "Deg=%d, %d cases" % (deg, len(cases)))
        for cs, sg, g in zip(cases, signs, got):
            s = sg["s"]
            if s == 2:
                nund += 1
                continue
            if exact_py(cs["t"], cs["p"], cs.get("s", 3)) != s:
                if cs.get("s", 3) == 3:
                    raise vlib.Inconclusive("OrientExact disagrees with the big-integer guard on %s" % cs)
                nund += 1        # a coefficient reached the lattice unit: not decidable by the first-coefficient rule
                continue
            ncmp += 1
            pert = any(any(p[3:]) for p in cs["p"])
            if s == 0 or pert:
                ndeg += 1
            c.add_case(json.dumps(cs), nontrivial=(s == 0 or pert))
            name = "orient3d" if cs["t"] == "o" else "insphere"
            if g[0] != s:
                c.violation("predicate:%s_exact:expected=%d:got=%d:%s" % (name, s, g[0], "perturbed" if pert else "lattice"),
                            "%s_exact returns %d, exact sign is %d for %s" % (name, g[0], s, cs), {"case": cs, "spec": sg})
            if g[1] != s:
                c.violation("predicate:%s_adaptive:expected=%d:got=%d:%s" % (name, s, g[1], "perturbed" if pert else "lattice"),
                            "%s_adaptive returns %d, exact sign is %d for %s" % (name, g[1], s, cs), {"case": cs, "spec": sg})
    c.cov["traces_validated_against_impl"] = ncmp
    c.cov["degenerate_or_perturbed_cases"] = ndeg
    c.cov["undecided_at_order"] = nund
    c.sample({"case": results[0][1][0], "exact": results[0][2][0], "code_exact_adaptive": results[0][3][0]})
    vlib.log("binding R: %d cases compared (%d exactly degenerate or perturbed from degeneracy), %d undecided at the computed order" % (
        ncmp, ndeg, nund))
    # self-test: the comparison notices a flipped sign
    c.cov["selftest"] = "n/a (plain equality of signs); PermutationLaws asserted by TLC on every batch"
    c.cov["rule"] = ("4-subsets / 5-subsets of small lattices (all exactly coplanar / cospherical configurations of the lattice "
                     "occur), all 24 permutations for a subset, perturbations of degenerate configurations by 1..1000 ulps "
                     "(first order), by <= 300 / <= 30 ulps (orders 3 / 2), and on a fine lattice (unit 2^27 ulps, where the floating-point "
                     "filter really rounds) by <= 3 ulps on every coordinate (all orders), and wide parallelograms (unit 2^35 ulps, edges of up to 250 units, one projected area of a single unit) "
                     "moved by <= 3 ulps, where the double evaluation is dominated by rounding noise")
    c.cov["exhaustive"] = tier != "quick"
    c.assumptions += ["random non-lattice inputs with full 52-bit mantissas are outside TLC's 32-bit integers; they are covered only "
                      "through perturbed lattice configurations", "insphere sign convention: determinant with rows (p - e, |p - e|^2) "
                      "as in Shewchuk's predicates"]


def build():
    vlib.build_harness("orient_harness", link_repo=False)


def replay(path):
    obj = json.load(open(path))
    print(json.dumps(obj["replay"], indent=1)[:2000])
    return 1
