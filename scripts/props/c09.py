"""C09 — a run stopped and restarted continues exactly as if it had never stopped.

 Layer A (spec/Trace_RestartRun.tla): the state digest after step k and the
 dump written after step k must not depend on the history of stops/restarts.
 Binding T/E: for each configuration (geometry class x layout x boundary x
 optional component) the driver runs: the uninterrupted pure-hydro run (one
 thread, a dump after every step), a second identical run (premise: the
 reference is reproducible), for every k in 1..N-1 a run stopped after step k
 and a restart from that dump, and chains of restarts; per step the hook
 h.state gives the state digest, the harness adds the digest of restart.dump
 without the wall-clock timers (first 192 bytes) and without the stored seed of
 the restart generator (offset logged by the dump hook).  TLC evaluates
 ContinuationExact / DumpIdempotent / ReferenceReproducible / RunsComplete.
"""
import hashlib
import json
import os
import random
import shutil
from concurrent.futures import ThreadPoolExecutor

import hydrolib
import rhdparams
import vlib


def dump_digest(path, seed_off, seed_len):
    data = bytearray(open(path, "rb").read())
    if seed_off is not None:
        for i in range(seed_off, min(len(data), seed_off + seed_len)):
            data[i] = 0
    return hashlib.sha256(bytes(data[192:])).hexdigest()[:24], len(data)


def one_process(exe, d, param, upto, restart_from=None, tag=""):
    """Run (or continue) until step `upto`. Returns (rc, [(k, state digest)], (k, dump digest))."""
    res = hydrolib.run_rhd_param(exe, d, param, threads=1, steps=upto, restart_from="." if restart_from else None,
                                 timeout=120, tracename="trace_%s.ndjson" % tag,
                                 extra_env={"MALLOC_PERTURB_": "165"})
    steps = [(x["step"], x["digest"]) for x in res["trace"] if x["e"] == "h.state"]
    seeds = [x for x in res["trace"] if x["e"] == "dump.field" and x["name"] == "seed"]
    dump = None
    f = os.path.join(d, "restart.dump")
    if res["rc"] == 0 and os.path.exists(f) and seeds:
        dg, size = dump_digest(f, seeds[-1]["off"], seeds[-1]["len"])
        dump = (seeds[-1]["step"], dg)
    # field layout: runs (kind, size, count) written into the last dump of this process / read at its start
    wruns, cur = [], []
    rruns = []
    for x in res["trace"]:
        if x["e"] == "dump.begin":
            cur = []
        elif x["e"] == "w.run":
            cur.append([x["k"], x["s"], x["n"]])
        elif x["e"] == "dump.end":
            wruns = cur
        elif x["e"] == "r.run":
            rruns.append([x["k"], x["s"], x["n"]])
    nsub_dumped = [x.get("nsub", -1) for x in res["trace"] if x["e"] == "dump.end"]
    nsub_init = [x.get("nsub", -1) for x in res["trace"] if x["e"] == "run.init"]
    LAYOUT[(d, tag)] = (merge_runs(wruns), merge_runs(rruns), nsub_dumped[-1] if nsub_dumped else -1, nsub_init[0] if nsub_init else -1)
    return res["rc"], steps, dump, res["cmd"]


LAYOUT = {}


def merge_runs(runs):
    out = []
    for k, s, n in runs:
        k = "n" if k in ("i", "u") else k       # signed / unsigned integers of one size: one class (see Trace_RestartRun)
        if out and out[-1][0] == k and out[-1][1] == s:
            out[-1][2] += n
        else:
            out.append([k, s, n])
    return out


def layout_rec(d, wtag, rtag):
    """Record comparing what process rtag read with what process wtag wrote into the dump it started from."""
    lw = LAYOUT.get((d, wtag), ([], [], -1, -1))
    lr = LAYOUT.get((d, rtag), ([], [], -1, -1))
    # nsubw / nsubr: number of subgrids (originals + copies) in memory when the dump was written / after it was read back
    return {"e": "layout", "w": lw[0], "r": lr[1], "nsubw": lw[2], "nsubr": lr[3]}


def histories(exe, rd, name, pkw, N, chains):
    """All records of one configuration."""
    recs = [{"e": "config", "name": name}]
    info = []

    def fresh(tag):
        d = os.path.join(rd, "%s_%s" % (name, tag))
        shutil.rmtree(d, ignore_errors=True)
        param = rhdparams.rhd_param(d, dump_every_step=True, max_backups=0, relative_paths=True, **pkw)
        param = "run.param"
        return d, param

    def emit(hid, frm, rc, steps, dump, cmd, skip_first=False):
        recs.append({"e": "hist", "h": hid, "from": frm})
        info.append((hid, frm, cmd))
        if rc != 0:
            recs.append({"e": "fail", "what": "rc=%d %s" % (rc, cmd)})
            return
        for k, dg in steps:
            if frm >= 0 and k == frm:
                continue         # the state read back from the dump is logged as run.init: compared too
            recs.append({"e": "step", "k": k, "d": dg})
        if dump:
            recs.append({"e": "dump", "k": dump[0], "d": dump[1]})

    # the uninterrupted reference, twice (premise: it is reproducible)
    for tag in ("refA", "refB"):
        d, param = fresh(tag)
        rc, steps, dump, cmd = one_process(exe, d, param, N, tag="a")
        emit(tag, -1, rc, steps, dump, cmd)
        shutil.rmtree(d, ignore_errors=True)
    # every prefix (gives the dump after step k) and the restart from it
    for k in range(1, N):
        d, param = fresh("stop%d" % k)
        rc, steps, dump, cmd = one_process(exe, d, param, k, tag="a")
        emit("stop%d" % k, -1, rc, steps, dump, cmd)
        rc2, steps2, dump2, cmd2 = one_process(exe, d, param, N, restart_from=True, tag="b")
        recs.append({"e": "hist", "h": "rst%d" % k, "from": k})
        info.append(("rst%d" % k, k, cmd2))
        if rc2 != 0:
            recs.append({"e": "fail", "what": "rc=%d %s" % (rc2, cmd2)})
        else:
            recs.append(layout_rec(d, "a", "b"))
            # includes the state right after reading the dump (logged as step k)
            for kk, dg in steps2:
                recs.append({"e": "step", "k": kk, "d": dg})
            if dump2:
                recs.append({"e": "dump", "k": dump2[0], "d": dump2[1]})
        shutil.rmtree(d, ignore_errors=True)
    # chains: stop after each step of the chain, restart, ...
    for ci, chain in enumerate(chains):
        d, param = fresh("chain%d" % ci)
        prev = -1
        for j, k in enumerate(chain + [N]):
            rc, steps, dump, cmd = one_process(exe, d, param, k, restart_from=(j > 0), tag="c%d" % j)
            recs.append({"e": "hist", "h": "chain%d.%d" % (ci, j), "from": prev})
            info.append(("chain%d.%d" % (ci, j), prev, cmd))
            if rc != 0:
                recs.append({"e": "fail", "what": "rc=%d %s" % (rc, cmd)})
                break
            if j > 0:
                recs.append(layout_rec(d, "c%d" % (j - 1), "c%d" % j))
            for kk, dg in steps:
                recs.append({"e": "step", "k": kk, "d": dg})
            if dump:
                recs.append({"e": "dump", "k": dump[0], "d": dump[1]})
            prev = k
        shutil.rmtree(d, ignore_errors=True)
    return recs, info


TURB = """
TurbulenceForcing:
  minimum wave number: 1.
  maximum wave number: 3.
  forcing power: 1.e3 m^2 s^-3
  time step: 1.e-5 s
"""
MASK = """
HydroMask:
  type: RescaledIC
  center: [0.25 m, 0.5 m, 0.5 m]
  radius: 0.2 m
  delta t: 1.e-4 s
"""


def configurations(tier, rng):
    cfgs = []
    base = dict(total_time=1.0, gamma=5. / 3.)
    # geometry classes: dyadic / non-dyadic side with a non power-of-two number of cells per subgrid / anisotropic
    cfgs.append(("dyadic", dict(base, ncell=(8, 8, 8), nsub=(2, 2, 2), periodic=(True, True, True), side=(1., 1., 1.))))
    # total times that are not powers of two: the integer time line <-> physical time conversion is then inexact, a dump
    # that stores a converted time does not restore the integer time
    cfgs.append(("nondyadic", dict(base, total_time=0.7, ncell=(12, 12, 12), nsub=(2, 2, 2), periodic=(True, True, True),
                                   side=(0.7, 0.7, 0.7))))
    cfgs.append(("aniso_walls", dict(base, total_time=1.3, ncell=(6, 12, 9), nsub=(1, 2, 3), periodic=(False, True, False),
                                     side=(0.9, 1.3, 0.35), anchor=(0.1, -0.7, 3.3))))
    cfgs.append(("turbulence", dict(base, ncell=(8, 8, 8), nsub=(2, 2, 2), periodic=(True, True, True), side=(1., 1., 1.),
                                    extra="  turbulent forcing: true\n" + TURB)))
    cfgs.append(("turbulence_aniso", dict(base, total_time=1. / 3., ncell=(8, 12, 16), nsub=(2, 2, 2), periodic=(True, True, True), side=(1., 1., 1.),
                                          extra="  turbulent forcing: true\n" + TURB)))
    # an evolving source: a supernova that goes off during the first step (its "has exploded" state has to survive a restart,
    # otherwise the energy is injected again)
    cfgs.append(("supernova", dict(base, ncell=(8, 8, 8), nsub=(2, 2, 2), periodic=(False, False, False), side=(1., 1., 1.),
                                   extra="  do stellar feedback: true\n",
                                   source_block="PhotonSourceDistribution:\n  type: SingleSupernova\n  position: [0.4 m, 0.6 m, 0.55 m]\n"
                                                "  lifetime: 1.e-12 s\n  luminosity: 1.e46 s^-1\n  energy: 1.e-9 J\n")))
    cfgs.append(("mask", dict(base, total_time=0.77, ncell=(8, 8, 8), nsub=(2, 2, 2), periodic=(False, False, False), side=(1., 1., 1.),
                              extra="  use mask: true\n" + MASK)))
    # external gravity: the accelerations are cell state (computed from the potential, dumped with the hydro variables)
    cfgs.append(("gravity", dict(base, total_time=0.9, ncell=(8, 8, 8), nsub=(2, 2, 2), periodic=(False, True, False), side=(1., 1., 1.),
                                 extra="  external gravity: true\n\nExternalPotential:\n  type: PointMass\n"
                                       "  position: [0.45 m, 0.5 m, 0.55 m]\n  mass: 1.e13 kg\n")))
    if tier != "quick":
        cfgs.append(("single", dict(base, ncell=(10, 10, 10), nsub=(1, 1, 1), periodic=(True, False, True),
                                    side=(0.3, 0.3, 0.3))))
        cfgs.append(("gamma14", dict(base, ncell=(12, 8, 8), nsub=(3, 2, 1), periodic=(False, False, True),
                                     side=(1.1, 0.6, 0.9), gamma=1.4)))
        # seeded geometries: odd cell counts, sides that are not representable, all periodicity patterns, optional
        # components in combination
        shapes = [(6, 10, 14), (9, 6, 12), (10, 10, 5), (15, 4, 8), (7, 7, 7), (12, 18, 6)]
        subs = {6: (1, 2, 3), 10: (1, 2, 5), 14: (1, 2, 7), 9: (1, 3), 12: (1, 2, 3, 4), 5: (1, 5), 15: (1, 3, 5), 4: (1, 2, 4), 8: (1, 2, 4),
                7: (1, 7), 18: (1, 2, 3), }
        for j in range(14):
            nc = rng.choice(shapes)
            ns = tuple(rng.choice(subs[v]) for v in nc)
            if ns[0] * ns[1] * ns[2] > 24:
                continue
            per = tuple(rng.random() < 0.5 for _ in range(3))
            side = tuple(round(rng.uniform(0.2, 1.7), 3) for _ in range(3))
            extra = ""
            if all(per) and rng.random() < 0.5:
                extra += "  turbulent forcing: true\n"
            if rng.random() < 0.4:
                extra += "  use mask: true\n"
            blocks = (TURB if "turbulent" in extra else "") + \
                (MASK.replace("[0.25 m, 0.5 m, 0.5 m]", "[%r m, %r m, %r m]" % (0.3 * side[0], 0.5 * side[1], 0.5 * side[2]))
                     .replace("radius: 0.2 m", "radius: %r m" % (0.18 * min(side))) if "mask" in extra else "")
            cfgs.append(("seeded%d" % j, dict(base, total_time=rng.choice([1.0, 0.7, 1.3, 1. / 3., 3.15576e-3]), ncell=nc, nsub=ns, periodic=per, side=side, gamma=rng.choice([5. / 3., 1.4, 1.1]),
                                              extra=extra + blocks)))
    return cfgs


def run(c):
    tier = c.tier
    rng = random.Random(c.seed)
    rd = c.rd.path
    exe = hydrolib.driver()
    N = 5 if tier == "quick" else 10
    chains = [[1, 2, 3], [2, 4]] if tier == "quick" else [[1, 2, 3], [2, 4], [3, 6, 9], [1, 5, 6, 7], [1, 2, 3, 4, 5, 6, 7, 8, 9], [4, 5], [9]]
    cfgs = configurations(tier, rng)

    def job(item):
        name, pkw = item
        pkw = dict(pkw)
        frng = random.Random(c.seed * 7 + len(name))
        pkw["blocks"] = hydrolib.random_blocks(frng, pkw.get("side", (1., 1., 1.)), pkw.get("anchor", (0., 0., 0.)), "calm")
        return name, histories(exe, rd, name, pkw, N, chains)

    with ThreadPoolExecutor(max_workers=6) as ex:
        results = list(ex.map(job, cfgs))

    for name, (recs, info) in results:
        p = os.path.join(rd, "restart_%s.ndjson" % name)
        vlib.write_ndjson(p, recs)
        st, r = vlib.validate_trace("Trace_RestartRun.tla", "Trace_RestartRun.cfg", p, rd, tag="rr_" + name, dfs=False)
        nh = sum(1 for x in recs if x["e"] == "hist")
        nrestart = sum(1 for x in recs if x["e"] == "hist" and x["from"] >= 0)
        c.add_case(name, nontrivial=True)
        c.cov["evaluations"] += nh - 1
        if st == "error":
            raise vlib.Inconclusive("TLC error on restart histories of %s:\n%s" % (name, r.out[-2000:]))
        if st == "accepted":
            c.cov["traces_validated_against_impl"] += nh
        else:
            import re
            m = re.findall(r"/\\ l = (\d+)", r.out)
            pos = int(m[-1]) - 1 if m else getattr(r, "maxl", None)
            keep = c.replay_path("restart_%s.ndjson" % name)
            shutil.copy(p, keep)
            hist = None
            for x in recs[:pos or 0]:
                if x["e"] == "hist":
                    hist = x
            badrec = recs[pos - 1] if pos and pos <= len(recs) else None
            if badrec and badrec.get("e") == "layout":
                w, rr = badrec["w"], badrec["r"]
                i = next((i for i in range(min(len(w), len(rr))) if w[i] != rr[i]), min(len(w), len(rr)))
                badrec = {"e": "layout", "subgrids_in_memory_when_dumped": badrec.get("nsubw"), "subgrids_after_restart": badrec.get("nsubr"),
                          "first_difference_at_run": i, "written [class,size,count]": w[max(0, i - 2):i + 3],
                          "read": rr[max(0, i - 2):i + 3], "runs_written": len(w), "runs_read": len(rr)}
            c.violation("restart:%s:config=%s" % (st, name),
                        "histories of configuration %s violate Layer A (%s) at record %s of history %s" % (
                            name, st, badrec, hist),
                        {"trace": keep, "history": hist, "commands": [i for i in info if hist and i[0] == hist["h"]]})
        if name == "dyadic":
            c.sample({"configuration": name, "records": recs[:10]})
        vlib.log("%s: %d histories (%d restarts), N=%d: %s" % (name, nh, nrestart, N, st))

    # self-test: a history whose continuation differs in one digest
    recs = [x for x in results[0][1][0]]
    i = max(j for j, x in enumerate(recs) if x["e"] == "step")
    bad = recs[:i] + [dict(recs[i], d="0" * 16)] + recs[i + 1:]
    p = os.path.join(rd, "self.ndjson")
    vlib.write_ndjson(p, bad)
    st, r = vlib.validate_trace("Trace_RestartRun.tla", "Trace_RestartRun.cfg", p, rd, tag="self", dfs=False)
    if not st.startswith("violated:"):
        raise vlib.Inconclusive("self-test failed: changed digest gave %s" % st)
    c.cov["selftest"] = "history with one changed state digest rejected (%s)" % st
    c.cov["rule"] = ("per configuration: stop after every step k < N and restart (N = %d), chains %s; all with one thread, "
                     "pure hydro, dump after every step" % (N, chains))
    c.cov["exhaustive"] = False
    c.cov["explanation"] = "every stop point 1..N-1 for each configuration; configurations are a fixed list of geometry classes/components"
    c.assumptions += ["state digest = conserved + primitive hydro variables and ionization variables of every cell; dump digest = "
                      "all bytes of restart.dump except the four leading timers and the stored restart-generator seed",
                      "moving source distributions and live output are not part of the configurations",
                      "component-level write/read/write round trips are covered through the system-level dump comparison "
                      "(DumpIdempotent), not class by class"]


def build():
    hydrolib.driver()


def replay(path):
    obj = json.load(open(path))
    rd = vlib.RunDir("C09r")
    st, r = vlib.validate_trace("Trace_RestartRun.tla", "Trace_RestartRun.cfg", obj["replay"]["trace"], rd.path, dfs=False)
    print("trace %s: %s" % (obj["replay"]["trace"], st))
    rd.cleanup()
    return 0 if st == "accepted" else 1
