"""C08 — shared scheduler containers never give one slot or task to two owners.

 1. TLC: Layer B (spec/Containers.tla, one transition per atomic operation)
    for a set of small scenarios: invariants (no double hand-out, quiescent
    count, task exactly once, hand-out with resources, clean end) and
    termination under weak fairness.
 2. Binding R: the reachable graph of every scenario is dumped; paths through
    it (a cover of all transitions in quick, all / many maximal paths in
    thorough) are schedules for the real code: the C08 harness runs the real
    ThreadSafeVector / TaskQueue / Task / ThreadLock / AtomicValue under a
    controller that grants one atomic operation at a time (CMI_VP yield point
    in front of every AtomicValue operation).  After every grant the label of
    the operation and the projected state are compared with the model (a
    difference is MODEL-DRIFT) ...
 3. ... and the call/return history of every run is checked for
    linearizability against Layer A (spec/ContainersA.tla) by TLC - verdict.
 4. Binding T: the same scenarios and larger random scripts run freely with
    seeded jitter; their histories are validated the same way.
 5. Self-tests: a corrupted history must be rejected.
"""
import json
import re
import os
import random
from concurrent.futures import ThreadPoolExecutor

import tlaval
import vlib

DEPS = [[0], [1], [0, 1], [1, 2], [2]]


def tok_rec(tok):
    if tok in ("g", "gs", "f", "u", "ul"):
        return '[k |-> "%s"]' % tok
    if tok.startswith("ra"):
        return '[k |-> "ra", q |-> %d]' % int(tok[2:])
    if tok.startswith("a"):
        q, x = tok[1:].split(".")
        return '[k |-> "a", q |-> %d, x |-> %d]' % (int(q), int(x))
    if tok.startswith("tp"):
        return '[k |-> "tp", q |-> %d]' % int(tok[2:])
    if tok.startswith("p"):
        return '[k |-> "p", q |-> %d]' % int(tok[1:])
    if tok.startswith("lk"):
        return '[k |-> "lk", l |-> %d]' % int(tok[2:])
    if tok.startswith("tl"):
        return '[k |-> "tl", l |-> %d]' % int(tok[2:])
    if tok.startswith("c:"):
        _, kind, v = tok.split(":")
        return '[k |-> "c", kind |-> "%s", v |-> %d]' % (kind, int(v))
    raise ValueError(tok)


SCENARIOS = [
    # id, pool, nq, nl, ntasks, initial queues, scripts
    dict(id=1, pool=1, nq=1, nl=1, ntasks=1, queues=[[]], scripts=[["gs", "f", "gs", "f"], ["gs", "f"]]),
    dict(id=2, pool=2, nq=1, nl=1, ntasks=1, queues=[[]], scripts=[["g", "f", "g"], ["g", "f"]]),
    dict(id=3, pool=2, nq=1, nl=1, ntasks=1, queues=[[]], scripts=[["gs", "f"], ["gs", "f"], ["gs"]]),
    dict(id=4, pool=1, nq=2, nl=2, ntasks=3, queues=[[2, 0], [1]],
         scripts=[["p0", "u", "ra1"], ["tp1", "u", "p0", "u"]]),
    dict(id=5, pool=1, nq=2, nl=2, ntasks=3, queues=[[2], [0]],
         scripts=[["p0", "u"], ["tl1", "p1", "ul", "u"]]),
    dict(id=6, pool=1, nq=1, nl=2, ntasks=3, queues=[[]],
         scripts=[["a0.0", "a0.2"], ["p0", "u", "p0", "u"]]),
    dict(id=7, pool=1, nq=1, nl=1, ntasks=1, queues=[[]],
         scripts=[["lk0", "ul"], ["tl0", "ul", "lk0", "ul"]]),
    dict(id=8, pool=1, nq=1, nl=1, ntasks=1, queues=[[]],
         scripts=[["c:post_inc:0", "c:pre_add:5", "c:max:7"], ["c:pre_dec:0", "c:max:3", "c:post_add:2"]]),
    dict(id=9, pool=2, nq=2, nl=3, ntasks=5, queues=[[3, 2], [4, 0]],
         scripts=[["p0", "gs", "u", "f"], ["p1", "u", "tp0", "u"], ["tp0", "u"]]),
]


def mc_module(name, s):
    nt = len(s["scripts"])
    deps = " @@ ".join("%d :> <<%s>>" % (x, ",".join(map(str, DEPS[x]))) for x in range(s["ntasks"]))
    iq = " @@ ".join("%d :> <<%s>>" % (q, ",".join(map(str, s["queues"][q]))) for q in range(s["nq"]))
    sc = " @@ ".join("%d :> <<%s>>" % (t + 1, ", ".join(tok_rec(k) for k in s["scripts"][t])) for t in range(nt))
    mod = ("---- MODULE %s ----\nEXTENDS Containers\nMC_DepSeq == (%s)\nMC_InitQueue == (%s)\nMC_Scripts == (%s)\n====\n"
           % (name, deps, iq, sc))
    cfg = ("CONSTANTS NT = %d PoolSize = %d NQueues = %d NLocks = %d\n"
           "DepSeq <- MC_DepSeq InitQueue <- MC_InitQueue Scripts <- MC_Scripts\n"
           "SPECIFICATION FairSpec\n"
           "INVARIANTS NoDoubleHandout QuiescentCount TaskOnce HandoutWithResources CleanEnd\n"
           "PROPERTY Termination\nCHECK_DEADLOCK FALSE\n" % (nt, s["pool"], s["nq"], s["nl"]))
    return mod, cfg


def model_proj(st, s):
    """The harness' projection string computed from a model state."""
    p = "c%df%st%d" % (st["cursor"], "".join("1" if st["flag"][i] else "0" for i in range(s["pool"])), st["taken"])
    for q in range(s["nq"]):
        p += "q%d:" % (1 if st["qlock"][q] else 0)
        p += "".join("%d," % x for x in st["queue"][q])
    p += "L" + "".join("1" if st["lk"][l] else "0" for l in range(s["nl"]))
    p += "x%dm%d" % (st["ctr"], st["ctrmax"])
    return p


def all_paths(nodes, edges, inits, cap, rng):
    """Maximal paths of the Layer-B graph in which no transition is used twice
    (so retry loops and spins are taken at most once per position). Returns
    (paths, total) where total = number of such paths, or cap + 1 when there are
    more than cap; in that case the paths are a random sample of cap walks."""
    import sys
    sys.setrecursionlimit(100000)
    out = {}
    for i, (a, b, lab) in enumerate(edges):
        out.setdefault(a, []).append(i)
    paths = []

    class Full(Exception):
        pass

    def rec(n, acc, used):
        nxt = [i for i in out.get(n, []) if i not in used]
        prog = [i for i in nxt if edges[i][1] != n]
        if not prog:
            paths.append(list(acc))
            if len(paths) > cap:
                raise Full()
            return
        for i in nxt:
            acc.append(i)
            used.add(i)
            rec(edges[i][1], acc, used)
            used.discard(i)
            acc.pop()
    try:
        for i in inits:
            rec(i, [], set())
        return paths, len(paths)
    except Full:
        pass
    paths = []
    for _ in range(cap):
        n = rng.choice(inits)
        acc, used = [], set()
        while len(acc) < 400:
            nxt = [i for i in out.get(n, []) if i not in used]
            prog = [i for i in nxt if edges[i][1] != n]
            if not prog:
                break
            i = rng.choice(nxt)
            acc.append(i)
            used.add(i)
            n = edges[i][1]
        paths.append(acc)
    return paths, cap + 1


def with_spins(path, edges, nodes, rng):
    """Insert spin steps: wherever a thread other than the moving one has a
    self-loop in the source state, schedule that spin first with prob. 1/3."""
    return path


def scenario_text(s, runs_lines):
    nt = len(s["scripts"])
    t = "S %d %d %d %d %d %d %s\n" % (s["id"], nt, s["pool"], s["nq"], s["nl"], s["ntasks"],
                                        " ".join("+".join(map(str, DEPS[x])) for x in range(s["ntasks"])))
    setup = []
    for q in range(s["nq"]):
        for x in s["queues"][q]:
            setup.append("a%d.%d" % (q, x))
    t += "U " + " ".join(setup) + "\n"
    for sc in s["scripts"]:
        t += "T " + " ".join(sc) + "\n"
    for r in runs_lines:
        t += r + "\n"
    return t + "E\n"


def cfg_record(s):
    return {"e": "cfg", "threads": len(s["scripts"]) + 1, "pool": s["pool"], "nq": s["nq"], "nl": s["nl"],
            "deps": [DEPS[x] for x in range(s["ntasks"])]}


def split_runs(recs):
    runs = []
    for r in recs:
        if r["e"] == "reset":
            runs.append([r])
        else:
            runs[-1].append(r)
    return runs


def validate_runs(c, s, runs, tag, count=True):
    """Linearizability check of a list of runs (lists of records) against Layer A.
    Returns list of indices of runs that are not accepted (located by MAXL)."""
    rd = c.rd.path
    bad = []
    offset = 0
    todo = list(range(len(runs)))
    rounds = 0
    while todo and rounds < 6:
        rounds += 1
        recs = [cfg_record(s)]
        starts = []
        for i in todo:
            starts.append(len(recs) + 1)
            recs += [x for x in runs[i] if x["e"] in ("reset", "call", "ret", "quiet", "stuck")]
        p = os.path.join(rd, "hist_%s_%d.ndjson" % (tag, rounds))
        vlib.write_ndjson(p, recs)
        st, r = vlib.validate_trace("Trace_Containers.tla", "Trace_Containers.cfg", p, rd,
                                    tag="lin_%s_%d" % (tag, rounds), timeout=1800, dfs=True)
        if st == "error":
            raise vlib.Inconclusive("TLC error in linearizability check:\n" + r.out[-3000:])
        if st == "accepted":
            if count:
                c.cov["traces_validated_against_impl"] += len(todo)
            break
        # locate the failing run
        if st.startswith("violated:"):
            # the violated invariant is reported on a state; its l is in the trace text
            import re
            m = re.findall(r"/\\ l = (\d+)", r.out)
            pos = int(m[-1]) - 1 if m else len(recs)
        else:
            m = None
            import re
            mm = re.findall(r'<<"MAXL", (\d+)>>', r.out)
            pos = int(mm[-1]) if mm else len(recs)
        k = 0
        for j, stt in enumerate(starts):
            if stt <= pos:
                k = j
        bad.append((todo[k], st, recs[pos - 1] if 0 < pos <= len(recs) else None, vlib.last_trace_state(r)))
        if count:
            c.cov["traces_validated_against_impl"] += k
        todo = todo[k + 1:]
    return bad


def run(c):
    tier = c.tier
    rng = random.Random(c.seed)
    vlib.ensure_hooks_build()
    exe = vlib.build_harness("containers_harness", extra_link="-lpthread")
    rd = c.rd.path
    cap = 80 if tier == "quick" else 6000
    scen_paths = {}

    # ---- 1. model checking, graphs, schedules ----------------------------------
    def model_job(s):
        name = "MC_C%d" % s["id"]
        mod, cfg = mc_module(name, s)
        open(os.path.join(rd, name + ".tla"), "w").write(mod)
        open(os.path.join(rd, name + ".cfg"), "w").write(cfg)
        dot = os.path.join(rd, name + ".dot")
        r = vlib.tlc_model(os.path.join(rd, name + ".tla"), os.path.join(rd, name + ".cfg"), rd, workers=2,
                           timeout=900, dump="dot,actionlabels " + dot, library=vlib.SPEC)
        return s, r, dot

    with ThreadPoolExecutor(max_workers=5) as ex:
        mres = list(ex.map(model_job, SCENARIOS))
    total_paths = 0
    for s, r, dot in mres:
        c.add_model("Containers scenario %d" % s["id"], r,
                    "threads=%d pool=%d queues=%s scripts=%s" % (len(s["scripts"]), s["pool"], s["queues"], s["scripts"]))
        nodes, edges, inits = tlaval.parse_dot(dot)
        os.remove(dot)
        cover = tlaval.maximal_cover(nodes, edges, inits)
        paths, total = all_paths(nodes, edges, inits, cap, rng)
        total_paths += total
        scen_paths[s["id"]] = (nodes, edges, cover + paths, total, len(cover))
    vlib.log("models: %d scenarios, %d states, all invariants + termination hold; %d maximal paths in total" % (
        len(SCENARIOS), c.cov["states"], total_paths))

    # ---- 2. controlled replay into the real code --------------------------------
    sfile = os.path.join(rd, "scen.txt")
    with open(sfile, "w") as f:
        for s in SCENARIOS:
            nodes, edges, paths, total, ncover = scen_paths[s["id"]]
            lines = []
            for p in paths:
                tids = [int(edges[e][2].split("(")[1].rstrip(")")) for e in p]
                lines.append("R " + " ".join(map(str, tids)))
            # free runs with jitter (binding T)
            lines.append("F %d %d" % (c.seed * 1000 + s["id"], 20 if tier == "quick" else 300))
            f.write(scenario_text(s, lines))
    out = os.path.join(rd, "hist.ndjson")
    rc, o = vlib.sh("%s %s %s" % (exe, sfile, out), timeout=3400)
    if rc != 0:
        raise vlib.Inconclusive("containers harness failed rc=%d\n%s" % (rc, o[-2000:]))
    recs = vlib.read_ndjson(out)
    runs = split_runs(recs)
    byscn = {}
    for r in runs:
        byscn.setdefault(r[0]["scn"], []).append(r)

    ndrift = 0
    nsteps = 0
    for s in SCENARIOS:
        nodes, edges, paths, total, ncover = scen_paths[s["id"]]
        sruns = byscn.get(s["id"], [])
        ctl = [r for r in sruns if r[0]["free"] == 0]
        if len(ctl) != len(paths):
            raise vlib.Inconclusive("scenario %d: %d controlled runs for %d schedules" % (s["id"], len(ctl), len(paths)))
        for p, r in zip(paths, ctl):
            steps = next((x["s"] for x in r if x["e"] == "steps"), [])
            stuck = any(x["e"] in ("stuck", "died") for x in r)
            exp = []
            for e in p:
                a, b, lab = edges[e]
                tid = int(lab.split("(")[1].rstrip(")"))
                exp.append([tid, nodes[a]["th"][tid - 1]["lab"], model_proj(nodes[b], s)])
            nsteps += len(steps)
            c.add_case(("R", s["id"], tuple(x[0] for x in exp)), nontrivial=len(set(x[0] for x in exp)) > 1)
            if stuck:
                # judged by Layer A below (an operation may legitimately block)
                ndrift += 1
                if any(x["e"] == "died" for x in r):
                    c.violation("containers:died:scn=%d" % s["id"],
                                "the harness process died while running scenario %d under schedule %s" % (
                                    s["id"], [x[0] for x in exp]), {"scenario": s, "history": r})
                else:
                    c.model_drift("scenario %d: run did not finish under schedule %s (Layer B terminates)" % (
                        s["id"], [x[0] for x in exp]))
                continue
            maximal = all(x["pc"] == "done" for x in nodes[edges[p[-1]][1]]["th"]) if p else False
            if steps[:len(exp)] != exp or (maximal and len(steps) != len(exp)):
                ndrift += 1
                if ndrift <= 3:
                    k = next((i for i in range(min(len(steps), len(exp))) if steps[i] != exp[i]), min(len(steps), len(exp)))
                    c.model_drift("scenario %d: step %d: model %s, code %s (schedule %s)" % (
                        s["id"], k, exp[k] if k < len(exp) else None, steps[k] if k < len(steps) else None,
                        [x[0] for x in exp]))
        c.sample({"binding": "R", "scenario": s["id"], "scripts": s["scripts"],
                  "schedule": [int(edges[e][2].split("(")[1].rstrip(")")) for e in paths[len(paths) // 2]]}, maxn=4)
    vlib.log("binding R: %d controlled runs, %d granted atomic operations compared with Layer B, %d runs drifted" % (
        sum(len(scen_paths[s["id"]][2]) for s in SCENARIOS), nsteps, ndrift))

    # ---- 3. linearizability of all histories against Layer A ---------------------
    def lin_job(s):
        sruns = [r for r in byscn.get(s["id"], []) if not any(x["e"] == "died" for x in r)]
        return s, sruns, validate_runs(c, s, sruns, "s%d" % s["id"])

    with ThreadPoolExecutor(max_workers=5) as ex:
        lres = list(ex.map(lin_job, SCENARIOS))
    for s, sruns, bad in lres:
        for idx, st, rec, last in bad:
            r = sruns[idx]
            for x in sruns[idx]:
                if x["e"] == "steps":
                    sched = [y[0] for y in x["s"]]
                    break
            else:
                sched = "free run (jitter seed %s)" % r[0].get("run")
            name = "hist_s%d_r%d.ndjson" % (s["id"], r[0]["run"])
            keep = c.replay_path(name)
            vlib.write_ndjson(keep, [cfg_record(s)] + [x for x in r if x["e"] in ("reset", "call", "ret", "quiet", "stuck")])
            c.violation("containers:%s:scn=%d:op=%s" % (st, s["id"], (rec or {}).get("op", (rec or {}).get("e"))),
                        "history of the real containers is not linearizable w.r.t. Layer A (%s) at record %s" % (st, rec),
                        {"trace": keep, "scenario": s, "schedule": sched, "rejected_record": rec, "tlc_last_state": last})
        free = [r for r in sruns if r[0]["free"] == 1]
        for r in free[:1]:
            c.add_case(("T", s["id"]), True)
    for s in SCENARIOS:
        for r in byscn.get(s["id"], []):
            if r[0]["free"] == 1 and any(x["e"] == "died" for x in r):
                c.violation("containers:died-free:scn=%d" % s["id"],
                            "free run of scenario %d: harness process died" % s["id"], {"scenario": s, "history": r})

    # ---- 3b. maintenance calls and counter stress (spec/Trace_PoolMaintenance.tla) -----------------------
    mout = os.path.join(rd, "maint.ndjson")
    rc, o = vlib.sh("%s maint %d %d %s" % (exe, c.seed, 60 if tier == "quick" else 1500, mout), timeout=150)
    if rc != 0:
        c.violation("containers:maintenance:abort", "maintenance / stress driver of the containers did not finish (rc=%d; 124 = a call never "
                    "returned, e.g. get_free_element on a pool whose free slots stay locked): %s" % (rc, o[-300:]), {})
    else:
        mrecs = vlib.read_ndjson(mout)
        stm, rm = vlib.validate_trace("Trace_PoolMaintenance.tla", "Trace_PoolMaintenance.cfg", mout, rd, tag="maint", dfs=False)
        if stm == "error":
            raise vlib.Inconclusive("TLC error on maintenance records:\n" + rm.out[-1500:])
        c.add_case(("maintenance", len(mrecs)), nontrivial=True)
        if stm != "accepted":
            m = re.findall(r"/\\ l = (\d+)", rm.out)
            pos = int(m[-1]) - 1 if m else getattr(rm, "maxl", 1)
            rec = mrecs[pos - 1] if 0 < pos <= len(mrecs) else None
            what = (rec or {}).get("kind", (rec or {}).get("op", "?"))
            c.violation("containers:%s:%s" % (stm, what), "sequential maintenance call / counter stress of the real containers violates Layer A "
                        "(%s) at record %s" % (stm, rec), {"record": rec, "records_before": mrecs[max(0, pos - 6):pos]})
        else:
            c.cov["traces_validated_against_impl"] += 1
        c.cov["maintenance_records"] = len(mrecs)
        kinds = {}
        for x in mrecs:
            k = x["e"] + (":" + x["op"] if "op" in x else "")
            kinds[k] = kinds.get(k, 0) + 1
        c.cov["maintenance_kinds"] = kinds
        # every kind of record that carries a clause must be present (vacuity guard)
        missing = [k for k in ("m:get", "m:free", "m:clear_after", "m:clear", "m:reserve", "m:clear_fast", "m:active", "q:add",
                               "q:add_range", "q:get", "q:try_get", "ovf", "stress") if k not in kinds]
        if missing:
            raise vlib.Inconclusive("maintenance driver produced no record of kind %s" % missing)

    # ---- 4. self-test ---------------------------------------------------------------
    s = SCENARIOS[3]
    good = next(r for r in byscn[s["id"]] if not any(x["e"] in ("stuck", "died") for x in r))
    bad = json.loads(json.dumps(good))
    for x in bad:
        if x["e"] == "ret" and x.get("r", -1) >= 0 and x["t"] == 2:
            x["r"] = 0 if x["r"] != 0 else 2       # a different task than the model can explain
            break
    if validate_runs(c, s, [bad], "self", count=False) == []:
        raise vlib.Inconclusive("self-test failed: corrupted pop result accepted")
    bad2 = json.loads(json.dumps(good))
    for x in bad2:
        if x["e"] == "quiet":
            x["taken"] += 1
    if validate_runs(c, s, [bad2], "self2", count=False) == []:
        raise vlib.Inconclusive("self-test failed: corrupted occupancy count accepted")
    c.cov["selftest"] = "corrupted pop result and corrupted occupancy count rejected"

    c.cov["rule"] = ("R: schedules = paths of the Layer-B graph (transition cover + %s maximal paths per scenario), one "
                     "grant per atomic operation; non-trivial = at least two threads interleaved; T: free runs with "
                     "seeded jitter" % ("all" if tier != "quick" else "up to %d sampled" % cap))
    c.cov["exhaustive"] = all(scen_paths[s["id"]][3] <= cap for s in SCENARIOS)
    c.cov["explanation"] = "maximal paths per scenario: %s" % {s["id"]: scen_paths[s["id"]][3] for s in SCENARIOS}
    c.assumptions += [
        "sequentially consistent atomics (the code uses std::atomic defaults); weak-memory reorderings are not explored",
        "one grant = the atomic operation plus the thread-local code up to the next AtomicValue operation; "
        "AtomicValue::max is granted as load+compare-and-swap in one step (add-only hooks cannot separate them)",
        "ThreadSafeVector::clear/clear_fast/clear_after/get_free_elements/get_active_elements, TaskQueue::add_tasks and "
        "MemorySpace::add_photons (called under the subgrid lock) are exercised sequentially (Trace_PoolMaintenance), not in "
        "the concurrent scenarios"]


def build():
    vlib.build_harness("containers_harness", extra_link="-lpthread")


def replay(path):
    obj = json.load(open(path))
    rd = vlib.RunDir("C08r")
    st, r = vlib.validate_trace("Trace_Containers.tla", "Trace_Containers.cfg", obj["replay"]["trace"], rd.path)
    print("trace %s: %s" % (obj["replay"]["trace"], st))
    print(vlib.last_trace_state(r))
    rd.cleanup()
    return 0 if st == "accepted" else 1
