"""C14 — restart dumps are rotated safely; the last good dump is never destroyed.

 1. TLC: RestartRotation (Layer B = get_restart_writer + dump, with Crash and
    optional clean process restarts) satisfies the Layer-A operators of
    RotationProps, for MaxBackups 0..N and up to 20 dumps.
 2. Binding R/E: every Crash transition of the Layer-B graph (and every idle
    state) is turned into a scenario (script of dumps / process restarts, named
    crash point, passage count) that is executed by the real RestartManager /
    RestartWriter in a forked child; the directory found afterwards is compared
    with the model's (drift if different) ...
 3. Binding T: ... and every scenario's record stream is validated by TLC
    against Layer A (Trace_RestartRotation) - this gives the verdict.
"""
import json
import os
import re

import tlaval
import vlib

NPARTS = 3


def cfg_text(maxb, nd, rule="fixed", pr=0, inv=True, init="probe", cr=0, shift="whenCurrent"):
    t = ('CONSTANTS MaxBackups = %d NDumps = %d NParts = %d StartRule = "%s" ProcRestarts = %d InitRule = "%s"\n'
         'CrashRestarts = %d ShiftRule = "%s"\n'
         'SPECIFICATION Spec\nCHECK_DEADLOCK FALSE\n' % (maxb, nd, NPARTS, rule, pr, init, cr, shift))
    if inv:
        t += "INVARIANTS NeverAborts AfterDump CrashSafe BackupsComplete CountersOK\n"
    return t


def scenario_of_path(nodes, edges, path):
    """Translate a Layer-B path into (script, crashpoint, at, expected fs)."""
    script = ""
    cnt = {"dump.begin": 0, "shift.after": 0, "move.before": 0, "move.after": 0, "open.before": 0,
           "open.after": 0, "write": 0, "close.before": 0, "close.after": 0}
    lastpt = None
    for e in path:
        a, b, lab = edges[e]
        src, dst = nodes[a], nodes[b]
        act = lab.split("(")[0]
        if act == "Begin":
            script += "d"
            cnt["dump.begin"] += 1
            lastpt = "dump.begin"
        elif act == "ProcRestart":
            script += "p"
        elif act == "ShiftOne":
            cnt["shift.after"] += 1
            lastpt = "shift.after"
        elif act == "ShiftDone":
            if dst["pc"] == "move":
                cnt["move.before"] += 1
                lastpt = "move.before"
            else:
                cnt["open.before"] += 1
                lastpt = "open.before"
        elif act == "MoveCurrent":
            cnt["move.after"] += 1
            cnt["open.before"] += 1
            lastpt = "move.after"
        elif act == "OpenTrunc":
            if src["pc"] == "open" and lastpt == "dump.begin":
                cnt["open.before"] += 1      # MaxBackups = 0: Begin leads straight to open
            cnt["open.after"] += 1
            lastpt = "open.after"
        elif act == "WritePart":
            cnt["write"] += 1
            lastpt = "write"
        elif act == "Close":
            cnt["close.before"] += 1
            cnt["close.after"] += 1
            lastpt = "close.after"
        elif act == "Crash":
            return script, lastpt, cnt[lastpt], dst["fs"]
    return script, "-", 0, nodes[edges[path[-1]][1]]["fs"]


def fs_of_files(files, maxb):
    d = {}
    for f in files:
        # the version of an incomplete file is meaningless (nothing may have
        # reached the disk yet): compare completeness only
        d[f["n"]] = (f["v"], True) if f["c"] else (0, False)
    return d


def fs_of_model(fs):
    d = {}
    for n, f in fs.items():
        if f["ver"] != 0:
            d[n] = (f["ver"], True) if f["complete"] else (0, False)
    return d


def run(c):
    tier = c.tier
    vlib.ensure_hooks_build()
    exe = vlib.build_harness("rotation_harness")
    rd = c.rd.path
    maxes = [0, 1, 2, 3] if tier == "quick" else list(range(0, 9))
    scen = []   # (maxb, script, crash, at, expected_fs, proc_restart?)

    def ndumps_for(m):
        return m + 3 if tier == "quick" else min(20, m + 12)

    # ---- 1. model checking + scenario generation ----------------------------
    for m in maxes:
        nd = ndumps_for(m)
        cfg = os.path.join(rd, "RR_%d.cfg" % m)
        open(cfg, "w").write(cfg_text(m, nd))
        dot = os.path.join(rd, "RR_%d.dot" % m)
        r = vlib.tlc_model("RestartRotation.tla", cfg, rd, workers=2, timeout=600,
                           must_take=("Begin", "OpenTrunc", "Close", "Crash") +
                           (("ShiftOne", "MoveCurrent") if m >= 2 else ()),
                           dump="dot,actionlabels " + dot)
        c.add_model("RestartRotation", r, "MaxBackups=%d NDumps=%d NParts=%d fixed rule" % (m, nd, NPARTS))
        nodes, edges, inits = tlaval.parse_dot(dot)
        crash_edges = [i for i, e in enumerate(edges) if e[2].startswith("Crash")]
        paths = tlaval.transition_cover(nodes, edges, inits, edge_filter=lambda i: edges[i][2].startswith("Crash"))
        for p in paths:
            s, pt, at, fs = scenario_of_path(nodes, edges, p)
            scen.append((m, s, pt, at, fs_of_model(fs), False))
        # the crash-free run of all dumps
        scen.append((m, "d" * nd, "-", 0, None, False))
        os.remove(dot)
    # process restarts: a new RestartManager probes the folder (InitRule "probe", fix of the former known finding);
    # Layer B now satisfies Layer A here too.  The scenarios are generated from the graph and the real code is
    # judged on them
    for m in ([1, 2, 3] if tier == "quick" else [1, 2, 3, 4, 5]):
        nd = (5 if m >= 3 else 4) if tier == "quick" else 6
        cfg = os.path.join(rd, "RRp_%d.cfg" % m)
        open(cfg, "w").write(cfg_text(m, nd, pr=1, inv=True))
        dot = os.path.join(rd, "RRp_%d.dot" % m)
        r = vlib.tlc_model("RestartRotation.tla", cfg, rd, workers=2, timeout=600, coverage=False,
                           dump="dot,actionlabels " + dot)
        c.add_model("RestartRotation with process restart", r,
                    "MaxBackups=%d NDumps=%d ProcRestarts=1" % (m, nd))
        nodes, edges, inits = tlaval.parse_dot(dot)
        paths = tlaval.transition_cover(nodes, edges, inits, edge_filter=lambda i: edges[i][2].startswith("Crash"))
        for p in paths:
            s, pt, at, fs = scenario_of_path(nodes, edges, p)
            if "p" in s:
                scen.append((m, s, pt, at, fs_of_model(fs), True))
        scen.append((m, "ddpdd", "-", 0, None, True))
        # a restart in a folder that already holds several backups (the new manager has to count all of them)
        scen.append((m, "dddd" + "pdd", "-", 0, None, True))
        scen.append((m, "ddddd" + "pd" + "pd", "-", 0, None, True))
        os.remove(dot)

    # recovery: the process died inside a dump (every crash point found above); a NEW process is started in the folder
    # the crash left behind and takes further dumps (script "pre+post").  Layer B with CrashRestarts = 1 is model-checked
    # (BackupsComplete is not demanded here: the file of the interrupted dump is rotated like any other)
    for m in ([1, 2, 3] if tier == "quick" else [1, 2, 3, 4, 5, 6]):
        nd = m + 4
        cfg = os.path.join(rd, "RRc_%d.cfg" % m)
        open(cfg, "w").write(cfg_text(m, nd, cr=1).replace(" BackupsComplete", ""))
        r = vlib.tlc_model("RestartRotation.tla", cfg, rd, workers=2, timeout=900, must_take=("CrashRestart", "Crash", "Close"))
        c.add_model("RestartRotation with recovery after a crash", r, "MaxBackups=%d NDumps=%d CrashRestarts=1" % (m, nd))
        # two successive recoveries and a clean restart in one history (model only)
        cfg2 = os.path.join(rd, "RRc2_%d.cfg" % m)
        open(cfg2, "w").write(cfg_text(m, nd, pr=1, cr=2).replace(" BackupsComplete", ""))
        r2 = vlib.tlc_model("RestartRotation.tla", cfg2, rd, workers=2, timeout=900, coverage=False)
        c.add_model("RestartRotation with two recoveries and a clean restart", r2, "MaxBackups=%d NDumps=%d CrashRestarts=2 ProcRestarts=1" % (m, nd))
    nrec = 0
    for (m, s, pt, at, fs, pr) in list(scen):
        if pt != "-" and m >= 1 and not pr and len(s) <= m + 2:
            scen.append((m, s + "+" + "d" * (m + 2), pt, at, None, False))
            nrec += 1
    c.cov["recovery_scenarios"] = nrec

    # ---- 2. run the real code ----------------------------------------------
    sfile = os.path.join(rd, "scen.txt")
    with open(sfile, "w") as f:
        for (m, s, pt, at, fs, pr) in scen:
            f.write("%d %s %s %d %s\n" % (m, s.split("+")[0], pt, at, s.split("+")[1] if "+" in s else ""))
    out = os.path.join(rd, "rot.ndjson")
    rc, o = vlib.sh("%s %s %s %s" % (exe, rd, sfile, out), timeout=3000)
    if rc != 0:
        raise vlib.Inconclusive("rotation harness failed rc=%d\n%s" % (rc, o[-2000:]))
    recs = vlib.read_ndjson(out)
    # split per scenario
    per = []
    for r in recs:
        if r["e"] == "scn":
            per.append([r])
        else:
            per[-1].append(r)
    if len(per) != len(scen):
        raise vlib.Inconclusive("scenario count mismatch %d != %d" % (len(per), len(scen)))

    # R: compare directory after a crash with the model's
    ndrift = 0
    for (m, s, pt, at, fs, pr), rs in zip(scen, per):
        end = rs[-1]
        nontrivial = pt != "-" and len(s) >= 2
        c.add_case((m, s, pt, at), nontrivial)
        if fs is None:
            continue
        if pt != "-" and end["how"] != "crashed":
            ndrift += 1
            if ndrift <= 5:
                c.model_drift("crash point %s@%d not reached: max=%d script=%s (%s)" % (pt, at, m, s, end["how"]))
            continue
        got = fs_of_files(end["files"], m)
        if got != fs:
            ndrift += 1
            if ndrift <= 5:
                c.model_drift("directory after crash differs from Layer B: max=%d script=%s crash=%s@%d "
                              "model=%s code=%s" % (m, s, pt, at, fs, got))
    vlib.log("binding R: %d scenarios (%d with a crash point) executed by the real RestartManager, "
             "%d differ from Layer B" % (len(scen), sum(1 for x in scen if x[2] != "-"), ndrift))

    # ---- 3. T: Layer-A validation, one TLC run per MaxBackups ----------------
    keepA = ("scn", "procstart", "h.begin", "h.closed", "end")
    bymax = {}
    for sc, rs in zip(scen, per):
        bymax.setdefault(sc[0], []).append((sc, rs))
    for m, items in sorted(bymax.items()):
        accepted, rejected = validate_items(c, m, items, "all")
        if rejected:
            # locate offending scenarios by bisection, report at most a few per MaxBackups
            bad = []
            stack = [items]
            while stack and len(bad) < 4:
                part = stack.pop()
                if len(part) == 1:
                    bad.append(part[0])
                    continue
                h = len(part) // 2
                for half in (part[h:], part[:h]):
                    if validate_items(c, m, half, "bis")[1]:
                        stack.append(half)
            for sc, rs in bad:
                validate_items(c, m, [(sc, rs)], "one", report=True)
            good = [it for it in items if it not in bad]
            c.cov["traces_validated_against_impl"] += 0
    c.sample({"scenario": {"max": scen[len(scen) // 2][0], "script": scen[len(scen) // 2][1],
                           "crash": scen[len(scen) // 2][2], "at": scen[len(scen) // 2][3]},
              "records": per[len(scen) // 2][:12]})

    # ---- 4. self-test ---------------------------------------------------------
    sc, rs = next((sc, rs) for sc, rs in zip(scen, per) if sc[0] == 2 and sc[2] == "-" and not sc[5])
    bad = json.loads(json.dumps(rs))
    for r in bad:
        if r["e"] == "h.closed" and r["k"] == 3:
            for f in r["files"]:
                if f["n"] == 0:
                    f["v"] = 1      # the newest backup holds a too old version
    p = os.path.join(rd, "self.ndjson")
    vlib.write_ndjson(p, [{"e": "cfg", "max": 2}] + [x for x in bad if x["e"] in keepA])
    st, r = vlib.validate_trace("Trace_RestartRotation.tla", "Trace_RestartRotation.cfg", p, rd, tag="self")
    if st == "accepted":
        raise vlib.Inconclusive("self-test failed: corrupted directory listing accepted")
    c.cov["selftest"] = "corrupted backup version rejected: " + st

    c.cov["rule"] = ("one scenario per Crash transition of the Layer-B graph (+ crash-free runs, + clean "
                     "process restarts, + for every crash point a recovery: new process in the folder, MaxBackups + 2 further "
                     "dumps); non-trivial = crash inside the second or a later dump")
    c.cov["exhaustive"] = True
    c.cov["explanation"] = ("every crash point of every dump for MaxBackups in %s, up to %d dumps" %
                            (maxes, ndumps_for(maxes[-1])))
    c.assumptions += ["a crash is modelled as _exit(77) at a named point between two file-system operations; "
                      "partial writes inside one write() call and power-loss reordering of metadata are not modelled",
                      "the payload is written by the harness (version stamp, filler, end marker); the system-level "
                      "dump of the RHD loop is covered by C09"]


def validate_items(c, m, items, tag, report=False):
    keepA = ("scn", "procstart", "h.begin", "h.closed", "end")
    rd = c.rd.path
    recs = [{"e": "cfg", "max": m}]
    for sc, rs in items:
        recs += [x for x in rs if x["e"] in keepA]
    p = os.path.join(rd, "rotA_%d_%s.ndjson" % (m, tag))
    vlib.write_ndjson(p, recs)
    st, r = vlib.validate_trace("Trace_RestartRotation.tla", "Trace_RestartRotation.cfg", p, rd,
                                tag="rotA%d%s" % (m, tag), timeout=1200)
    if st == "error":
        raise vlib.Inconclusive("TLC error on rotation trace:\n" + r.out[-2000:])
    if st == "accepted":
        if not report:
            c.cov["traces_validated_against_impl"] += len(items)
        return len(items), 0
    if report:
        sc, rs = items[0]
        sig = "rotation:%s:max=%d:%s:crash=%s:%s" % (
            st, m, "procrestart" if "p" in sc[1] else "single-process", sc[2],
            "first-dump" if sc[1].rstrip("d").endswith("p") or len(sc[1]) == 1 else "later-dump")
        keep = c.replay_path("rot_%d_%s_%s_%d.ndjson" % (m, sc[1], sc[2], sc[3]))
        vlib.write_ndjson(keep, recs)
        c.violation(sig, "real RestartManager violates Layer A (%s): max=%d script=%s crash=%s@%d" % (
            st, m, sc[1], sc[2], sc[3]),
            {"trace": keep, "max": m, "script": sc[1], "crash": sc[2], "at": sc[3], "end": rs[-1],
             "tlc_last_state": vlib.last_trace_state(r)})
    return 0, len(items)


def build():
    vlib.build_harness("rotation_harness")


def replay(path):
    obj = json.load(open(path))
    rd = vlib.RunDir("C14r")
    st, r = vlib.validate_trace("Trace_RestartRotation.tla", "Trace_RestartRotation.cfg",
                                obj["replay"]["trace"], rd.path)
    print("trace %s: %s" % (obj["replay"]["trace"], st))
    print(vlib.last_trace_state(r))
    rd.cleanup()
    return 0 if st == "accepted" else 1
