------------------------------ MODULE MC_Ranlux ------------------------------
(***************************************************************************)
(* Model checking / evaluation wrapper for Ranlux: prints the first NDraw  *)
(* delivered words of every seed in Seeds (binding R: compared word by     *)
(* word with the real RandomGenerator), checks that different seeds give   *)
(* different first blocks and that seed 0 equals seed 1, and explores all  *)
(* interleavings of Draw / Save / Restore up to Depth steps.               *)
(***************************************************************************)
EXTENDS Ranlux, Json, FiniteSets

CONSTANTS Seeds, NDraw, Depth

VARIABLE n
vars == <<ring, carry, pos, out, saved, n>>

SeqTab == [s \in Seeds |-> Sequence(s, NDraw)]
ASSUME PrintT(<<"SEQ", ToJson({[seed |-> s, seq |-> SeqTab[s]] : s \in Seeds})>>)
ASSUME DistinctStreams ==
    \A s1, s2 \in Seeds : (SeedOf(s1) # SeedOf(s2)) => SubSeq(SeqTab[s1], 1, 12) # SubSeq(SeqTab[s2], 1, 12)
ASSUME SeedZeroIsOne == Sequence(0, 12) = Sequence(1, 12)

Init == /\ \E s \in Seeds : ring = SeedRing(s)
        /\ carry = 0 /\ pos = 12 /\ out = <<-1, -1>> /\ saved = <<>> /\ n = 0
Next == /\ n < Depth /\ n' = n + 1
        /\ (Draw \/ Save \/ Restore)
Spec == Init /\ [][Next]_vars
=============================================================================
