SPECIFICATION Spec
CONSTRAINT TrackL
INVARIANTS TableMatchesGeometry ExactlyOnce DepsRespected MutualExclusion AllOnceAtEnd StepEndsClean NotAccepted
POSTCONDITION PrintMaxL
CHECK_DEADLOCK FALSE
