SPECIFICATION Spec
CONSTRAINT TrackL
INVARIANTS TableMatchesGeometry ExactlyOnce DepsRespected MutualExclusion AllOnceAtEnd StepEndsClean
POSTCONDITION PrintMaxL
CHECK_DEADLOCK FALSE
