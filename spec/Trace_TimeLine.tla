--------------------------- MODULE Trace_TimeLine ---------------------------
(***************************************************************************)
(* Binding T for C19: validates histories recorded from the real TimeLine  *)
(* class against Layer A (TimeLineA).  The constants of the run are the    *)
(* first record of the log.  Records:                                      *)
(*   {"e":"cfg","K":k,"min4":m,"max4":M}                                   *)
(*   {"e":"reset"}                       new TimeLine object, same config  *)
(*   {"e":"adv","r4":r,"s":s,"t":t,"hn":0|1,"ok":0|1,"rep":0|1}           *)
(*        s,t: step / time in model units as reported by the code          *)
(*        ok : 1 iff the physical values were exactly representable on     *)
(*             the model line, time within 1 ulp of start + t*unit, not    *)
(*             beyond the physical end, and strictly larger than before    *)
(*        rep: 1 iff this call repeats, on a restored object, a call made  *)
(*             after the last save                                         *)
(*   {"e":"save"}   {"e":"restore","t":t}                                   *)
(***************************************************************************)
EXTENDS Naturals, Sequences, TLC, Json, IOUtils

TraceLog == ndJsonDeserialize(IOEnv.TRACE)

VARIABLES t, alive, sum, last, saved,
          l,        \* next record of the log
          since,    \* <<r4, s, t, hn>> of the advances made since the last save
          rpos      \* position in since of the next repeated advance

K == TraceLog[1].K
MinCfg4 == TraceLog[1].min4
MaxCfg4 == TraceLog[1].max4
Reqs4 == {}

A == INSTANCE TimeLineA
vars == <<t, alive, sum, last, saved, l, since, rpos>>

Rec == TraceLog[l]
IsEvent(e) == l <= Len(TraceLog) /\ Rec.e = e /\ l' = l + 1

Init == A!Init /\ l = 2 /\ since = <<>> /\ rpos = 0

TReset == /\ IsEvent("reset")
          /\ t' = 0 /\ alive' = TRUE /\ sum' = 0 /\ saved' = <<>>
          /\ last' = [kind |-> "init", req4 |-> 0, step |-> 0]
          /\ since' = <<>> /\ rpos' = 0

\* an advance of the real object: it either moved (s > 0) or stopped
TAdv == /\ IsEvent("adv")
        /\ \/ /\ Rec.s > 0
              /\ A!Step(Rec.r4, Rec.s)
              /\ t' = Rec.t
              /\ alive' = (Rec.hn = 1)
           \/ /\ Rec.s = 0
              /\ A!Stop(Rec.r4)
              /\ Rec.t = t /\ Rec.hn = 0
        /\ since' = IF Rec.rep = 0 /\ saved # <<>> THEN Append(since, <<Rec.r4, Rec.s, Rec.t, Rec.hn>>)
                    ELSE since
        /\ rpos' = IF Rec.rep = 1 THEN rpos + 1 ELSE rpos

TSave == /\ IsEvent("save") /\ A!Save /\ since' = <<>> /\ rpos' = 0

TRestore == /\ IsEvent("restore") /\ A!Restore
            /\ Rec.t = saved[1]
            /\ rpos' = 1 /\ UNCHANGED since

Next == TReset \/ TAdv \/ TSave \/ TRestore
Spec == Init /\ [][Next]_vars

NotAccepted == l <= Len(TraceLog)

\* longest matched prefix, for diagnosing a rejected trace (-workers 1)
ASSUME TLCSet(1, 0)
TrackL == TLCSet(1, IF l > TLCGet(1) THEN l ELSE TLCGet(1))
PrintMaxL == PrintT(<<"MAXL", TLCGet(1)>>)

\* ---- Layer-A properties evaluated on every state of the recorded run ----
NoOvershoot == A!NoOvershoot
StepsSumToTime == A!StepsSumToTime
EndsExactly == A!EndsExactly
AliveMeansNotAtEnd == A!AliveMeansNotAtEnd
MinDividesLeft == A!MinDividesLeft

\* physical-side observations made by the harness at the same call
PhysicalOk == (l > 2 /\ TraceLog[l - 1].e = "adv") => TraceLog[l - 1].ok = 1

\* "a time line saved and restored continues identically"
ContinuesIdentically ==
    (l > 2 /\ TraceLog[l - 1].e = "adv" /\ TraceLog[l - 1].rep = 1) =>
        /\ rpos - 1 <= Len(since)
        /\ since[rpos - 1] = <<TraceLog[l - 1].r4, TraceLog[l - 1].s,
                               TraceLog[l - 1].t, TraceLog[l - 1].hn>>
=============================================================================
