----------------------------- MODULE Configs_C01 -----------------------------
(***************************************************************************)
(* Binding E for C01: the configuration space of the photoionization       *)
(* iteration - source mix, diffuse re-emission, layout, periodicity, copy  *)
(* level, thread count, packet count (multiples and non-multiples of the   *)
(* buffer size of 200).  Printed as JSON.                                  *)
(***************************************************************************)
EXTENDS Integers, Json, TLC
Sources == {"D", "C", "DC"}
Layouts == {<<1, 1, 1>>, <<2, 2, 2>>, <<3, 2, 1>>, <<1, 1, 4>>}
Pers == {<<0, 0, 0>>, <<1, 1, 1>>, <<1, 0, 1>>}
\* nsrc: number of discrete sources (3: unequal luminosities 1:2:5 in different subgrids, so that the per-source
\* quotas have remainders); only meaningful when the discrete source is on
Configs == {[src |-> s, diffuse |-> d, n |-> l, per |-> p, copy |-> c, nthr |-> t, np |-> np, nsrc |-> ns] :
              s \in Sources, d \in {0, 1}, l \in Layouts, p \in Pers, c \in {0, 1, 2},
              t \in {1, 2, 4, 8}, np \in {10000, 7777, 999, 20001}, ns \in {1, 3}} \ 
           {cf \in [src : {"C"}, diffuse : {0, 1}, n : Layouts, per : Pers, copy : {0, 1, 2}, nthr : {1, 2, 4, 8},
                    np : {10000, 7777, 999, 20001}, nsrc : {3}] : TRUE}
ASSUME PrintT(<<"CONFIGS", ToJson(Configs)>>)
VARIABLE x
Init == x = 0
Next == UNCHANGED x
Spec == Init /\ [][Next]_x
=============================================================================
