----------------------------- MODULE Configs_C12 -----------------------------
(***************************************************************************)
(* Binding E for C12: run modes x optional components x thread counts.     *)
(***************************************************************************)
EXTENDS Integers, Json, TLC
B == {0, 1}
\* gadget: HDF5 snapshots instead of ASCII ones; big: one subgrid of 24^3 cells (the writers move data in blocks of 10 000 cells)
\* lum0: the discrete source is there but has no luminosity (the run disables it; only with a continuous source)
Ion == {[mode |-> "ion", diffuse |-> d, continuous |-> cs, trackers |-> tr, plot |-> pl, copy |-> cp, nthr |-> t, gadget |-> ga,
         big |-> bg, lum0 |-> l0] :
          d \in B, cs \in B, tr \in B, pl \in B, cp \in {0, 2}, t \in {1, 2, 4}, ga \in B, bg \in B, l0 \in B} \
       {c \in [mode : {"ion"}, diffuse : B, continuous : B, trackers : B, plot : B, copy : {0, 2}, nthr : {1, 2, 4}, gadget : B,
               big : B, lum0 : B] : c.lum0 = 1 /\ c.continuous = 0}
\* first: "first snapshot" (only with snaps = 1); maxb: "maximum number of backups" (only in restart mode)
\* sn (rhdrad only): the only source is a supernova that goes off at once, so that later radiation steps find no luminous source
\* rdiff (rhdrad only): 0 = no diffuse field, 1 = "diffuse field: true" with a FixedValue re-emission handler,
\*   2 = "diffuse field: true" without a handler block (the factory's default type None gives no handler)
\* aniso: 16x8x8 cells in 2x2x2 subgrids (cells per subgrid differ between the axes) instead of 8x8x8
Rhd == {[mode |-> m, live |-> lv, ionsurf |-> iv, mask |-> mk, turb |-> tb, snaps |-> sn, first |-> fs, maxb |-> mb,
         nthr |-> t, aniso |-> an, sn |-> s, rdiff |-> rdf] :
          m \in {"rhd", "rhdrad", "restart"}, lv \in B, iv \in B, mk \in B, tb \in B, sn \in B,
          fs \in {0, 2, 9}, mb \in {1, 2, 3}, t \in {1, 2, 4}, an \in B, s \in B, rdf \in {0, 1, 2}} \ 
       {c \in [mode : {"rhd", "rhdrad", "restart"}, live : B, ionsurf : B, mask : B, turb : B, snaps : B,
               first : {0, 2, 9}, maxb : {1, 2, 3}, nthr : {1, 2, 4}, aniso : B, sn : B, rdiff : {0, 1, 2}] :
            (c.snaps = 0 /\ c.first # 0) \/ (c.mode # "restart" /\ c.maxb # 1) \/ (c.mode = "rhdrad" /\ c.aniso = 1) \/ (c.mode # "rhdrad" /\ c.sn = 1)
            \/ (c.mode # "rhdrad" /\ c.rdiff # 0)}
ASSUME PrintT(<<"CONFIGS", ToJson(Ion \cup Rhd)>>)
VARIABLE x
Init == x = 0
Next == UNCHANGED x
Spec == Init /\ [][Next]_x
=============================================================================
