----------------------------- MODULE Configs_C12 -----------------------------
(***************************************************************************)
(* Binding E for C12: run modes x optional components x thread counts.     *)
(***************************************************************************)
EXTENDS Integers, Json, TLC
B == {0, 1}
Ion == {[mode |-> "ion", diffuse |-> d, continuous |-> cs, trackers |-> tr, plot |-> pl, copy |-> cp, nthr |-> t] :
          d \in B, cs \in B, tr \in B, pl \in B, cp \in {0, 2}, t \in {1, 2, 4}}
\* first: "first snapshot" (only with snaps = 1); maxb: "maximum number of backups" (only in restart mode)
\* aniso: 16x8x8 cells in 2x2x2 subgrids (cells per subgrid differ between the axes) instead of 8x8x8
Rhd == {[mode |-> m, live |-> lv, ionsurf |-> iv, mask |-> mk, turb |-> tb, snaps |-> sn, first |-> fs, maxb |-> mb,
         nthr |-> t, aniso |-> an] :
          m \in {"rhd", "rhdrad", "restart"}, lv \in B, iv \in B, mk \in B, tb \in B, sn \in B,
          fs \in {0, 2, 9}, mb \in {1, 2, 3}, t \in {1, 2, 4}, an \in B} \ 
       {c \in [mode : {"rhd", "rhdrad", "restart"}, live : B, ionsurf : B, mask : B, turb : B, snaps : B,
               first : {0, 2, 9}, maxb : {1, 2, 3}, nthr : {1, 2, 4}, aniso : B] :
            (c.snaps = 0 /\ c.first # 0) \/ (c.mode # "restart" /\ c.maxb # 1) \/ (c.mode = "rhdrad" /\ c.aniso = 1)}
ASSUME PrintT(<<"CONFIGS", ToJson(Ion \cup Rhd)>>)
VARIABLE x
Init == x = 0
Next == UNCHANGED x
Spec == Init /\ [][Next]_x
=============================================================================
