----------------------------- MODULE Configs_C12 -----------------------------
(***************************************************************************)
(* Binding E for C12: run modes x optional components x thread counts.     *)
(***************************************************************************)
EXTENDS Integers, Json, TLC
B == {0, 1}
Ion == {[mode |-> "ion", diffuse |-> d, continuous |-> cs, trackers |-> tr, plot |-> pl, copy |-> cp, nthr |-> t] :
          d \in B, cs \in B, tr \in B, pl \in B, cp \in {0, 2}, t \in {1, 2, 4}}
Rhd == {[mode |-> m, live |-> lv, ionsurf |-> iv, mask |-> mk, turb |-> tb, snaps |-> sn, nthr |-> t] :
          m \in {"rhd", "rhdrad", "restart"}, lv \in B, iv \in B, mk \in B, tb \in B, sn \in B, t \in {1, 2, 4}}
ASSUME PrintT(<<"CONFIGS", ToJson(Ion \cup Rhd)>>)
VARIABLE x
Init == x = 0
Next == UNCHANGED x
Spec == Init /\ [][Next]_x
=============================================================================
