------------------------ MODULE Trace_RestartRotation ------------------------
(***************************************************************************)
(* Binding T for C14 (Layer A): directories observed while the real        *)
(* RestartManager takes dumps, is killed at a crash point, or is           *)
(* re-created by a clean process restart, are judged by the Layer-A        *)
(* operators of RotationProps.  Records (first one: {"e":"cfg","max":M}):  *)
(*   scn        new scenario, empty directory                              *)
(*   procstart  a RestartManager was constructed                           *)
(*   h.begin k  dump number k is about to be taken                         *)
(*   h.closed k files   dump k was written and closed; directory listing   *)
(*   end how files      the process ended: exit | crashed | abort | failed *)
(* A "procstart" after a crashed end is a recovery: a new process in the   *)
(* folder the crash left behind; its dumps must not fail either, and after *)
(* each of them the newest state is in the main file and the complete      *)
(* backups are newest-first (AfterRecoveredDumpOK).                        *)
(***************************************************************************)
EXTENDS Integers, Sequences, TLC, Json, IOUtils

TraceLog == ndJsonDeserialize(IOEnv.TRACE)
MaxBackups == TraceLog[1].max

INSTANCE RotationProps

VARIABLES dir,       \* last observed directory
          ver,       \* number of the newest dump started
          ndone,     \* dumps completed since the directory was empty
          prevGood,  \* complete version in restart.dump when the dump began
          phase,     \* idle | dumping | crashed | aborted | ended
          stray,     \* a file with an unexpected name was seen
          recovered, \* a new process was started in this folder after a crash
          l

vars == <<dir, ver, ndone, prevGood, phase, stray, recovered, l>>
Rec == TraceLog[l]
IsEvent(e) == l <= Len(TraceLog) /\ Rec.e = e /\ l' = l + 1

Empty == [n \in Names |-> Absent]
Listed(files, n) == {k \in 1..Len(files) : files[k].n = n}
DirOf(files) ==
    [n \in Names |->
       IF Listed(files, n) = {} THEN Absent
       ELSE LET k == CHOOSE k \in Listed(files, n) : TRUE
            IN File(files[k].v, files[k].c = 1)]
HasStray(files) == \E k \in 1..Len(files) : files[k].n \notin -1 .. (MaxBackups - 1)

Init == /\ dir = Empty /\ ver = 0 /\ ndone = 0 /\ prevGood = 0
        /\ phase = "ended" /\ stray = FALSE /\ recovered = FALSE /\ l = 2

TScn == /\ IsEvent("scn")
        /\ dir' = Empty /\ ver' = 0 /\ ndone' = 0 /\ prevGood' = 0
        /\ phase' = "idle" /\ stray' = FALSE /\ recovered' = FALSE

TProc == /\ IsEvent("procstart") /\ phase = "idle"
         /\ UNCHANGED <<dir, ver, ndone, prevGood, phase, stray, recovered>>
\* recovery: the previous process died inside a dump, a new one is started in the folder it left behind
TRecover == /\ IsEvent("procstart") /\ phase = "crashed"
            /\ phase' = "recovered" /\ recovered' = TRUE
            /\ UNCHANGED <<dir, ver, ndone, prevGood, stray>>

TBegin == /\ IsEvent("h.begin") /\ phase \in {"idle", "recovered"}
          /\ ver' = Rec.k
          /\ prevGood' = IF dir[-1].complete THEN dir[-1].ver ELSE 0
          /\ phase' = "dumping"
          /\ UNCHANGED <<dir, ndone, stray, recovered>>

TClosed == /\ IsEvent("h.closed") /\ phase = "dumping" /\ Rec.k = ver
           /\ dir' = DirOf(Rec.files)
           /\ stray' = HasStray(Rec.files)
           /\ ndone' = ndone + 1
           /\ phase' = "idle"
           /\ UNCHANGED <<ver, prevGood, recovered>>

TEnd == /\ IsEvent("end")
        /\ dir' = DirOf(Rec.files)
        /\ stray' = HasStray(Rec.files)
        /\ phase' = CASE Rec.how = "exit" -> (IF phase \in {"idle", "recovered"} THEN phase ELSE "aborted")
                      [] Rec.how = "crashed" -> (IF phase = "dumping" THEN "crashed" ELSE "idle")
                      [] OTHER -> "aborted"
        /\ UNCHANGED <<ver, ndone, prevGood, recovered>>

Next == TScn \/ TProc \/ TRecover \/ TBegin \/ TClosed \/ TEnd
Spec == Init /\ [][Next]_vars

NotAccepted == l <= Len(TraceLog)
ASSUME TLCSet(1, 0)
TrackL == TLCSet(1, IF l > TLCGet(1) THEN l ELSE TLCGet(1))
PrintMaxL == PrintT(<<"MAXL", TLCGet(1)>>)

\* ---- Layer A ----
NeverAborts == phase # "aborted"
AfterDump == (phase = "idle" /\ ndone > 0) =>
               IF recovered THEN AfterRecoveredDumpOK(dir, ver) ELSE AfterDumpOK(dir, ver, ndone)
CrashSafe == (phase = "crashed") => CrashSafeOK(dir, prevGood)
NoStrayFiles == ~stray
=============================================================================
