---------------------------- MODULE MC_HydroGraph ----------------------------
\* model-checking wrapper: the static table checks are evaluated once
EXTENDS HydroGraph
ASSUME StaticTableOK == StaticOK
=============================================================================
