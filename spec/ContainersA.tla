---------------------------- MODULE ContainersA ----------------------------
(***************************************************************************)
(* Layer A (property oracle) for C08: the scheduler's shared containers    *)
(* as linearizable objects.                                                *)
(*                                                                         *)
(*   pool    : slots 0..PoolSize-1, held[i] = thread holding slot i or 0   *)
(*   queues  : queued[q] = set of task ids                                 *)
(*   locks   : owner[l] = thread holding resource lock l or 0              *)
(*   counter : ctr (sum of all completed updates), ctrmax (maximum)        *)
(*                                                                         *)
(* Every operation is a Call, one or more internal steps, and a Ret whose   *)
(* result has to agree with what the internal steps produced.  Internal     *)
(* steps may happen at any moment between Call and Ret - this is           *)
(* linearizability.  The only operation that is not a single atomic step   *)
(* is Pop: the property only promises that the task is handed out          *)
(* "together with exclusive ownership of all resources the task declared", *)
(* the resources may be taken one after the other (and given back) while   *)
(* the call is in progress.  A Pop that returns nothing has to be          *)
(* justified: every task that stayed in the queue during the whole call    *)
(* had, at some instant of the call, a resource owned by somebody else     *)
(* (or, for the try variant, another operation on the same queue was in    *)
(* progress at some instant of the call).                                  *)
(***************************************************************************)
EXTENDS Integers, FiniteSets, Sequences, TLC

CONSTANTS Threads,     \* thread ids (positive integers)
          PoolSize,
          NQueues,
          NLocks,
          Deps         \* task id -> set of resource locks it declares
                       \* (a function; its domain is the set of task ids)

VARIABLES held, queued, owner, ctr, ctrmax, handed, pend

avars == <<held, queued, owner, ctr, ctrmax, handed, pend>>

Slots == 0 .. (PoolSize - 1)
Queues == 0 .. (NQueues - 1)
Locks == 0 .. (NLocks - 1)
Tasks == DOMAIN Deps
None == [op |-> "none"]
MaxOf(a, b) == IF a >= b THEN a ELSE b

AInit == /\ held = [i \in Slots |-> 0]
         /\ queued = [q \in Queues |-> {}]
         /\ owner = [l \in Locks |-> 0]
         /\ ctr = 0 /\ ctrmax = 0
         /\ handed = [x \in Tasks |-> 0]      \* how often task x was handed out
         /\ pend = [t \in Threads |-> None]

\* tasks of queue q one of whose resources is owned by somebody other than t
BlockedFor(t, q, own, qd) == {x \in qd[q] : \E d \in Deps[x] : own[d] \notin {0, t}}
OtherQueueOp(t, q, pd) == \E u \in Threads \ {t} :
                             pd[u].op \in {"add", "pop"} /\ pd[u].q = q

\* bookkeeping of the justification of empty-handed pops; applied to the
\* new state by every action
Track(pd, own, qd) ==
    [t \in Threads |->
       IF pd[t].op = "pop" /\ pd[t].st = "inv"
       THEN [pd[t] EXCEPT !.stayed = @ \cap qd[pd[t].q],
                          !.blocked = @ \cup BlockedFor(t, pd[t].q, own, qd),
                          !.busy = @ \/ OtherQueueOp(t, pd[t].q, pd)]
       ELSE pd[t]]

----------------------------------------------------------------------------
\* Calls (visible)

Call(t, rec) ==
    /\ pend[t] = None
    /\ LET r == IF rec.op = "pop"
                THEN rec @@ [st |-> "inv", res |-> -2, acq |-> {},
                             stayed |-> queued[rec.q],
                             blocked |-> {}, busy |-> FALSE]
                ELSE IF rec.op = "unl"
                THEN rec @@ [st |-> "inv", res |-> -2, rel |-> {}]
                ELSE rec @@ [st |-> "inv", res |-> -2]
       IN pend' = Track([pend EXCEPT ![t] = r], owner, queued)
    /\ UNCHANGED <<held, queued, owner, ctr, ctrmax, handed>>

\* Returns (visible): the result must be the one produced internally
Ret(t, res) ==
    /\ pend[t] # None /\ pend[t].st = "done" /\ pend[t].res = res
    /\ pend' = Track([pend EXCEPT ![t] = None], owner, queued)
    /\ UNCHANGED <<held, queued, owner, ctr, ctrmax, handed>>

----------------------------------------------------------------------------
\* Internal steps

Done(t, res) == [pend EXCEPT ![t].st = "done", ![t].res = res]
Inv(t, o) == pend[t] # None /\ pend[t].op = o /\ pend[t].st = "inv"

LinGet(t) ==
    /\ Inv(t, "get")
    /\ \/ \E i \in Slots : /\ held[i] = 0
                           /\ held' = [held EXCEPT ![i] = t]
                           /\ pend' = Track(Done(t, i), owner, queued)
       \/ \* "pool is full" (safe variant only).  The occupancy count the code
          \* consults is only promised to be exact while no operation is in
          \* progress: a release that has not returned yet may still be
          \* counted, so "full" is accepted when the held slots plus the
          \* releases in progress fill the pool.
          /\ pend[t].safe = 1
          /\ Cardinality({i \in Slots : held[i] # 0})
               + Cardinality({u \in Threads : pend[u].op = "free"}) >= PoolSize
          /\ UNCHANGED held
          /\ pend' = Track(Done(t, -1), owner, queued)
    /\ UNCHANGED <<queued, owner, ctr, ctrmax, handed>>

LinFree(t) ==
    /\ Inv(t, "free")
    /\ held[pend[t].i] = t
    /\ held' = [held EXCEPT ![pend[t].i] = 0]
    /\ pend' = Track(Done(t, 0), owner, queued)
    /\ UNCHANGED <<queued, owner, ctr, ctrmax, handed>>

\* a task id is put into a queue when it is in no queue (ids are slots of the
\* task pool, so this is what the callers guarantee)
LinAdd(t) ==
    /\ Inv(t, "add")
    /\ \A q \in Queues : pend[t].x \notin queued[q]
    /\ queued' = [queued EXCEPT ![pend[t].q] = @ \cup {pend[t].x}]
    /\ handed' = [handed EXCEPT ![pend[t].x] = 0]
    /\ pend' = Track(Done(t, 0), owner, queued')
    /\ UNCHANGED <<held, owner, ctr, ctrmax>>

\* a pop in progress takes / gives back one resource
PopAcquire(t, l) ==
    /\ Inv(t, "pop") /\ owner[l] = 0
    /\ \E x \in queued[pend[t].q] : l \in Deps[x]
    /\ owner' = [owner EXCEPT ![l] = t]
    /\ pend' = Track([pend EXCEPT ![t].acq = @ \cup {l}], owner', queued)
    /\ UNCHANGED <<held, queued, ctr, ctrmax, handed>>

PopRelease(t, l) ==
    /\ Inv(t, "pop") /\ l \in pend[t].acq
    /\ owner' = [owner EXCEPT ![l] = 0]
    /\ pend' = Track([pend EXCEPT ![t].acq = @ \ {l}], owner', queued)
    /\ UNCHANGED <<held, queued, ctr, ctrmax, handed>>

\* the hand-out: exactly the declared resources are owned by t
LinPopTask(t, x) ==
    /\ Inv(t, "pop")
    /\ x \in queued[pend[t].q]
    /\ pend[t].acq = Deps[x]
    /\ queued' = [queued EXCEPT ![pend[t].q] = @ \ {x}]
    /\ handed' = [handed EXCEPT ![x] = @ + 1]
    /\ pend' = Track(Done(t, x), owner, queued')
    /\ UNCHANGED <<held, owner, ctr, ctrmax>>

LinPopNone(t) ==
    /\ Inv(t, "pop")
    /\ pend[t].acq = {}
    /\ \/ pend[t].stayed \subseteq pend[t].blocked
       \/ pend[t].try = 1 /\ pend[t].busy
    /\ pend' = Track(Done(t, -1), owner, queued)
    /\ UNCHANGED <<held, queued, owner, ctr, ctrmax, handed>>

\* unlock_dependency of a task that was handed out to t: the resources are
\* given back one after the other while the call is in progress
UnlRelease(t, d) ==
    /\ Inv(t, "unl")
    /\ d \in Deps[pend[t].x] \ pend[t].rel
    /\ owner[d] = t
    /\ owner' = [owner EXCEPT ![d] = 0]
    /\ pend' = Track([pend EXCEPT ![t].rel = @ \cup {d}], owner', queued)
    /\ UNCHANGED <<held, queued, ctr, ctrmax, handed>>

LinUnl(t) ==
    /\ Inv(t, "unl")
    /\ pend[t].rel = Deps[pend[t].x]
    /\ pend' = Track(Done(t, 0), owner, queued)
    /\ UNCHANGED <<held, queued, owner, ctr, ctrmax, handed>>

LinLock(t) ==
    /\ Inv(t, "lk") /\ owner[pend[t].l] = 0
    /\ owner' = [owner EXCEPT ![pend[t].l] = t]
    /\ pend' = Track(Done(t, 0), owner', queued)
    /\ UNCHANGED <<held, queued, ctr, ctrmax, handed>>

LinTryLock(t) ==
    /\ Inv(t, "tlk")
    /\ IF owner[pend[t].l] = 0
       THEN /\ owner' = [owner EXCEPT ![pend[t].l] = t]
            /\ pend' = Track(Done(t, 1), owner', queued)
       ELSE /\ UNCHANGED owner
            /\ pend' = Track(Done(t, 0), owner, queued)
    /\ UNCHANGED <<held, queued, ctr, ctrmax, handed>>

LinUnlock(t) ==
    /\ Inv(t, "ulk") /\ owner[pend[t].l] = t
    /\ owner' = [owner EXCEPT ![pend[t].l] = 0]
    /\ pend' = Track(Done(t, 0), owner', queued)
    /\ UNCHANGED <<held, queued, ctr, ctrmax, handed>>

\* atomic counter: k names the operation, v its argument, result = what
\* the call returns (max returns nothing: 0)
LinCtr(t) ==
    /\ Inv(t, "ctr")
    /\ LET k == pend[t].k
           v == pend[t].v
           new == CASE k \in {"post_inc", "pre_inc"} -> ctr + 1
                    [] k = "pre_dec" -> ctr - 1
                    [] k \in {"post_add", "pre_add"} -> ctr + v
                    [] k = "pre_sub" -> ctr - v
                    [] OTHER -> ctr
           res == CASE k \in {"post_inc", "post_add"} -> ctr
                    [] k = "max" -> 0
                    [] OTHER -> new
       IN /\ ctr' = new
          /\ ctrmax' = IF k = "max" THEN MaxOf(ctrmax, v) ELSE ctrmax
          /\ pend' = Track(Done(t, res), owner, queued)
    /\ UNCHANGED <<held, queued, owner, handed>>

Internal(t) ==
    \/ LinGet(t) \/ LinFree(t) \/ LinAdd(t)
    \/ \E l \in Locks : PopAcquire(t, l) \/ PopRelease(t, l) \/ UnlRelease(t, l)
    \/ \E x \in Tasks : LinPopTask(t, x)
    \/ LinPopNone(t) \/ LinUnl(t) \/ LinLock(t) \/ LinTryLock(t) \/ LinUnlock(t)
    \/ LinCtr(t)

----------------------------------------------------------------------------
\* The properties of C08 (invariants of every behaviour of this module; in
\* trace validation they are evaluated along the recorded history)

\* each slot has at most one holder (by typing) and only threads hold slots
PoolTypeOK == \A i \in Slots : held[i] \in Threads \cup {0}
\* every task index put into a queue is handed out at most once ...
HandedAtMostOnce == \A x \in Tasks : handed[x] <= 1
\* ... and a task that was handed out is in no queue
NoGhostTasks == \A x \in Tasks : handed[x] = 1 => \A q \in Queues : x \notin queued[q]
\* locks admit one holder at a time (by typing)
LockTypeOK == \A l \in Locks : owner[l] \in Threads \cup {0}
=============================================================================
