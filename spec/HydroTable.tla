----------------------------- MODULE HydroTable -----------------------------
(***************************************************************************)
(* Prints the Layer-B task table (locks and child lists, with the task     *)
(* indices the code assigns) of one layout as JSON, and checks the static  *)
(* consistency of that table with Layer A (StaticOK).  Used to compare the *)
(* table the real code builds with the model's (binding T, tables).        *)
(***************************************************************************)
EXTENDS HydroGeom, Json, TLC

IdTab == [t \in Tasks |-> TaskId(t)]
TableJson ==
    ToJson({[t |-> IdTab[t], g |-> t[1], slot |-> t[2], locks |-> LockTab[t],
             children |-> [i \in 1 .. Len(Children[t]) |-> IdTab[Children[t][i]]],
             parents |-> InitParents(t)] : t \in Tasks})
ASSUME PrintT(<<"TABLE", TableJson>>)
ASSUME StaticTableOK == StaticOK

VARIABLE x
Init == x = 0
Next == UNCHANGED x
Spec == Init /\ [][Next]_x
=============================================================================
