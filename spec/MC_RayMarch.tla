----------------------------- MODULE MC_RayMarch -----------------------------
(* Model values for RayMarch: a 2 x 2 x 1 block (and, in the thorough tier, 2 x 1 x 2 / 3 x 1 x 1), every lattice start   *)
(* point, every direction with components in -2 .. 2, three opacity patterns (uniform, with transparent cells), three     *)
(* targets (absorbed in the first cell, absorbed later, never absorbed).                                                   *)
EXTENDS RayMarch
MC_Kaps4 == { <<1, 1, 1, 1>>, <<0, 2, 1, 0>>, <<2, 0, 0, 1>> }
MC_Kaps3 == { <<1, 1, 1>>, <<0, 2, 1>>, <<2, 0, 0>> }
MC_Taus == { 3, 49, 100001 }
=============================================================================
