------------------------------ MODULE MC_CartGrid ------------------------------
(***************************************************************************)
(* Evaluates CartGrid on the cases of scripts/props/c16.py:                *)
(*   {"n":[n1,n2,n3],"per":[0|1,..],"pts":[[x,y,z],..]}                    *)
(***************************************************************************)
EXTENDS CartGrid, TLC, Json, IOUtils
Cases == JsonDeserialize(IOEnv.CASES)
N3(c) == <<c.n[1], c.n[2], c.n[3]>>
P3(c) == <<c.per[1] = 1, c.per[2] = 1, c.per[3] = 1>>
CellSeq(N) == [i \in 1 .. N[1] * N[2] * N[3] |->
                 <<(i - 1) \div (N[2] * N[3]), ((i - 1) \div N[3]) % N[2], (i - 1) % N[3]>>]
One(c) == LET N == N3(c)
          IN [loc |-> [i \in 1 .. Len(c.pts) |-> Flat(N, CartLocate(N, <<c.pts[i][1], c.pts[i][2], c.pts[i][3]>>))],
              ngb |-> [i \in 1 .. N[1] * N[2] * N[3] |->
                         LET cc == CellSeq(N)[i]
                         IN <<<<1, -1, FlatOr(N, CartNgb(N, P3(c), cc, 1, -1))>> \o NgbGeom(1, -1), <<1, 1, FlatOr(N, CartNgb(N, P3(c), cc, 1, 1))>> \o NgbGeom(1, 1),
                              <<2, -1, FlatOr(N, CartNgb(N, P3(c), cc, 2, -1))>> \o NgbGeom(2, -1), <<2, 1, FlatOr(N, CartNgb(N, P3(c), cc, 2, 1))>> \o NgbGeom(2, 1),
                              <<3, -1, FlatOr(N, CartNgb(N, P3(c), cc, 3, -1))>> \o NgbGeom(3, -1), <<3, 1, FlatOr(N, CartNgb(N, P3(c), cc, 3, 1))>> \o NgbGeom(3, 1) >>]]
ASSUME \A i \in 1 .. Len(Cases) : UniqueCell(N3(Cases[i])) /\ Mutual(N3(Cases[i]), P3(Cases[i]))
ASSUME PrintT(<<"CART", ToJson([i \in 1 .. Len(Cases) |-> One(Cases[i])])>>)
VARIABLE x
Init == x = 0
Next == UNCHANGED x
Spec == Init /\ [][Next]_x
=============================================================================
