------------------------------- MODULE AMRTree -------------------------------
(***************************************************************************)
(* C16, Layer A for the AMR grid (AMRGrid / AMRGridCell / AMRDensityGrid): *)
(* a forest of octrees over NB[1] x NB[2] x NB[3] top level blocks.        *)
(*                                                                         *)
(* A node is a record [b |-> <<ix, iy, iz>>, path |-> <<d1, ..., dL>>]:    *)
(* the top level block and the octant digits (d = 4 bx + 2 by + bz, the    *)
(* child in the upper half along x / y / z) from the block down to the     *)
(* node; L is its level.  The state of the grid is the set of its LEAVES;  *)
(* the only transition is Refine(n): a leaf is replaced by its 8 children. *)
(*                                                                         *)
(* Geometry is exact: on the lattice of depth D a node of level L is the   *)
(* half-open cube of side 2^(D-L) at Coord(n) * 2^(D-L).  Points are given *)
(* on the HALF lattice (units of 2^-(D+1) block sides), so that cell       *)
(* corners, edges, faces and interiors all occur.                          *)
(*                                                                         *)
(* What the code must agree with:                                          *)
(*   Locate     the unique leaf whose half-open cube contains a point      *)
(*   Key        cell key = sum d_i 8^(i-1) + 8^L, block key = ix 2^20 +    *)
(*              iy 2^10 + iz (the two 32 bit halves of the 64 bit key)     *)
(*   EnumOrder  blocks in lexicographic (ix, iy, iz) order, inside a block *)
(*              Morton order (d1 most significant)                         *)
(*   Ngb        the neighbour pointer of a node across a face: the node of *)
(*              the same level on the other side if it exists, otherwise   *)
(*              the (coarser) leaf that covers it; across the box boundary *)
(*              the periodic image, or none                                *)
(***************************************************************************)
EXTENDS Integers, Sequences, FiniteSets, TLC

RECURSIVE Pow(_, _)
Pow(b, e) == IF e = 0 THEN 1 ELSE b * Pow(b, e - 1)

Bit(d, k) == CASE k = 1 -> d \div 4 [] k = 2 -> (d \div 2) % 2 [] k = 3 -> d % 2
Level(n) == Len(n.path)

RECURSIVE CoordFrom(_, _, _, _)
CoordFrom(n, k, i, acc) == IF i > Len(n.path) THEN acc ELSE CoordFrom(n, k, i + 1, 2 * acc + Bit(n.path[i], k))
\* integer coordinate of the node along axis k on the lattice of its own level
Coord(n, k) == CoordFrom(n, k, 1, n.b[k])
Coords(n) == <<Coord(n, 1), Coord(n, 2), Coord(n, 3)>>

\* the node of level L with the given lattice coordinates
RECURSIVE PathOf(_, _, _)
PathOf(c, L, i) == IF i > L THEN <<>>
                   ELSE LET sh == Pow(2, L - i)
                            dg == 4 * ((c[1] \div sh) % 2) + 2 * ((c[2] \div sh) % 2) + ((c[3] \div sh) % 2)
                        IN <<dg>> \o PathOf(c, L, i + 1)
NodeAt(L, c) == [b |-> <<c[1] \div Pow(2, L), c[2] \div Pow(2, L), c[3] \div Pow(2, L)>>, path |-> PathOf(c, L, 1)]

Children(n) == {[b |-> n.b, path |-> Append(n.path, d)] : d \in 0 .. 7}
Refine(leaves, n) == (leaves \ {n}) \cup Children(n)
IsPrefix(a, b) == a.b = b.b /\ Len(a.path) <= Len(b.path) /\ SubSeq(b.path, 1, Len(a.path)) = a.path

Blocks(NB) == {<<i, j, k>> : i \in 0 .. NB[1] - 1, j \in 0 .. NB[2] - 1, k \in 0 .. NB[3] - 1}
\* create_all_cells(level): every block uniformly refined to the given level
RECURSIVE UniformPaths(_)
UniformPaths(L) == IF L = 0 THEN {<<>>} ELSE {Append(p, d) : p \in UniformPaths(L - 1), d \in 0 .. 7}
Uniform(NB, L) == {[b |-> bl, path |-> p] : bl \in Blocks(NB), p \in UniformPaths(L)}

\* ---- geometry on the half lattice of depth D ----
Lo(n, k, D) == Coord(n, k) * Pow(2, D + 1 - Level(n))
Side(n, D) == Pow(2, D + 1 - Level(n))
Contains(n, P, D) == \A k \in 1 .. 3 : Lo(n, k, D) <= P[k] /\ P[k] < Lo(n, k, D) + Side(n, D)
Locate(leaves, P, D) == CHOOSE n \in leaves : Contains(n, P, D)
\* volume in units of the cells of depth D
Vol(n, D) == Pow(8, D - Level(n))

\* ---- keys and enumeration order ----
RECURSIVE CellKeyFrom(_, _)
CellKeyFrom(p, i) == IF i > Len(p) THEN Pow(8, Len(p)) ELSE p[i] * Pow(8, i - 1) + CellKeyFrom(p, i + 1)
CellKey(n) == CellKeyFrom(n.path, 1)
BlockKey(n) == n.b[1] * 1048576 + n.b[2] * 1024 + n.b[3]
\* position in the enumeration: comparable integers
BlockOrd(n, NB) == (n.b[1] * NB[2] + n.b[2]) * NB[3] + n.b[3]
RECURSIVE MortonFrom(_, _, _)
MortonFrom(p, i, D) == IF i > Len(p) THEN 0 ELSE p[i] * Pow(8, D - i) + MortonFrom(p, i + 1, D)
Morton(n, D) == MortonFrom(n.path, 1, D)
Before(a, b, NB, D) == \/ BlockOrd(a, NB) < BlockOrd(b, NB)
                       \/ BlockOrd(a, NB) = BlockOrd(b, NB) /\ Morton(a, D) < Morton(b, D)

\* ---- neighbour pointers ----
None == [b |-> <<-1, -1, -1>>, path |-> <<>>]
Ngb(leaves, NB, per, n, k, sg) ==
    LET L == Level(n)
        M == NB[k] * Pow(2, L)
        x == Coord(n, k) + sg
        out == x < 0 \/ x >= M
    IN IF out /\ ~per[k] THEN None
       ELSE LET xw == (x + M) % M
                t == NodeAt(L, [Coords(n) EXCEPT ![k] = xw])
            IN IF \E lf \in leaves : IsPrefix(lf, t) THEN CHOOSE lf \in leaves : IsPrefix(lf, t) ELSE t

\* ---- properties of a leaf set ----
\* the leaves partition the box: volumes add up and no leaf is inside another
VolumeSum(leaves, D) ==
    LET RECURSIVE Sum(_)
        Sum(S) == IF S = {} THEN 0 ELSE LET n == CHOOSE x \in S : TRUE IN Vol(n, D) + Sum(S \ {n})
    IN Sum(leaves)
Partition(leaves, NB, D) == /\ VolumeSum(leaves, D) = NB[1] * NB[2] * NB[3] * Pow(8, D)
                            /\ \A a, b \in leaves : IsPrefix(a, b) => a = b
\* every point of the half lattice lies in exactly one leaf
HalfLattice(NB, D) == {<<x, y, z>> : x \in 0 .. NB[1] * Pow(2, D + 1) - 1, y \in 0 .. NB[2] * Pow(2, D + 1) - 1,
                                     z \in 0 .. NB[3] * Pow(2, D + 1) - 1}
UniqueCell(leaves, NB, D) == \A P \in HalfLattice(NB, D) : Cardinality({n \in leaves : Contains(n, P, D)}) = 1
\* keys identify leaves
KeysInjective(leaves) == \A a, b \in leaves : (BlockKey(a) = BlockKey(b) /\ CellKey(a) = CellKey(b)) => a = b
\* neighbour relations are mutual: the neighbour b of leaf a is not finer than a, touches a across that face, and
\* b's pointer back (or, when b has children, the pointer back of the part of b that touches a) leads to a or to an
\* ancestor of a
Opposite(leaves, NB, per, a, k, sg) ==
    LET b == Ngb(leaves, NB, per, a, k, sg)
    IN b = None \/ /\ Level(b) <= Level(a)
                   /\ LET back == Ngb(leaves, NB, per, b, k, -sg)
                      IN IsPrefix(back, a) \/ IsPrefix(a, back)
                   /\ LET Lb == Level(b)
                          sh == Pow(2, Level(a) - Lb)
                          Mb == NB[k] * Pow(2, Lb)
                      IN /\ \A j \in (1 .. 3) \ {k} : Coord(b, j) = Coord(a, j) \div sh
                         /\ Coord(b, k) = (((Coord(a, k) + sg + NB[k] * Pow(2, Level(a))) % (NB[k] * Pow(2, Level(a)))) \div sh) % Mb
NgbMutual(leaves, NB, per) == \A a \in leaves : \A k \in 1 .. 3 : \A sg \in {-1, 1} : Opposite(leaves, NB, per, a, k, sg)
=============================================================================
