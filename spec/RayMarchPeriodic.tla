--------------------------- MODULE RayMarchPeriodic ---------------------------
(***************************************************************************)
(* C16 / C03, Layer B: the cell-by-cell march of RayMarch with PERIODIC     *)
(* boundaries as CartesianDensityGrid::is_inside does them: when the cell   *)
(* index leaves the block along a periodic axis it is set to the first /    *)
(* last cell of that axis and the position is shifted by one box side, so   *)
(* that x(T) = p + T d / 24 stays inside the box (here: p is shifted).      *)
(* Refinement claim: the deposits are those of the closed-form geometry on  *)
(* the UNFOLDED lattice (R replicas of the box along the periodic axes the  *)
(* packet moves along), folded back cell by cell; absorbed-or-left and the  *)
(* end point (folded) agree as well.  Opacities are >= 1 and targets small  *)
(* enough that the packet ends inside the R replicas.                       *)
(***************************************************************************)
EXTENDS RayLattice, TLC

CONSTANTS PX, PY, PZ,      \* periodic flags
          R,               \* replicas of the box in Layer A along a periodic axis the packet moves along
          NX, NY, NZ,      \* cells per axis
          DMax,            \* direction components in -DMax .. DMax
          Kaps,            \* set of opacity patterns: functions flat index (1-based) -> opacity
          Taus2            \* set of target optical depths in half units (odd)

N == <<NX, NY, NZ>>
NCell == NX * NY * NZ
Dirs == {d \in (-DMax .. DMax) \X (-DMax .. DMax) \X (-DMax .. DMax) : d # <<0, 0, 0>>}
Starts == (0 .. 4 * NX - 1) \X (0 .. 4 * NY - 1) \X (0 .. 4 * NZ - 1)

Per == <<PX, PY, PZ>>
VARIABLES p0, p, d, kap, tau2,   \* the case (p0, d, kap, tau2 constant along a behaviour; p is shifted at every wrap)
          c, t, acc2, dep4, phase, exit
vars == <<p0, p, d, kap, tau2, c, t, acc2, dep4, phase, exit>>

Sign(x) == IF x > 0 THEN 1 ELSE IF x < 0 THEN -1 ELSE 0
\* a packet on the lower boundary of the block moving outwards leaves immediately: not a valid start
ValidStart(pp, dd) == \A k \in 1 .. 3 : ~(pp[k] = 0 /\ dd[k] < 0 /\ ~Per[k])

Init == /\ p \in Starts /\ p0 = p /\ d \in Dirs /\ ValidStart(p, d)
        /\ kap \in Kaps /\ tau2 \in Taus2
        /\ c = <<p[1] \div 4, p[2] \div 4, p[3] \div 4>>
        /\ t = 0 /\ acc2 = 0 /\ dep4 = [i \in 1 .. NCell |-> 0]
        /\ phase = "run" /\ exit = <<0, 0, 0>>

\* time at which the packet reaches the wall of the current cell it moves towards along axis k
WallT(k) == IF d[k] > 0 THEN (24 * (4 * (c[k] + 1) - p[k])) \div d[k]
            ELSE IF d[k] < 0 THEN (24 * (4 * c[k] - p[k])) \div d[k]
            ELSE INF
NextT == Min2(Min2(WallT(1), WallT(2)), WallT(3))
Inside(cc) == \A k \in 1 .. 3 : cc[k] >= 0 /\ cc[k] < N[k]

Step ==
    /\ phase = "run"
    /\ LET tn == NextT
           L == tn - t
           i == Flat(N, c) + 1
           k0 == kap[i]
       IN IF k0 > 0 /\ 2 * k0 * L + acc2 > tau2
          THEN /\ dep4' = [dep4 EXCEPT ![i] = @ + ((tau2 - acc2) * 2) \div k0]
               /\ t' = t                     \* (the end time is kept in quarter units by EndT4)
               /\ acc2' = tau2
               /\ phase' = "absorbed"
               /\ UNCHANGED <<c, p, exit>>
          ELSE LET cn == [k \in 1 .. 3 |-> IF WallT(k) = tn THEN c[k] + Sign(d[k]) ELSE c[k]]
                   \* periodic wrap of the index, with the matching shift of the position
                   cw == [k \in 1 .. 3 |-> IF Per[k] /\ cn[k] < 0 THEN N[k] - 1
                                           ELSE IF Per[k] /\ cn[k] >= N[k] THEN 0 ELSE cn[k]]
                   pw == [k \in 1 .. 3 |-> IF Per[k] /\ cn[k] < 0 THEN p[k] + 4 * N[k]
                                           ELSE IF Per[k] /\ cn[k] >= N[k] THEN p[k] - 4 * N[k] ELSE p[k]]
               IN /\ dep4' = [dep4 EXCEPT ![i] = @ + 4 * L]
                  /\ acc2' = acc2 + 2 * k0 * L
                  /\ t' = tn
                  /\ c' = cw /\ p' = pw
                  /\ IF Inside(cw) THEN phase' = "run" /\ UNCHANGED exit
                     ELSE /\ phase' = "left"
                          /\ exit' = [k \in 1 .. 3 |-> IF cw[k] < 0 THEN -1 ELSE IF cw[k] >= N[k] THEN 1 ELSE 0]
    /\ UNCHANGED <<p0, d, kap, tau2>>

Next == Step
Spec == Init /\ [][Next]_vars /\ WF_vars(Step)

\* ---- refinement: the march ends with exactly the closed-form geometry ----
RECURSIVE SumTo(_, _)
SumTo(f, n) == IF n = 0 THEN 0 ELSE f[n] + SumTo(f, n - 1)
\* Layer A on the unfolded lattice: R replicas along every periodic axis the packet moves along, start in the first
\* (moving up) or last (moving down) replica
Rep(k) == IF Per[k] /\ d[k] # 0 THEN R ELSE 1
NU == <<NX * Rep(1), NY * Rep(2), NZ * Rep(3)>>
Off(k) == IF Per[k] /\ d[k] < 0 THEN R - 1 ELSE 0
PU == <<p0[1] + 4 * NX * Off(1), p0[2] + 4 * NY * Off(2), p0[3] + 4 * NZ * Off(3)>>
FoldedCell(j) ==          \* flat (1-based) index on the unfolded lattice -> flat index of the cell of the box
    LET iz == (j - 1) % NU[3]
        iy == ((j - 1) \div NU[3]) % NU[2]
        ix == (j - 1) \div (NU[3] * NU[2])
    IN Flat(N, <<ix % NX, iy % NY, iz % NZ>>) + 1
KapU == [j \in 1 .. NU[1] * NU[2] * NU[3] |-> kap[FoldedCell(j)]]
Geo == Trace(NU, PU, d, KapU, tau2)
Folded(dp) == [i \in 1 .. NCell |->
                 LET RECURSIVE S(_)
                     S(j) == IF j = 0 THEN 0 ELSE (IF FoldedCell(j) = i THEN dp[j] ELSE 0) + S(j - 1)
                 IN S(NU[1] * NU[2] * NU[3])]
\* the packet ends inside the unfolded lattice, or leaves it through a face of an axis that is not periodic
Decided == Geo.absorbed \/ \A k \in 1 .. 3 : Geo.exit[k] # 0 => ~Per[k]
MarchRefinesGeometry ==
    (phase # "run" /\ Decided) =>
        /\ (phase = "absorbed") = Geo.absorbed
        /\ dep4 = Folded(Geo.dep4)
        /\ acc2 = Geo.used2
        /\ phase = "left" => /\ exit = Geo.exit
                             /\ 4 * t = Geo.t4
\* a march that is still running after the unfolded lattice has been left is outside Layer A's reach: bounded away by
\* the constraint StillInside in the model
StillInside == 4 * t <= 4 * BlockOut(NU, PU, d)
\* along the way: what has been credited so far is the time travelled, the optical depth used is sum of opacity x length
Dot2(f, g, n) == LET RECURSIVE D(_)
                     D(j) == IF j = 0 THEN 0 ELSE f[j] * g[j] + D(j - 1)
                 IN D(n)
PathSum == phase = "run" => /\ SumTo(dep4, NCell) = 4 * t
                            /\ Dot2(dep4, kap, NCell) = 2 * acc2
\* the march always ends (the packet is absorbed or leaves)
Terminates == <>(phase # "run")
=============================================================================
