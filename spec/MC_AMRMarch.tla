----------------------------- MODULE MC_AMRMarch -----------------------------
(* One block refined to depth 2 in one octant (15 leaves), resp. two blocks with one refined: every start point of a   *)
(* sub-lattice that contains cell corners, faces and interiors of all levels, all directions, opacities incl. zero.    *)
EXTENDS AMRMarch
N(b, pth) == [b |-> b, path |-> pth]
\* block <<0,0,0>>: refined; its child 0 refined again
MC_Leaves1 == {N(<<0, 0, 0>>, <<dg>>) : dg \in 1 .. 7} \cup {N(<<0, 0, 0>>, <<0, dg>>) : dg \in 0 .. 7}
\* two blocks along x: the first refined once, the second not
MC_Leaves2 == {N(<<0, 0, 0>>, <<dg>>) : dg \in 0 .. 7} \cup {N(<<1, 0, 0>>, <<>>)}
MC_Kap(n) == IF Len(n.path) = 2 THEN (IF n.path[2] % 3 = 0 THEN 0 ELSE 2) ELSE (IF Len(n.path) = 1 /\ n.path[1] = 7 THEN 0 ELSE 1)
MC_Taus == {5, 61, 100001}
MC_Starts16 == {0, 1, 2, 4, 5, 8, 11, 12, 15}
MC_Starts8 == {0, 1, 3, 4, 6, 7}
=============================================================================
