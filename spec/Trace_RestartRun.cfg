SPECIFICATION Spec
CONSTRAINT TrackL
INVARIANTS ContinuationExact DumpIdempotent ComponentRoundTrip ReferenceReproducible RunsComplete
POSTCONDITION PrintMaxL
CHECK_DEADLOCK FALSE
