----------------------------- MODULE SubgridLayout -----------------------------
(***************************************************************************)
(* C03, Layer A for the hand-over bookkeeping, stated from first           *)
(* principles:                                                             *)
(*  - a travel direction IS a sign triple in {-1,0,1}^3; its number is its  *)
(*    position in the enumeration INSIDE, 8 corners, 12 edges, 6 faces      *)
(*    (P before N, x before y before z);                                   *)
(*  - what leaves a subgrid through triple s enters the neighbour through  *)
(*    -s; a ray with velocity v can leave through s iff sign(v_k) = s_k on  *)
(*    the axes where s_k # 0, and enter through s iff sign(v_k) = -s_k;     *)
(*  - the neighbour of subgrid g through s is the subgrid at g + s, with    *)
(*    wrap-around on periodic axes (an axis with one subgrid makes g its    *)
(*    own neighbour), absent otherwise;                                    *)
(*  - copies: every neighbour of a copy (or of an original) is the original *)
(*    or a copy of the geometric neighbour of its original, present iff the *)
(*    geometric neighbour exists; through INSIDE a subgrid sees itself.    *)
(* The records checked against these definitions are dumped from the real  *)
(* TravelDirections tables and DensitySubGridCreator (binding T, tables).  *)
(***************************************************************************)
EXTENDS Integers, Sequences, FiniteSets, TLC, Json, IOUtils

Sg == {-1, 0, 1}
Triples == Sg \X Sg \X Sg
NZ(s) == (IF s[1] # 0 THEN 1 ELSE 0) + (IF s[2] # 0 THEN 1 ELSE 0) + (IF s[3] # 0 THEN 1 ELSE 0)
B(x) == IF x < 0 THEN 1 ELSE 0
DirId(s) ==
    CASE NZ(s) = 0 -> 0
      [] NZ(s) = 3 -> 1 + 4 * B(s[1]) + 2 * B(s[2]) + B(s[3])
      [] NZ(s) = 2 /\ s[1] = 0 -> 9 + 2 * B(s[2]) + B(s[3])
      [] NZ(s) = 2 /\ s[2] = 0 -> 13 + 2 * B(s[1]) + B(s[3])
      [] NZ(s) = 2 /\ s[3] = 0 -> 17 + 2 * B(s[1]) + B(s[2])
      [] NZ(s) = 1 /\ s[1] # 0 -> 21 + B(s[1])
      [] NZ(s) = 1 /\ s[2] # 0 -> 23 + B(s[2])
      [] OTHER -> 25 + B(s[3])
SignsTab == [i \in 0 .. 26 |-> CHOOSE s \in Triples : DirId(s) = i]
Neg(s) == <<-s[1], -s[2], -s[3]>>
O2I(i) == DirId(Neg(SignsTab[i]))
CompatOut(i, v) == \A k \in 1 .. 3 : SignsTab[i][k] # 0 => v[k] = SignsTab[i][k]
CompatIn(i, v) == \A k \in 1 .. 3 : SignsTab[i][k] # 0 => v[k] = -SignsTab[i][k]

\* ---- records ----
Data == JsonDeserialize(IOEnv.CASES)

TablesOK ==
    /\ \A i \in 0 .. 26 : Data.o2i[i + 1] = O2I(i)
    /\ \A i \in 0 .. 26 : Data.o2i[Data.o2i[i + 1] + 1] = i                 \* an involution
    /\ \A k \in 1 .. Len(Data.compat_in) :
         LET r == Data.compat_in[k]
             v == <<r[2], r[3], r[4]>>
         IN (r[5] = 1) = CompatIn(r[1], v) /\ (r[6] = 1) = CompatOut(r[1], v)
    \* what can leave through s can enter through -s
    /\ \A i \in 0 .. 26 : \A v \in Triples : CompatOut(i, v) => CompatIn(O2I(i), v)

\* geometric neighbour of original subgrid g in layout n with periodicity per
Coord(g, n) == <<g \div (n[2] * n[3]), (g \div n[3]) % n[2], g % n[3]>>
Index(c, n) == c[1] * n[2] * n[3] + c[2] * n[3] + c[3]
Wrap(x, m, p) == IF x >= 0 /\ x < m THEN x ELSE IF p = 1 THEN (x + m) % m ELSE -1
GeoNgb(g, s, n, per) ==
    LET c == Coord(g, n)
        w == <<Wrap(c[1] + s[1], n[1], per[1]), Wrap(c[2] + s[2], n[2], per[2]), Wrap(c[3] + s[3], n[3], per[3])>>
    IN IF w[1] < 0 \/ w[2] < 0 \/ w[3] < 0 THEN -1 ELSE Index(w, n)

LayoutOK(L) ==
    LET nsub == L.n[1] * L.n[2] * L.n[3]
        OrigOf == [k \in 1 .. Len(L.subs) |-> L.subs[k].orig]
        OrigOfIndex(i) == IF i < nsub THEN i ELSE (CHOOSE k \in 1 .. Len(L.subs) : L.subs[k].i = i) - 1
    IN /\ \A k \in 1 .. Len(L.subs) :
            LET sb == L.subs[k] IN
            \A i \in 0 .. 26 :
               LET g == GeoNgb(sb.orig, SignsTab[i], L.n, L.per)
                   nb == sb.ngb[i + 1]
               IN IF i = 0 THEN nb = sb.i
                  ELSE IF g = -1 THEN nb = -1
                  ELSE /\ nb >= 0 /\ nb < Len(L.subs)
                       /\ L.subs[nb + 1].i = nb
                       /\ L.subs[nb + 1].orig = g
       \* the number of copies of every original is 2^level
       /\ \A g \in 0 .. nsub - 1 :
            Cardinality({k \in 1 .. Len(L.subs) : L.subs[k].orig = g}) = 2 ^ L.levels[g + 1]
       \* the subgrids are listed by index and an original is its own original
       /\ \A k \in 1 .. Len(L.subs) : L.subs[k].i = k - 1
       /\ \A g \in 0 .. nsub - 1 : L.subs[g + 1].orig = g

LayoutsOK == \A k \in 1 .. Len(Data.layouts) : LayoutOK(Data.layouts[k])
BadLayouts == {k \in 1 .. Len(Data.layouts) : ~LayoutOK(Data.layouts[k])}
ASSUME PrintT(<<"TABLES", TablesOK>>)
ASSUME PrintT(<<"BADLAYOUTS", BadLayouts>>)
VARIABLE x
Init == x = 0
Next == UNCHANGED x
Spec == Init /\ [][Next]_x
=============================================================================
