------------------------------ MODULE PhotonQuota ------------------------------
(***************************************************************************)
(* C01 (launch side), growth beyond the listed clauses: how the requested   *)
(* number of packets N is divided over the entries of a                     *)
(* DistributedPhotonSource (one entry per source and per copy of the        *)
(* subgrid that contains it) and how the entries are drained in batches by  *)
(* concurrent threads.                                                      *)
(*                                                                          *)
(* Static part.  Source i has integer weight ws[i] (its share is ws[i] /    *)
(* Sum(ws); the harness uses weights whose sum is a power of two so that    *)
(* the code's floating point products are exact) and cs[i] entries.         *)
(*   quota_i  = floor(N ws[i] / W), split evenly over the cs[i] entries,    *)
(*              the first (quota_i mod cs[i]) entries get one more;         *)
(*   the N - Sum quota_i left-over packets go, in an unspecified (seeded    *)
(*   random) way, to the entry of each source that follows the ones which   *)
(*   got the remainder.                                                     *)
(* ValidTotals states what every division must satisfy: the totals add up   *)
(* to N exactly, and only the designated entries carry more than their      *)
(* share.                                                                   *)
(*                                                                          *)
(* Dynamic part.  get_photon_batch(e, Max): unlocked check "entry done?",   *)
(* lock, take n = min(Max, total - done), unlock.  Under every interleaving *)
(* each entry hands out exactly its total, in batches of at most Max, and   *)
(* a batch of 0 is only returned for an entry that is drained.              *)
(***************************************************************************)
EXTENDS Integers, Sequences, FiniteSets, TLC

RECURSIVE SumSeq(_, _)
SumSeq(s, i) == IF i > Len(s) THEN 0 ELSE s[i] + SumSeq(s, i + 1)
Min(a, b) == IF a < b THEN a ELSE b

Quota(N, ws, i) == (N * ws[i]) \div SumSeq(ws, 1)
\* global (1-based) index of entry j (0-based) of source i
Base(cs, i) == SumSeq(SubSeq(cs, 1, i - 1), 1)
Share(N, ws, cs, i, j) == Quota(N, ws, i) \div cs[i] + (IF j < Quota(N, ws, i) % cs[i] THEN 1 ELSE 0)
Expected(N, ws, cs) ==
    [e \in 1 .. SumSeq(cs, 1) |->
        LET i == CHOOSE k \in 1 .. Len(cs) : Base(cs, k) < e /\ e <= Base(cs, k) + cs[k]
        IN Share(N, ws, cs, i, e - Base(cs, i) - 1)]
Slot(N, ws, cs, i) == Base(cs, i) + (Quota(N, ws, i) % cs[i]) + 1
Slots(N, ws, cs) == {Slot(N, ws, cs, i) : i \in 1 .. Len(cs)}
ValidTotals(tot, N, ws, cs) ==
    /\ Len(tot) = SumSeq(cs, 1)
    /\ SumSeq(tot, 1) = N
    /\ \A e \in 1 .. Len(tot) : /\ tot[e] >= Expected(N, ws, cs)[e]
                                /\ tot[e] > Expected(N, ws, cs)[e] => e \in Slots(N, ws, cs)

----------------------------------------------------------------------------
\* the drain as a state machine
CONSTANTS Totals,      \* sequence: total of every entry
          MaxBatch, NThreads, MaxCalls
VARIABLES done, lock, pc, ent, got, calls
vars == <<done, lock, pc, ent, got, calls>>
Entries == 1 .. Len(Totals)
Threads == 1 .. NThreads

Init == /\ done = [e \in Entries |-> 0] /\ lock = [e \in Entries |-> 0]
        /\ pc = [t \in Threads |-> "idle"] /\ ent = [t \in Threads |-> 1]
        /\ got = [e \in Entries |-> <<>>] /\ calls = [t \in Threads |-> 0]

Call(t, e) == /\ pc[t] = "idle" /\ calls[t] < MaxCalls
              /\ ent' = [ent EXCEPT ![t] = e] /\ calls' = [calls EXCEPT ![t] = @ + 1]
              /\ pc' = [pc EXCEPT ![t] = "check"] /\ UNCHANGED <<done, lock, got>>
\* unlocked read of the counter
Check(t) == /\ pc[t] = "check"
            /\ IF done[ent[t]] = Totals[ent[t]]
               THEN /\ got' = [got EXCEPT ![ent[t]] = Append(@, 0)] /\ pc' = [pc EXCEPT ![t] = "idle"]
               ELSE /\ pc' = [pc EXCEPT ![t] = "lock"] /\ UNCHANGED got
            /\ UNCHANGED <<done, lock, ent, calls>>
Lock(t) == /\ pc[t] = "lock" /\ lock[ent[t]] = 0
           /\ lock' = [lock EXCEPT ![ent[t]] = t] /\ pc' = [pc EXCEPT ![t] = "take"]
           /\ UNCHANGED <<done, ent, got, calls>>
Take(t) == /\ pc[t] = "take"
           /\ LET n == Min(MaxBatch, Totals[ent[t]] - done[ent[t]])
              IN /\ done' = [done EXCEPT ![ent[t]] = @ + n]
                 /\ got' = [got EXCEPT ![ent[t]] = Append(@, n)]
           /\ pc' = [pc EXCEPT ![t] = "unlock"] /\ UNCHANGED <<lock, ent, calls>>
Unlock(t) == /\ pc[t] = "unlock"
             /\ lock' = [lock EXCEPT ![ent[t]] = 0] /\ pc' = [pc EXCEPT ![t] = "idle"]
             /\ UNCHANGED <<done, ent, got, calls>>
Next == \E t \in Threads : (\E e \in Entries : Call(t, e)) \/ Check(t) \/ Lock(t) \/ Take(t) \/ Unlock(t)
Spec == Init /\ [][Next]_vars

NeverTooMany == \A e \in Entries : done[e] <= Totals[e] /\ SumSeq(got[e], 1) = done[e]
BatchesBounded == \A e \in Entries : \A k \in 1 .. Len(got[e]) : got[e][k] >= 0 /\ got[e][k] <= MaxBatch
\* a batch of 0 is only handed out for a drained entry: every 0 comes after the batches that complete the total
ZeroOnlyWhenDrained == \A e \in Entries : \A k \in 1 .. Len(got[e]) :
                          got[e][k] = 0 => SumSeq(SubSeq(got[e], 1, k), 1) = Totals[e]
\* at most one batch per entry is not full
OneShortBatch == \A e \in Entries : Cardinality({k \in 1 .. Len(got[e]) : got[e][k] > 0 /\ got[e][k] < MaxBatch}) <= 1
=============================================================================
