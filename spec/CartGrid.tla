------------------------------- MODULE CartGrid -------------------------------
(***************************************************************************)
(* C16, Layer A for the regular Cartesian grid on the lattice of           *)
(* RayLattice (a cell = 4 lattice units, cell c = half-open box            *)
(* [4c, 4c+4) per axis): the cell of a position, neighbours across faces   *)
(* with periodic wrap, and the partition / mutuality properties.  Rays are *)
(* RayLattice rays (periodic boxes: the unfolded lattice).                 *)
(***************************************************************************)
EXTENDS RayLattice
InCell(c, P) == \A k \in 1 .. 3 : 4 * c[k] <= P[k] /\ P[k] < 4 * c[k] + 4
CartLocate(N, P) == CHOOSE c \in Cells(N) : InCell(c, P)
NoCell == <<-1, -1, -1>>
CartNgb(N, per, c, k, sg) ==
    LET x == c[k] + sg
    IN IF x >= 0 /\ x < N[k] THEN [c EXCEPT ![k] = x]
       ELSE IF per[k] THEN [c EXCEPT ![k] = (x + N[k]) % N[k]] ELSE NoCell
\* the geometry the neighbour tuple of the code carries, in lattice units (a cell has 4 units per axis): the neighbour's
\* midpoint relative to the cell's (across a periodic boundary: of the periodic image next to the cell; at a reflecting
\* boundary: of the mirror cell), the midpoint of the common face relative to the cell's midpoint, the face area
NgbGeom(k, sg) == [j \in 1 .. 3 |-> IF j = k THEN 4 * sg ELSE 0] \o [j \in 1 .. 3 |-> IF j = k THEN 2 * sg ELSE 0] \o <<16>>
FlatOr(N, c) == IF c = NoCell THEN -1 ELSE Flat(N, c)
Points(N) == (0 .. 4 * N[1] - 1) \X (0 .. 4 * N[2] - 1) \X (0 .. 4 * N[3] - 1)
\* every lattice point of the half-open box lies in exactly one cell
UniqueCell(N) == \A P \in Points(N) : Cardinality({c \in Cells(N) : InCell(c, P)}) = 1
\* neighbour relations are mutual
Mutual(N, per) == \A c \in Cells(N) : \A k \in 1 .. 3 : \A sg \in {-1, 1} :
                     LET n == CartNgb(N, per, c, k, sg) IN n # NoCell => CartNgb(N, per, n, k, -sg) = c
=============================================================================
