-------------------------- MODULE Trace_Containers --------------------------
(***************************************************************************)
(* Binding T/R for C08: call/return histories of the real ThreadSafeVector,*)
(* TaskQueue (+ Task::lock_dependency), ThreadLock and AtomicValue are     *)
(* checked for linearizability against Layer A (ContainersA).  Records     *)
(* are in the order of a process wide sequence number drawn by the         *)
(* harness immediately before a call and immediately after its return.     *)
(*   {"e":"cfg","threads":n,"pool":s,"nq":q,"nl":l,"deps":[[..],..]}       *)
(*   {"e":"reset"}                      fresh containers                   *)
(*   {"e":"call","t":t,"op":o,...}      {"e":"ret","t":t,"r":result}       *)
(*   {"e":"stuck"}                      the run did not terminate             *)
(*   {"e":"quiet","taken":n,"flags":k,"qsize":[..],"locks":[0|1,..],       *)
(*                "ctr":v,"max":m}      observed while no call is pending  *)
(***************************************************************************)
EXTENDS Integers, Sequences, FiniteSets, TLC, Json, IOUtils

TraceLog == ndJsonDeserialize(IOEnv.TRACE)
Cfg == TraceLog[1]
Threads == 1 .. Cfg.threads
PoolSize == Cfg.pool
NQueues == Cfg.nq
NLocks == Cfg.nl
SeqToSet(s) == {s[k] : k \in 1 .. Len(s)}
Deps == [x \in 0 .. (Len(Cfg.deps) - 1) |-> SeqToSet(Cfg.deps[x + 1])]

VARIABLES held, queued, owner, ctr, ctrmax, handed, pend, l, quiet

A == INSTANCE ContainersA
vars == <<held, queued, owner, ctr, ctrmax, handed, pend, l, quiet>>

Rec == TraceLog[l]
IsEvent(e) == l <= Len(TraceLog) /\ Rec.e = e /\ l' = l + 1
NoQuiet == [on |-> FALSE]

Init == A!AInit /\ l = 2 /\ quiet = NoQuiet

TReset == /\ IsEvent("reset")
          /\ held' = [i \in A!Slots |-> 0]
          /\ queued' = [q \in A!Queues |-> {}]
          /\ owner' = [k \in A!Locks |-> 0]
          /\ ctr' = 0 /\ ctrmax' = 0
          /\ handed' = [x \in A!Tasks |-> 0]
          /\ pend' = [t \in Threads |-> A!None]
          /\ quiet' = NoQuiet

CallRec(r) ==
    CASE r.op = "get"  -> [op |-> "get", safe |-> r.safe]
      [] r.op = "free" -> [op |-> "free", i |-> r.i]
      [] r.op = "add"  -> [op |-> "add", q |-> r.q, x |-> r.x]
      [] r.op = "pop"  -> [op |-> "pop", q |-> r.q, try |-> r.try]
      [] r.op = "unl"  -> [op |-> "unl", x |-> r.x]
      [] r.op \in {"lk", "tlk", "ulk"} -> [op |-> r.op, l |-> r.l]
      [] r.op = "ctr"  -> [op |-> "ctr", k |-> r.k, v |-> r.v]

TCall == /\ IsEvent("call")
         /\ A!Call(Rec.t, CallRec(Rec))
         /\ quiet' = NoQuiet

TRet == /\ IsEvent("ret")
        /\ A!Ret(Rec.t, Rec.r)
        /\ quiet' = NoQuiet

TInternal == /\ l <= Len(TraceLog)
             /\ \E t \in Threads : A!Internal(t)
             /\ UNCHANGED <<l, quiet>>

TQuiet == /\ IsEvent("quiet")
          /\ \A t \in Threads : pend[t] = A!None
          /\ quiet' = [on |-> TRUE, taken |-> Rec.taken, flags |-> Rec.flags,
                       qsize |-> Rec.qsize, locks |-> Rec.locks,
                       ctr |-> Rec.ctr, max |-> Rec.max]
          /\ UNCHANGED <<held, queued, owner, ctr, ctrmax, handed, pend>>

\* the run did not finish (the harness gave up waiting).  Layer A allows an
\* operation to block only while it cannot be completed: a get while no slot is
\* free, a lock while the lock is held.  Every other pending call makes the
\* record unmatchable, i.e. the history is rejected.
Blocked(t) == /\ pend[t].st = "inv"
              /\ \/ pend[t].op = "get" /\ \A i \in A!Slots : held[i] # 0
                 \/ pend[t].op = "lk" /\ owner[pend[t].l] # 0
TStuck == /\ IsEvent("stuck")
          /\ \A t \in Threads : pend[t] = A!None \/ Blocked(t)
          /\ UNCHANGED <<quiet>> /\ UNCHANGED <<held, queued, owner, ctr, ctrmax, handed, pend>>

Next == TReset \/ TCall \/ TRet \/ TInternal \/ TQuiet \/ TStuck
Spec == Init /\ [][Next]_vars

NotAccepted == l <= Len(TraceLog)
ASSUME TLCSet(1, 0)
\* once some path has consumed the whole log the search is over: every further
\* state is pruned (depth-first queue, so the first complete path ends the run)
TrackL == /\ TLCSet(1, IF l > TLCGet(1) THEN l ELSE TLCGet(1))
          /\ TLCGet(1) <= Len(TraceLog)
PrintMaxL == PrintT(<<"MAXL", TLCGet(1)>>)

\* ---- Layer-A properties along the history ----
HandedAtMostOnce == A!HandedAtMostOnce
NoGhostTasks == A!NoGhostTasks

\* whenever no operation is in progress the occupancy count equals the number
\* of slots held (and the queue sizes, lock words and counters agree too)
NHeld == Cardinality({i \in A!Slots : held[i] # 0})
QuiescentCount ==
    quiet.on => /\ quiet.taken = NHeld
                /\ quiet.flags = NHeld
QuiescentQueues ==
    quiet.on => \A q \in A!Queues : quiet.qsize[q + 1] = Cardinality(queued[q])
QuiescentLocks ==
    quiet.on => \A k \in A!Locks : (quiet.locks[k + 1] = 1) = (owner[k] # 0)
NoLostUpdate ==
    quiet.on => quiet.ctr = ctr /\ quiet.max = ctrmax
=============================================================================
