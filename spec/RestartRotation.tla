--------------------------- MODULE RestartRotation ---------------------------
(***************************************************************************)
(* C14: rotation of restart dumps (RestartManager::get_restart_writer and  *)
(* the dump that follows), with a crash possible between any two file      *)
(* system operations and, optionally, clean process restarts (a restarted  *)
(* run constructs a fresh RestartManager while the files of the previous   *)
(* process are still in the directory; InitRule says whether the           *)
(* constructor looks at them).                                             *)
(*                                                                         *)
(* Layer A = the operators AfterDumpOK / CrashSafeOK / NoStrayOK over a    *)
(* directory content; they are used as invariants of the Layer-B actions   *)
(* below and, in Trace_RestartRotation, on directories observed from the   *)
(* real code.                                                              *)
(*                                                                         *)
(* Names: -1 is restart.dump, j >= 0 is restart.<j>.back.                  *)
(***************************************************************************)
EXTENDS Integers, FiniteSets

CONSTANTS MaxBackups,    \* configured maximum number of backups (0 upward)
          NDumps,        \* number of dumps explored
          NParts,        \* number of separate writes of one dump
          StartRule,     \* "fixed": shift loop starts at min(max-1, nb)
                         \* "orig" : min(max-1, nb-1) in unsigned arithmetic
          ProcRestarts,  \* number of clean process restarts explored
          InitRule,      \* "probe": a new RestartManager counts the restart files already in the folder
                         \* "fresh": its counters start from zero (the code before fix 3c; violates CrashSafe)
          CrashRestarts, \* number of recoveries explored: after a crash a NEW process is started in the same folder
                         \* (what a crash-safe rotation is for) and goes on taking dumps
          ShiftRule      \* "whenCurrent": the backups are shifted only when there is a restart.dump to move into
                         \*                slot 0 (the code since the fix of the recovery finding)
                         \* "always"     : they are shifted whenever backups are configured (before: a folder with
                         \*                backups but no restart.dump - crash between the move and the open - gets
                         \*                a hole at slot 0 and the NEXT dump aborts)

VARIABLES fs,        \* directory: name -> [ver, complete] (ver = 0: absent)
          nb, nr,    \* _number_of_backups, _number_of_restarts
          pc,        \* position inside the dump procedure
          i,         \* shift loop variable / write part counter
          ver,       \* version (= number) of the newest dump started
          ndone,     \* dumps completed since the directory was empty
          prevGood,  \* version held completely by restart.dump when the
                     \* current dump began (0: none)
          nproc,     \* process restarts so far
          ncrash     \* recoveries from a crash so far

vars == <<fs, nb, nr, pc, i, ver, ndone, prevGood, nproc, ncrash>>

INSTANCE RotationProps

----------------------------------------------------------------------------
Init == /\ fs = [n \in Names |-> Absent]
        /\ nb = 0 /\ nr = 0 /\ pc = "idle" /\ i = 0
        /\ ver = 0 /\ ndone = 0 /\ prevGood = 0 /\ nproc = 0 /\ ncrash = 0

StartIndex ==
    IF StartRule = "fixed" THEN Min(MaxBackups - 1, nb)
    ELSE IF nb = 0 THEN MaxBackups - 1          \* nb - 1 wraps around
    ELSE Min(MaxBackups - 1, nb - 1)

Begin ==
    /\ pc \in {"idle", "recovered"} /\ ver < NDumps
    /\ ver' = ver + 1
    /\ prevGood' = IF fs[-1].complete THEN fs[-1].ver ELSE 0
    /\ IF MaxBackups > 0 /\ (ShiftRule = "always" \/ nr > 0) THEN pc' = "shift" /\ i' = StartIndex
                         ELSE pc' = "open" /\ i' = 0
    /\ UNCHANGED <<fs, nb, nr, ndone, nproc, ncrash>>

\* std::rename(src, dst): fails (and the code aborts) when src does not exist
Rename(src, dst) ==
    IF fs[src] = Absent
    THEN /\ pc' = "aborted" /\ UNCHANGED fs
    ELSE /\ fs' = [fs EXCEPT ![dst] = fs[src], ![src] = Absent]

ShiftOne ==
    /\ pc = "shift" /\ i > 0
    /\ Rename(i - 1, i)
    /\ IF fs[i - 1] = Absent THEN UNCHANGED i ELSE i' = i - 1 /\ pc' = "shift"
    /\ UNCHANGED <<nb, nr, ver, ndone, prevGood, nproc, ncrash>>

ShiftDone ==
    /\ pc = "shift" /\ i <= 0
    /\ pc' = IF nr > 0 THEN "move" ELSE "open"
    /\ UNCHANGED <<fs, nb, nr, i, ver, ndone, prevGood, nproc, ncrash>>

MoveCurrent ==
    /\ pc = "move"
    /\ Rename(-1, 0)
    /\ IF fs[-1] = Absent THEN UNCHANGED nb
       ELSE /\ pc' = "open"
            /\ nb' = IF nb < MaxBackups THEN nb + 1 ELSE nb
    /\ UNCHANGED <<nr, i, ver, ndone, prevGood, nproc, ncrash>>

\* the RestartWriter constructor truncates restart.dump
OpenTrunc ==
    /\ pc = "open"
    /\ nr' = nr + 1
    /\ fs' = [fs EXCEPT ![-1] = File(ver, FALSE)]
    /\ pc' = "write" /\ i' = 0
    /\ UNCHANGED <<nb, ver, ndone, prevGood, nproc, ncrash>>

WritePart ==
    /\ pc = "write" /\ i < NParts
    /\ i' = i + 1
    /\ UNCHANGED <<fs, nb, nr, pc, ver, ndone, prevGood, nproc, ncrash>>

Close ==
    /\ pc = "write" /\ i = NParts
    /\ fs' = [fs EXCEPT ![-1] = File(ver, TRUE)]
    /\ pc' = "idle" /\ ndone' = ndone + 1
    /\ UNCHANGED <<nb, nr, i, ver, prevGood, nproc, ncrash>>

\* the process dies between two operations of a dump
Crash ==
    /\ pc \in {"shift", "move", "open", "write"}
    /\ pc' = "crashed"
    /\ UNCHANGED <<fs, nb, nr, i, ver, ndone, prevGood, nproc, ncrash>>

\* clean stop and restart of the run: fresh counters, same directory
ProcRestart ==
    /\ pc = "idle" /\ nproc < ProcRestarts /\ ndone > 0
    /\ IF InitRule = "probe" /\ MaxBackups > 0
       THEN /\ nr' = IF fs[-1] # Absent THEN 1 ELSE 0
            /\ nb' = Cardinality({k \in 0 .. MaxBackups - 1 : \A j \in 0 .. k : fs[j] # Absent})
       ELSE nb' = 0 /\ nr' = 0
    /\ nproc' = nproc + 1
    /\ UNCHANGED <<fs, pc, i, ver, ndone, prevGood, ncrash>>

Probe == IF InitRule = "probe" /\ MaxBackups > 0
         THEN /\ nr' = IF fs[-1] # Absent THEN 1 ELSE 0
              /\ nb' = Cardinality({k \in 0 .. MaxBackups - 1 : \A j \in 0 .. k : fs[j] # Absent})
         ELSE nb' = 0 /\ nr' = 0
\* recovery: the process died inside a dump; a new process is started in the same folder
CrashRestart ==
    /\ pc = "crashed" /\ ncrash < CrashRestarts
    /\ Probe
    /\ pc' = "recovered" /\ ncrash' = ncrash + 1
    /\ UNCHANGED <<fs, i, ver, ndone, prevGood, nproc>>

Next == CrashRestart \/ Begin \/ ShiftOne \/ ShiftDone \/ MoveCurrent \/ OpenTrunc \/ WritePart
        \/ Close \/ Crash \/ ProcRestart

Spec == Init /\ [][Next]_vars

----------------------------------------------------------------------------
\* Layer-A properties as invariants of Layer B

NeverAborts == pc # "aborted"
AfterDump == (pc = "idle" /\ ndone > 0) =>
               IF ncrash = 0 THEN AfterDumpOK(fs, ver, ndone)
               ELSE AfterRecoveredDumpOK(fs, ver)
CrashSafe == (pc = "crashed") => CrashSafeOK(fs, prevGood)
\* a little more than the property asks for: backups are never incomplete
BackupsComplete == \A j \in 0 .. MaxBackups : fs[j] # Absent => fs[j].complete
CountersOK == /\ nb <= MaxBackups
              /\ (pc = "idle" /\ nproc = 0 /\ ncrash = 0) => nb = Min(MaxBackups, IF nr = 0 THEN 0 ELSE nr - 1)
              \* the counter never claims a backup that is not there
              /\ pc = "idle" => \A j \in 0 .. nb - 1 : fs[j] # Absent
=============================================================================
