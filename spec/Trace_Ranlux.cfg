SPECIFICATION Spec
CONSTRAINT TrackL
INVARIANTS InUnitInterval RingOK CarryOK RunDeterministic SeedMatters StreamAdvances
POSTCONDITION PrintMaxL
CHECK_DEADLOCK FALSE
