SPECIFICATION Spec
CONSTRAINT TrackL
INVARIANTS InUnitInterval RingOK CarryOK RunDeterministic
POSTCONDITION PrintMaxL
CHECK_DEADLOCK FALSE
