SPECIFICATION Spec
CONSTRAINT TrackL
INVARIANTS ExitsNormally OutputsWritten OwnershipProtocol LoopOrder
POSTCONDITION PrintMaxL
CHECK_DEADLOCK FALSE
