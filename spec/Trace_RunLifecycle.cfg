SPECIFICATION Spec
CONSTRAINT TrackL
INVARIANTS ExitsNormally OutputsWritten OwnershipProtocol
POSTCONDITION PrintMaxL
CHECK_DEADLOCK FALSE
