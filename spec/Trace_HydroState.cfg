SPECIFICATION Spec
CONSTRAINT TrackL
INVARIANTS Physical ConservedPeriodic ConservedReflective LayoutIndependent OneThreadBitwise
POSTCONDITION PrintMaxL
CHECK_DEADLOCK FALSE
