SPECIFICATION Spec
CONSTRAINT TrackL
INVARIANTS Physical ConservedPeriodic ConservedReflective LayoutIndependent OneThreadBitwise NotAccepted
POSTCONDITION PrintMaxL
CHECK_DEADLOCK FALSE
