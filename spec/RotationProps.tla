---------------------------- MODULE RotationProps ----------------------------
(***************************************************************************)
(* Layer A of C14: what the property demands of the content of the restart *)
(* directory.  A directory is a function from names to files; name -1 is   *)
(* restart.dump, name j >= 0 is restart.<j>.back; a file is a record       *)
(* [ver, complete], ver = 0 meaning "does not exist".                      *)
(***************************************************************************)
EXTENDS Integers

CONSTANT MaxBackups

Names == -1 .. MaxBackups       \* index MaxBackups must never come to exist
Absent == [ver |-> 0, complete |-> FALSE]
File(v, c) == [ver |-> v, complete |-> c]
Min(a, b) == IF a <= b THEN a ELSE b


\* after dump number v completed, nd dumps having completed in total
AfterDumpOK(f, v, nd) ==
    /\ f[-1] = File(v, TRUE)
    /\ \A j \in 0 .. MaxBackups :
          IF j < MaxBackups /\ j < nd - 1 THEN f[j] = File(v - 1 - j, TRUE)
                                           ELSE f[j] = Absent

\* after dump number v completed in a folder that has seen a crash (files of the interrupted dump may be there): the
\* newest state is in the main file, no file beyond the configured number exists, and the complete backups are kept
\* newest-first (all older than v)
AfterRecoveredDumpOK(f, v) ==
    /\ f[-1] = File(v, TRUE)
    /\ f[MaxBackups] = Absent
    /\ \A j, k \in 0 .. MaxBackups :
          (j < k /\ f[j].complete /\ f[k].complete) => f[j].ver > f[k].ver
    /\ \A j \in 0 .. MaxBackups : f[j].complete => f[j].ver < v

\* after a crash inside a dump that began when version pg was the newest
\* complete dump
CrashSafeOK(f, pg) ==
    (MaxBackups >= 1 /\ pg >= 1) => \E n \in Names : f[n] = File(pg, TRUE)

=============================================================================
