--------------------------- MODULE MC_NearestLattice ---------------------------
(***************************************************************************)
(* Evaluates NearestLattice on the cases of scripts/props/c16.py:          *)
(*  {"S":s,"per":0|1,"pos":[[x,y,z],..],"h2":[..],"q":[[x2,y2,z2,r2],..]} *)
(* Indices are printed 0-based like the code's.                            *)
(***************************************************************************)
EXTENDS NearestLattice, TLC, Json, IOUtils
Cases == JsonDeserialize(IOEnv.CASES)
Zero(S) == {i - 1 : i \in S}
Q3(q) == <<q[1], q[2], q[3]>>
One(c, q) == [ngbs |-> Zero(Ngbs(c.pos, c.h2, Q3(q), c.S, c.per = 1)),
              ngbs_strict |-> Zero(NgbsStrict(c.pos, c.h2, Q3(q), c.S, c.per = 1)),
              sphere |-> Zero(Sphere(c.pos, c.h2, Q3(q), q[4], c.S, c.per = 1)),
              sphere_strict |-> Zero(SphereStrict(c.pos, c.h2, Q3(q), q[4], c.S, c.per = 1)),
              closest |-> Zero(Closest(c.pos, Q3(q), c.S, c.per = 1)),
              closest_open |-> Zero(Closest(c.pos, Q3(q), c.S, FALSE))]
IterOK(c) == IF "iter" \in DOMAIN c
             THEN [k \in 1 .. Len(c.iter) |->
                     [exhaustive |-> IterExhaustive(c.pos, c.iter[k].rank, c.iter[k].dup, c.iter[k].count),
                      complete |-> IterComplete(c.pos, c.iter[k].i + 1, c.iter[k].rank, c.iter[k].stages)]]
             ELSE <<>>
IterResults == [i \in 1 .. Len(Cases) |-> IterOK(Cases[i])]
Results == [i \in 1 .. Len(Cases) |-> [j \in 1 .. Len(Cases[i].q) |-> One(Cases[i], Cases[i].q[j])]]
AllSane == \A i \in 1 .. Len(Cases) : \A j \in 1 .. Len(Cases[i].q) :
              Sane(Cases[i].pos, Cases[i].h2, Q3(Cases[i].q[j]), Cases[i].q[j][4], Cases[i].S, Cases[i].per = 1)
ASSUME AllSane
ASSUME PrintT(<<"SEARCH", ToJson(Results)>>)
ASSUME PrintT(<<"ITER", ToJson(IterResults)>>)
VARIABLE x
Init == x = 0
Next == UNCHANGED x
Spec == Init /\ [][Next]_x
=============================================================================
