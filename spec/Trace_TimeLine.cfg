SPECIFICATION Spec
CONSTRAINT TrackL
INVARIANTS NoOvershoot StepsSumToTime EndsExactly AliveMeansNotAtEnd MinDividesLeft PhysicalOk ContinuesIdentically
POSTCONDITION PrintMaxL
CHECK_DEADLOCK FALSE
