SPECIFICATION Spec
CONSTRAINT TrackL
INVARIANTS NoOvershoot StepsSumToTime EndsExactly AliveMeansNotAtEnd MinDividesLeft PhysicalOk ContinuesIdentically NotAccepted
POSTCONDITION PrintMaxL
CHECK_DEADLOCK FALSE
