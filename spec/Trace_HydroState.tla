-------------------------- MODULE Trace_HydroState --------------------------
(***************************************************************************)
(* Binding T for the numerical halves of C04 and C10 ("HydroStepTrace").   *)
(* TLA+ has no floating point: the harness reduces every observed hydro    *)
(* step to integers (deviations in units of machine epsilon times the      *)
(* natural scale of the quantity, exact sums by compensated summation) and *)
(* flags; this module states the properties over those records and TLC     *)
(* evaluates them on every record.  The bound is a constant of the log     *)
(* with its derivation in DESIGN.md (section 3.3, numeric tolerances).     *)
(*   {"e":"cfg","cbound":b1,"lbound":b2}                                   *)
(*   {"e":"run","periodic":0|1,"walls":0|1}   all axes periodic / some     *)
(*                                            reflecting walls             *)
(*   {"e":"step","k":k,"finite":0|1,"nonneg":0|1,"clamps":n,"slow":0|1,    *)
(*    "dM":i,"dPx":i,"dPy":i,"dPz":i,"dE":i}                               *)
(*        slow = 1: no gas ran into a wall faster than 1.5 c before step k *)
(*   {"e":"cmp","dev":i}      largest cell deviation between two layouts / *)
(*                            thread counts for the same initial state     *)
(*   {"e":"rep","same":0|1}   two one-thread runs of the same              *)
(*                            configuration gave the same digest           *)
(***************************************************************************)
EXTENDS Integers, Sequences, TLC, Json, IOUtils

TraceLog == ndJsonDeserialize(IOEnv.TRACE)
CBound == TraceLog[1].cbound
LBound == TraceLog[1].lbound

VARIABLES l, periodic, walls, cur

vars == <<l, periodic, walls, cur>>
Rec == TraceLog[l]
IsEvent(e) == l <= Len(TraceLog) /\ Rec.e = e /\ l' = l + 1
None == [e |-> "none"]

Init == l = 2 /\ periodic = 0 /\ walls = 0 /\ cur = None

TRun == IsEvent("run") /\ periodic' = Rec.periodic /\ walls' = Rec.walls /\ cur' = None
TStep == IsEvent("step") /\ cur' = Rec /\ UNCHANGED <<periodic, walls>>
TCmp == IsEvent("cmp") /\ cur' = Rec /\ UNCHANGED <<periodic, walls>>
TRep == IsEvent("rep") /\ cur' = Rec /\ UNCHANGED <<periodic, walls>>
Next == TRun \/ TStep \/ TCmp \/ TRep
Spec == Init /\ [][Next]_vars

NotAccepted == l <= Len(TraceLog)
ASSUME TLCSet(1, 0)
TrackL == TLCSet(1, IF l > TLCGet(1) THEN l ELSE TLCGet(1))
PrintMaxL == PrintT(<<"MAXL", TLCGet(1)>>)

IsStep == cur.e = "step"
\* C04: states stay physical
Physical == IsStep => cur.finite = 1 /\ cur.nonneg = 1
\* C04: periodic box, safeguard not triggered: mass, momentum, energy conserved
ConservedPeriodic ==
    (IsStep /\ periodic = 1 /\ cur.clamps = 0) =>
        /\ cur.dM <= CBound /\ cur.dE <= CBound
        /\ cur.dPx <= CBound /\ cur.dPy <= CBound /\ cur.dPz <= CBound
\* C04: reflecting walls, gas slower than 1.5 c at the walls: mass and energy
ConservedReflective ==
    (IsStep /\ walls = 1 /\ cur.clamps = 0 /\ cur.slow = 1) =>
        cur.dM <= CBound /\ cur.dE <= CBound
\* C10
LayoutIndependent == cur.e = "cmp" => cur.dev <= LBound
OneThreadBitwise == cur.e = "rep" => cur.same = 1
=============================================================================
