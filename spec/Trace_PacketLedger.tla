------------------------- MODULE Trace_PacketLedger -------------------------
(***************************************************************************)
(* C01, Layer A ("PacketLedger") on executions of the real task-based      *)
(* photoionization iteration.  The ledger counts packets, not identities:  *)
(*   unborn   requested packets no source task has produced yet            *)
(*   staging  packets in the thread-local buffers of the continuous source *)
(*   inbuf[b] packets in pool buffer b (domain = buffers in use)           *)
(*   done     packets accounted for as terminated                          *)
(* Every record is one atomic transfer between these places, recorded by   *)
(* the hooks before the transfer becomes visible to other threads (before  *)
(* the done counter is increased and before new tasks are queued):         *)
(*   it.begin req  | src.d n b | cont.draw n | cont.send n b               *)
(*   trav b nin abs esc mov reem done moves=[[d,k,into,size_into,newb,     *)
(*        size_newb],..]   one traversal task: nin packets of buffer b     *)
(*        were absorbed / left the box / moved on (tallied from what       *)
(*        physically happened to each packet), k packets went to direction *)
(*        d, filling buffer "into" and possibly overflowing into "newb";   *)
(*        "done" is what the code adds to its done counter                 *)
(*   reemit b nin nout done | reemit.ids b in sel out | prem d b n |       *)
(*   term.set | it.end (census)                                            *)
(* A violated requirement adds a tag to the variable bad; each tag is one  *)
(* named invariant, so TLC reports which clause failed and where.          *)
(***************************************************************************)
EXTENDS Integers, Sequences, FiniteSets, TLC, Json, IOUtils

TraceLog == ndJsonDeserialize(IOEnv.TRACE)
\* (first record: {"e":"cfg","nbuf":n}, informational)

VARIABLES l, req, unborn, staging, done, inbuf, pool, ended, bad
\* pool = number of packets in all pool buffers (kept incrementally; equal to the
\* sum of the positive entries of inbuf by construction of every action)
vars == <<l, req, unborn, staging, done, inbuf, pool, ended, bad>>
Rec == TraceLog[l]
IsEvent(e) == l <= Len(TraceLog) /\ Rec.e = e /\ l' = l + 1

Init == /\ l = 2 /\ req = 0 /\ unborn = 0 /\ staging = 0 /\ done = 0
        /\ inbuf = <<>> /\ pool = 0 /\ ended = FALSE /\ bad = {}

Tag(cond, tag) == IF cond THEN {} ELSE {tag}
\* inbuf is a function whose domain is the set of buffers in use
Alive(f, b) == b \in DOMAIN f
Count(f, b) == IF b \in DOMAIN f THEN f[b] ELSE 0
Put(f, b, n) == [x \in (DOMAIN f) \cup {b} |-> IF x = b THEN n ELSE f[x]]
Del(f, b) == [x \in (DOMAIN f) \ {b} |-> f[x]]
TBegin == /\ IsEvent("it.begin")
          /\ req' = Rec.req /\ unborn' = Rec.req /\ staging' = 0 /\ done' = 0
          /\ inbuf' = <<>> /\ pool' = 0 /\ ended' = FALSE
          /\ bad' = bad \cup Tag(Rec.bufs = 0, "leftover")

TSrcD == /\ IsEvent("src.d")
         /\ unborn' = unborn - Rec.n
         /\ inbuf' = Put(inbuf, Rec.b, Rec.n)
         /\ pool' = pool - Count(inbuf, Rec.b) + Rec.n
         /\ bad' = bad \cup Tag(unborn >= Rec.n, "launch") \cup Tag(~Alive(inbuf, Rec.b), "buffer")
         /\ UNCHANGED <<req, staging, done, ended>>

TDraw == /\ IsEvent("cont.draw")
         /\ unborn' = unborn - Rec.n /\ staging' = staging + Rec.n
         /\ bad' = bad \cup Tag(unborn >= Rec.n, "launch")
         /\ UNCHANGED <<req, done, inbuf, pool, ended>>

TSend == /\ IsEvent("cont.send")
         /\ staging' = staging - Rec.n
         /\ inbuf' = Put(inbuf, Rec.b, Rec.n)
         /\ pool' = pool - Count(inbuf, Rec.b) + Rec.n
         /\ bad' = bad \cup Tag(staging >= Rec.n /\ Rec.n > 0, "launch") \cup Tag(~Alive(inbuf, Rec.b), "buffer")
         /\ UNCHANGED <<req, unborn, done, ended>>

\* apply the moves of a traversal one after the other; returns
\* <<inbuf, ok, change of the number of packets in the pool>>
RECURSIVE ApplyMoves(_, _, _)
ApplyMoves(f, moves, i) ==
    IF i > Len(moves) THEN <<f, TRUE, 0>>
    ELSE LET m == moves[i]
             k == m[2]  into == m[3]  szi == m[4]  nb == m[5]  szn == m[6]
             old == Count(f, into)
             f1 == Put(f, into, szi)
             f2 == IF nb >= 0 /\ szn > 0 THEN Put(f1, nb, szn) ELSE f1
             ok == /\ szi + (IF nb >= 0 THEN szn ELSE 0) = old + k
                   /\ (nb >= 0 => ~Alive(f, nb) /\ nb # into)
             rest == ApplyMoves(f2, moves, i + 1)
         IN <<rest[1], ok /\ rest[2], (szi + (IF nb >= 0 THEN szn ELSE 0) - old) + rest[3]>>

RECURSIVE SumK(_, _, _)
SumK(moves, i, zero) ==
    IF i > Len(moves) THEN 0
    ELSE (IF (moves[i][1] = 0) = zero THEN moves[i][2] ELSE 0) + SumK(moves, i + 1, zero)

TTrav == /\ IsEvent("trav")
         /\ LET k0 == SumK(Rec.moves, 1, TRUE)
                kpos == SumK(Rec.moves, 1, FALSE)
                freed == Del(inbuf, Rec.b)
                res == ApplyMoves(freed, Rec.moves, 1)
            IN /\ inbuf' = res[1]
               /\ pool' = pool - Count(inbuf, Rec.b) + res[3]
               /\ done' = done + Rec.done
               /\ bad' = bad
                    \cup Tag(Alive(inbuf, Rec.b) /\ Count(inbuf, Rec.b) = Rec.nin, "input")
                    \cup Tag(Rec.nin = Rec.abs + Rec.esc + Rec.mov, "classify")
                    \cup Tag(k0 = (IF Rec.reem = 1 THEN Rec.abs ELSE 0) /\ kpos = Rec.mov, "stored")
                    \cup Tag(Rec.done = Rec.esc + (Rec.abs - k0), "account")
                    \cup Tag(res[2], "overflow")
         /\ UNCHANGED <<req, unborn, staging, ended>>

TReemit == /\ IsEvent("reemit")
           /\ inbuf' = IF Rec.nout = 0 THEN Del(inbuf, Rec.b) ELSE Put(inbuf, Rec.b, Rec.nout)
           /\ pool' = pool - Count(inbuf, Rec.b) + Rec.nout
           /\ done' = done + Rec.done
           /\ bad' = bad \cup Tag(Alive(inbuf, Rec.b) /\ Count(inbuf, Rec.b) = Rec.nin, "input")
                         \cup Tag(Rec.nout <= Rec.nin /\ Rec.done = Rec.nin - Rec.nout, "account")
           /\ UNCHANGED <<req, unborn, staging, ended>>

\* identity of the packets through a re-emission task: "in" = fingerprints of the packets in the buffer before the
\* task, "sel" = (0-based, increasing) indices of the packets the handler re-emitted, "out" = fingerprints of the
\* packets left in the buffer afterwards.  Exactly the re-emitted packets continue, each once, in their order.
TReemitIds == /\ IsEvent("reemit.ids")
              /\ bad' = bad \cup Tag(/\ Len(Rec.out) = Len(Rec.sel)
                                      /\ \A k \in 1 .. Len(Rec.sel) : /\ Rec.sel[k] < Len(Rec.in)
                                                                      /\ (k > 1 => Rec.sel[k - 1] < Rec.sel[k])
                                                                      /\ Rec.out[k] = Rec.in[Rec.sel[k] + 1], "identity")
              /\ UNCHANGED <<req, unborn, staging, done, inbuf, pool, ended>>

TPrem == /\ IsEvent("prem")
         /\ bad' = bad \cup Tag(Alive(inbuf, Rec.b) /\ Count(inbuf, Rec.b) = Rec.n /\ Rec.n > 0, "input")
         /\ UNCHANGED <<req, unborn, staging, done, inbuf, pool, ended>>

TTerm == /\ IsEvent("term.set")
         /\ ended' = TRUE
         /\ bad' = bad \cup Tag(done = req /\ unborn = 0, "early")
         /\ UNCHANGED <<req, unborn, staging, done, inbuf, pool>>

TEnd == /\ IsEvent("it.end")
        /\ bad' = bad
             \cup Tag(Rec.done = req /\ done = req /\ unborn = 0, "count")
             \cup Tag(/\ DOMAIN inbuf = {}
                      /\ pool = 0 /\ staging = 0 /\ Rec.staged = 0
                      /\ Rec.bufs = 0 /\ Rec.queued = 0 /\ Rec.actbuf = 0
                      /\ (Rec.plot = 1 \/ Rec.tasks = 0), "leftover")
             \cup Tag(ended, "early")
        /\ UNCHANGED <<req, unborn, staging, done, inbuf, pool, ended>>

Next == TBegin \/ TSrcD \/ TDraw \/ TSend \/ TTrav \/ TReemit \/ TReemitIds \/ TPrem \/ TTerm \/ TEnd
Spec == Init /\ [][Next]_vars

NotAccepted == l <= Len(TraceLog)
ASSUME TLCSet(1, 0)
TrackL == TLCSet(1, IF l > TLCGet(1) THEN l ELSE TLCGet(1))
PrintMaxL == PrintT(<<"MAXL", TLCGet(1)>>)

\* ---- the properties of C01 ----
\* a packet is never lost or duplicated
Conservation == unborn + staging + pool + done = req
\* every packet is classified exactly once and accounted exactly once
ExactlyOnce == bad \cap {"classify", "stored", "account", "input", "identity"} = {}
\* nothing is lost or duplicated when a full buffer overflows into a fresh one
OverflowExact == "overflow" \notin bad
\* sources hand out exactly the requested number, into fresh buffers
LaunchExact == bad \cap {"launch", "buffer"} = {}
\* the iteration ends only when all requested packets are accounted for
EndOnlyWhenDone == bad \cap {"early", "count"} = {}
\* nothing is left behind for the next iteration
CleanEnd == "leftover" \notin bad
=============================================================================
