----------------------------- MODULE Containers -----------------------------
(***************************************************************************)
(* Layer B for C08: the scheduler containers at the granularity of single  *)
(* atomic operations, exactly in the order the code performs them:         *)
(*                                                                         *)
(*  ThreadSafeVector::get_free_element[_safe]                              *)
(*      [value(taken)] ; post_increment(cursor) ; lock(flag[idx]) (retry   *)
(*      from post_increment on failure) ; pre_increment(taken) ;           *)
(*      max(maxtaken) ; pre_increment(total)                               *)
(*  ThreadSafeVector::free_element      unlock(flag[i]) ; pre_decrement    *)
(*  TaskQueue::add_task                 lock(qlock) spin ; body ; unlock   *)
(*  TaskQueue::get_task / try_get_task  lock(qlock) spin / once ; scan     *)
(*      from the top: Task::lock_dependency = lock(dep0) ; lock(dep1) ;    *)
(*      roll-back unlock(dep0) ; remove + shuffle ; unlock(qlock)          *)
(*  Task::unlock_dependency             unlock(dep1) ; unlock(dep0)        *)
(*  ThreadLock lock / try_lock / unlock, AtomicValue counter operations    *)
(*                                                                         *)
(* One transition of thread t = the atomic operation t is parked in front  *)
(* of, plus the thread-local code up to its next atomic operation.  This   *)
(* is exactly one grant of the replay controller of the C08 harness (a     *)
(* CMI_VP yield point precedes every AtomicValue operation), so a          *)
(* behaviour of this spec is a schedule for the real code; the label of    *)
(* the pending operation (th[t].lab) and the projected shared state are    *)
(* compared after every grant.                                             *)
(*                                                                         *)
(* Threads run scripts (sequences of operation records, constant Scripts); *)
(* operations that are impossible in the thread's local state are skipped  *)
(* (free without a slot, unlock without a task, ...) as in the harness.    *)
(***************************************************************************)
EXTENDS Integers, Sequences, FiniteSets, TLC

CONSTANTS NT,          \* worker threads 1..NT
          PoolSize, NQueues, NLocks,
          DepSeq,      \* task id -> sequence of 1 or 2 lock ids (dependency, extra dependency)
          InitQueue,   \* queue id -> initial content (sequence of task ids, bottom first)
          Scripts      \* thread -> sequence of operation records

VARIABLES cursor, flag, taken, maxtaken, total, qlock, queue, lk, ctr, ctrmax, th

vars == <<cursor, flag, taken, maxtaken, total, qlock, queue, lk, ctr, ctrmax, th>>

Threads == 1 .. NT
Slots == 0 .. (PoolSize - 1)
Queues == 0 .. (NQueues - 1)
Locks == 0 .. (NLocks - 1)
Tasks == DOMAIN DepSeq
DepSet(x) == {DepSeq[x][k] : k \in 1 .. Len(DepSeq[x])}
MaxOf(a, b) == IF a >= b THEN a ELSE b
Top(s) == s[Len(s)]
Pop(s) == SubSeq(s, 1, Len(s) - 1)
RemoveAt(s, k) == SubSeq(s, 1, k - 1) \o SubSeq(s, k + 1, Len(s))

----------------------------------------------------------------------------
\* thread-local control: which operation comes next, and its first yield point

\* is operation o executable in local state r (otherwise the harness skips it)
Effective(o, r) ==
    CASE o.k = "f"  -> r.slots # <<>>
      [] o.k = "u"  -> r.task >= 0
      [] o.k = "ra" -> r.mine >= 0
      [] o.k \in {"p", "tp"} -> r.task < 0
      [] o.k = "lk" -> r.xlock < 0 /\ r.task < 0
      [] o.k = "tl" -> r.xlock < 0
      [] o.k = "ul" -> r.xlock >= 0
      [] OTHER -> TRUE

RECURSIVE NextIp(_, _, _)
NextIp(t, r, i) ==
    IF i > Len(Scripts[t]) THEN i
    ELSE IF Effective(Scripts[t][i], r) THEN i ELSE NextIp(t, r, i + 1)

\* first yield point (pc, label) of operation o in local state r
FirstPc(o, r) ==
    CASE o.k = "g"  -> <<"g.cur", "post_increment">>
      [] o.k = "gs" -> <<"g.chk", "value">>
      [] o.k = "f"  -> <<"f.unl", "unlock">>
      [] o.k \in {"a", "ra"} -> <<"a.lk", "lock">>
      [] o.k \in {"p", "tp"} -> <<"p.lk", "lock">>
      [] o.k = "u"  -> IF Len(DepSeq[r.task]) = 2 THEN <<"u.d1", "unlock">> ELSE <<"u.d0", "unlock">>
      [] o.k = "lk" -> <<"l.lk", "lock">>
      [] o.k = "tl" -> <<"l.try", "lock">>
      [] o.k = "ul" -> <<"l.unl", "unlock">>
      [] o.k = "c"  -> <<"c.op", IF o.kind = "max" THEN "max"
                                  ELSE IF o.kind = "post_inc" THEN "post_increment"
                                  ELSE IF o.kind = "pre_inc" THEN "pre_increment"
                                  ELSE IF o.kind = "pre_dec" THEN "pre_decrement"
                                  ELSE IF o.kind = "post_add" THEN "post_add"
                                  ELSE IF o.kind = "pre_add" THEN "pre_add"
                                  ELSE "pre_subtract">>

\* local state after the current operation has returned: move to the next
\* executable operation and park in front of its first atomic operation
Finish(t, r) ==
    LET i == NextIp(t, r, r.ip + 1)
        r1 == [r EXCEPT !.ip = i, !.mid = FALSE]
    IN IF i > Len(Scripts[t]) THEN [r1 EXCEPT !.pc = "done", !.lab = "-"]
       ELSE LET f == FirstPc(Scripts[t][i], r1)
            IN [r1 EXCEPT !.pc = f[1], !.lab = f[2]]

\* stay inside the operation, parked in front of the atomic operation lab
Goto(r, pc, lab) == [r EXCEPT !.pc = pc, !.lab = lab, !.mid = TRUE]

Op(t) == Scripts[t][th[t].ip]

InitLocal(t) ==
    LET r0 == [ip |-> 0, pc |-> "start", lab |-> "-", mid |-> FALSE, slots |-> <<>>,
               task |-> -1, mine |-> -1, xlock |-> -1, idx |-> 0, scan |-> 0,
               q |-> 0, nt |-> 0, res |-> -1, old |-> 0]
    IN Finish(t, r0)

Init == /\ cursor = 0
        /\ flag = [i \in Slots |-> FALSE]
        /\ taken = 0 /\ maxtaken = 0 /\ total = 0
        /\ qlock = [q \in Queues |-> FALSE]
        /\ queue = InitQueue
        /\ lk = [l \in Locks |-> FALSE]
        /\ ctr = 0 /\ ctrmax = 0
        /\ th = [t \in Threads |-> InitLocal(t)]

----------------------------------------------------------------------------
\* pool

GChk(t) == /\ th[t].pc = "g.chk"
           /\ th' = [th EXCEPT ![t] = IF taken < PoolSize
                                       THEN Goto(@, "g.cur", "post_increment")
                                       ELSE Finish(t, [@ EXCEPT !.res = -1])]
           /\ UNCHANGED <<cursor, flag, taken, maxtaken, total, qlock, queue, lk, ctr, ctrmax>>

GCur(t) == /\ th[t].pc = "g.cur"
           /\ cursor' = (cursor + 1) % PoolSize
           /\ th' = [th EXCEPT ![t] = Goto([@ EXCEPT !.idx = cursor], "g.cas", "lock")]
           /\ UNCHANGED <<flag, taken, maxtaken, total, qlock, queue, lk, ctr, ctrmax>>

GCas(t) == /\ th[t].pc = "g.cas"
           /\ IF flag[th[t].idx]
              THEN /\ th' = [th EXCEPT ![t] = Goto(@, "g.cur", "post_increment")]
                   /\ UNCHANGED flag
              ELSE /\ flag' = [flag EXCEPT ![th[t].idx] = TRUE]
                   /\ th' = [th EXCEPT ![t] = Goto(@, "g.inc", "pre_increment")]
           /\ UNCHANGED <<cursor, taken, maxtaken, total, qlock, queue, lk, ctr, ctrmax>>

GInc(t) == /\ th[t].pc = "g.inc"
           /\ taken' = taken + 1
           /\ th' = [th EXCEPT ![t] = Goto([@ EXCEPT !.nt = taken + 1], "g.max", "max")]
           /\ UNCHANGED <<cursor, flag, maxtaken, total, qlock, queue, lk, ctr, ctrmax>>

\* AtomicValue::max = load, compare-and-swap, and on failure reload + compare-and-swap again (three yield points:
\* "max" before the load, "max.cas" before the first swap, "max.retry" before the reload; the reload and the swap that
\* follows it happen inside one grant, so that swap succeeds)
GMax(t) == /\ th[t].pc = "g.max"
           /\ th' = [th EXCEPT ![t] = Goto([@ EXCEPT !.old = maxtaken], "g.mcas", "max.cas")]
           /\ UNCHANGED <<cursor, flag, taken, maxtaken, total, qlock, queue, lk, ctr, ctrmax>>
GMCas(t) == /\ th[t].pc = "g.mcas"
            /\ IF maxtaken = th[t].old
               THEN /\ maxtaken' = MaxOf(th[t].old, th[t].nt)
                    /\ th' = [th EXCEPT ![t] = Goto(@, "g.tot", "pre_increment")]
               ELSE /\ UNCHANGED maxtaken
                    /\ th' = [th EXCEPT ![t] = Goto(@, "g.mret", "max.retry")]
            /\ UNCHANGED <<cursor, flag, taken, total, qlock, queue, lk, ctr, ctrmax>>
GMRet(t) == /\ th[t].pc = "g.mret"
            /\ maxtaken' = MaxOf(maxtaken, th[t].nt)
            /\ th' = [th EXCEPT ![t] = Goto(@, "g.tot", "pre_increment")]
            /\ UNCHANGED <<cursor, flag, taken, total, qlock, queue, lk, ctr, ctrmax>>

GTot(t) == /\ th[t].pc = "g.tot"
           /\ total' = total + 1
           /\ th' = [th EXCEPT ![t] = Finish(t, [@ EXCEPT !.slots = Append(@, th[t].idx),
                                                          !.res = th[t].idx])]
           /\ UNCHANGED <<cursor, flag, taken, maxtaken, qlock, queue, lk, ctr, ctrmax>>

FUnl(t) == /\ th[t].pc = "f.unl"
           /\ flag' = [flag EXCEPT ![Top(th[t].slots)] = FALSE]
           /\ th' = [th EXCEPT ![t] = Goto([@ EXCEPT !.slots = Pop(@)], "f.dec", "pre_decrement")]
           /\ UNCHANGED <<cursor, taken, maxtaken, total, qlock, queue, lk, ctr, ctrmax>>

FDec(t) == /\ th[t].pc = "f.dec"
           /\ taken' = taken - 1
           /\ th' = [th EXCEPT ![t] = Finish(t, @)]
           /\ UNCHANGED <<cursor, flag, maxtaken, total, qlock, queue, lk, ctr, ctrmax>>

----------------------------------------------------------------------------
\* queue

AddTask(t) == IF Op(t).k = "a" THEN Op(t).x ELSE th[t].mine
AddQueue(t) == Op(t).q

\* spin on the queue lock; on success the body runs up to the unlock
ALk(t) == /\ th[t].pc = "a.lk"
          /\ LET q == AddQueue(t) IN
             IF qlock[q] THEN UNCHANGED <<qlock, queue, th>>
             ELSE /\ qlock' = [qlock EXCEPT ![q] = TRUE]
                  /\ queue' = [queue EXCEPT ![q] = Append(@, AddTask(t))]
                  /\ th' = [th EXCEPT ![t] = Goto([@ EXCEPT !.q = q, !.mine = IF Op(t).k = "ra" THEN -1 ELSE @],
                                                   "a.ul", "unlock")]
          /\ UNCHANGED <<cursor, flag, taken, maxtaken, total, lk, ctr, ctrmax>>

AUl(t) == /\ th[t].pc = "a.ul"
          /\ qlock' = [qlock EXCEPT ![th[t].q] = FALSE]
          /\ th' = [th EXCEPT ![t] = Finish(t, @)]
          /\ UNCHANGED <<cursor, flag, taken, maxtaken, total, queue, lk, ctr, ctrmax>>

\* continue the scan of queue q at position scan (1-based from the bottom;
\* 0 = nothing left): park in front of the first try-lock, or give up
ScanFrom(r, q, pos) ==
    IF pos = 0 THEN Goto([r EXCEPT !.scan = 0, !.res = -1], "p.ul", "unlock")
    ELSE Goto([r EXCEPT !.scan = pos], "p.d0", "lock")

\* the task at the scan position has been locked: remove it, close the gap
Found(r, q) == Goto([r EXCEPT !.res = queue[q][r.scan]], "p.ul", "unlock")

PLk(t) == /\ th[t].pc = "p.lk"
          /\ LET q == Op(t).q IN
             IF qlock[q]
             THEN IF Op(t).k = "tp"
                  THEN /\ th' = [th EXCEPT ![t] = Finish(t, [@ EXCEPT !.res = -1])]
                       /\ UNCHANGED qlock
                  ELSE UNCHANGED <<qlock, th>>
             ELSE /\ qlock' = [qlock EXCEPT ![q] = TRUE]
                  /\ th' = [th EXCEPT ![t] = ScanFrom([@ EXCEPT !.q = q], q, Len(queue[q]))]
          /\ UNCHANGED <<cursor, flag, taken, maxtaken, total, queue, lk, ctr, ctrmax>>

PD0(t) == /\ th[t].pc = "p.d0"
          /\ LET q == th[t].q
                 x == queue[q][th[t].scan]
                 d0 == DepSeq[x][1]
             IN IF lk[d0]
                THEN /\ th' = [th EXCEPT ![t] = ScanFrom(@, q, th[t].scan - 1)]
                     /\ UNCHANGED <<lk, queue>>
                ELSE /\ lk' = [lk EXCEPT ![d0] = TRUE]
                     /\ IF Len(DepSeq[x]) = 2
                        THEN /\ th' = [th EXCEPT ![t] = Goto(@, "p.d1", "lock")]
                             /\ UNCHANGED queue
                        ELSE /\ th' = [th EXCEPT ![t] = Found(@, q)]
                             /\ queue' = [queue EXCEPT ![q] = RemoveAt(@, th[t].scan)]
          /\ UNCHANGED <<cursor, flag, taken, maxtaken, total, qlock, ctr, ctrmax>>

PD1(t) == /\ th[t].pc = "p.d1"
          /\ LET q == th[t].q
                 x == queue[q][th[t].scan]
                 d1 == DepSeq[x][2]
             IN IF lk[d1]
                THEN /\ th' = [th EXCEPT ![t] = Goto(@, "p.rb", "unlock")]
                     /\ UNCHANGED <<lk, queue>>
                ELSE /\ lk' = [lk EXCEPT ![d1] = TRUE]
                     /\ th' = [th EXCEPT ![t] = Found(@, q)]
                     /\ queue' = [queue EXCEPT ![q] = RemoveAt(@, th[t].scan)]
          /\ UNCHANGED <<cursor, flag, taken, maxtaken, total, qlock, ctr, ctrmax>>

PRb(t) == /\ th[t].pc = "p.rb"
          /\ LET q == th[t].q
                 x == queue[q][th[t].scan]
             IN /\ lk' = [lk EXCEPT ![DepSeq[x][1]] = FALSE]
                /\ th' = [th EXCEPT ![t] = ScanFrom(@, q, th[t].scan - 1)]
          /\ UNCHANGED <<cursor, flag, taken, maxtaken, total, qlock, queue, ctr, ctrmax>>

PUl(t) == /\ th[t].pc = "p.ul"
          /\ qlock' = [qlock EXCEPT ![th[t].q] = FALSE]
          /\ th' = [th EXCEPT ![t] = Finish(t, [@ EXCEPT !.task = th[t].res])]
          /\ UNCHANGED <<cursor, flag, taken, maxtaken, total, queue, lk, ctr, ctrmax>>

UD1(t) == /\ th[t].pc = "u.d1"
          /\ lk' = [lk EXCEPT ![DepSeq[th[t].task][2]] = FALSE]
          /\ th' = [th EXCEPT ![t] = Goto(@, "u.d0", "unlock")]
          /\ UNCHANGED <<cursor, flag, taken, maxtaken, total, qlock, queue, ctr, ctrmax>>

UD0(t) == /\ th[t].pc = "u.d0"
          /\ lk' = [lk EXCEPT ![DepSeq[th[t].task][1]] = FALSE]
          /\ th' = [th EXCEPT ![t] = Finish(t, [@ EXCEPT !.mine = th[t].task, !.task = -1])]
          /\ UNCHANGED <<cursor, flag, taken, maxtaken, total, qlock, queue, ctr, ctrmax>>

----------------------------------------------------------------------------
\* plain locks and counters

LLk(t) == /\ th[t].pc = "l.lk"
          /\ IF lk[Op(t).l] THEN UNCHANGED <<lk, th>>
             ELSE /\ lk' = [lk EXCEPT ![Op(t).l] = TRUE]
                  /\ th' = [th EXCEPT ![t] = Finish(t, [@ EXCEPT !.xlock = Op(t).l])]
          /\ UNCHANGED <<cursor, flag, taken, maxtaken, total, qlock, queue, ctr, ctrmax>>

LTry(t) == /\ th[t].pc = "l.try"
           /\ IF lk[Op(t).l]
              THEN /\ th' = [th EXCEPT ![t] = Finish(t, @)]
                   /\ UNCHANGED lk
              ELSE /\ lk' = [lk EXCEPT ![Op(t).l] = TRUE]
                   /\ th' = [th EXCEPT ![t] = Finish(t, [@ EXCEPT !.xlock = Op(t).l])]
           /\ UNCHANGED <<cursor, flag, taken, maxtaken, total, qlock, queue, ctr, ctrmax>>

LUnl(t) == /\ th[t].pc = "l.unl"
           /\ lk' = [lk EXCEPT ![th[t].xlock] = FALSE]
           /\ th' = [th EXCEPT ![t] = Finish(t, [@ EXCEPT !.xlock = -1])]
           /\ UNCHANGED <<cursor, flag, taken, maxtaken, total, qlock, queue, ctr, ctrmax>>

COp(t) == /\ th[t].pc = "c.op"
          /\ LET k == Op(t).kind
                 v == Op(t).v
             IN /\ ctr' = CASE k \in {"post_inc", "pre_inc"} -> ctr + 1
                            [] k = "pre_dec" -> ctr - 1
                            [] k \in {"post_add", "pre_add"} -> ctr + v
                            [] k = "pre_sub" -> ctr - v
                            [] OTHER -> ctr
                /\ th' = [th EXCEPT ![t] = IF k = "max" THEN Goto([@ EXCEPT !.old = ctrmax], "c.mcas", "max.cas")
                                                        ELSE Finish(t, @)]
          /\ UNCHANGED <<cursor, flag, taken, maxtaken, total, qlock, queue, lk, ctrmax>>
CMCas(t) == /\ th[t].pc = "c.mcas"
            /\ IF ctrmax = th[t].old
               THEN /\ ctrmax' = MaxOf(th[t].old, Op(t).v)
                    /\ th' = [th EXCEPT ![t] = Finish(t, @)]
               ELSE /\ UNCHANGED ctrmax
                    /\ th' = [th EXCEPT ![t] = Goto(@, "c.mret", "max.retry")]
            /\ UNCHANGED <<cursor, flag, taken, maxtaken, total, qlock, queue, lk, ctr>>
CMRet(t) == /\ th[t].pc = "c.mret"
            /\ ctrmax' = MaxOf(ctrmax, Op(t).v)
            /\ th' = [th EXCEPT ![t] = Finish(t, @)]
            /\ UNCHANGED <<cursor, flag, taken, maxtaken, total, qlock, queue, lk, ctr>>

Step(t) == \/ GChk(t) \/ GCur(t) \/ GCas(t) \/ GInc(t) \/ GMax(t) \/ GMCas(t) \/ GMRet(t) \/ GTot(t)
           \/ FUnl(t) \/ FDec(t)
           \/ ALk(t) \/ AUl(t)
           \/ PLk(t) \/ PD0(t) \/ PD1(t) \/ PRb(t) \/ PUl(t) \/ UD1(t) \/ UD0(t)
           \/ LLk(t) \/ LTry(t) \/ LUnl(t) \/ COp(t) \/ CMCas(t) \/ CMRet(t)

Next == \E t \in Threads : Step(t)
Spec == Init /\ [][Next]_vars
FairSpec == Spec /\ \A t \in Threads : WF_vars(Step(t))

----------------------------------------------------------------------------
\* Properties (Layer A read off the Layer-B state)

AllDone == \A t \in Threads : th[t].pc = "done"
Quiescent == \A t \in Threads : ~th[t].mid
SlotsOf(t) == {th[t].slots[k] : k \in 1 .. Len(th[t].slots)}
InQueue(x, q) == \E k \in 1 .. Len(queue[q]) : queue[q][k] = x
CountInQueues(x) == Cardinality({<<q, k>> \in Queues \X (1 .. 8) : k <= Len(queue[q]) /\ queue[q][k] = x})

\* a slot is never given to two requesters; a slot somebody holds is flagged
NoDoubleHandout ==
    /\ \A t1, t2 \in Threads : t1 # t2 => SlotsOf(t1) \cap SlotsOf(t2) = {}
    /\ \A t \in Threads : \A i \in SlotsOf(t) : flag[i]
    /\ \A t \in Threads : Len(th[t].slots) = Cardinality(SlotsOf(t))

\* whenever no operation is in progress the occupancy count is exact
QuiescentCount ==
    Quiescent => /\ taken = Cardinality({i \in Slots : flag[i]})
                 /\ taken = Cardinality(UNION {SlotsOf(t) : t \in Threads})

\* every queued task index is handed out exactly once and never lost
TaskOnce ==
    \A x \in Tasks :
       LET holders == {t \in Threads : th[t].task = x \/ (th[t].res = x /\ th[t].pc = "p.ul")}
       IN /\ CountInQueues(x) + Cardinality(holders) <= 1
          /\ Cardinality(holders) <= 1

\* a handed-out task comes with all its resources, exclusively
HandoutWithResources ==
    \A t \in Threads : (th[t].task >= 0 /\ ~th[t].mid) =>
        /\ \A d \in DepSet(th[t].task) : lk[d]
        /\ \A u \in Threads \ {t} : (th[u].task >= 0 /\ ~th[u].mid) =>
               DepSet(th[t].task) \cap DepSet(th[u].task) = {}

\* when everybody is done no lock is left behind (roll-backs are complete)
CleanEnd == AllDone => /\ \A q \in Queues : ~qlock[q]
                       /\ \A l \in Locks : lk[l] = (\E t \in Threads : th[t].xlock = l \/ (th[t].task >= 0 /\ l \in DepSet(th[t].task)))

Termination == <>AllDone

=============================================================================
