-------------------------- MODULE Eval_RanluxStates --------------------------
(***************************************************************************)
(* C13, binding R on generator STATES instead of seeds: the recurrence is  *)
(* evaluated from arbitrary block-end states (12 words, carry) given in    *)
(* the JSON file CASES; the words the specification delivers are printed   *)
(* and compared with what the real generator delivers after the same state *)
(* was fed to it through its restart constructor.  The states are built    *)
(* (by running the recurrence backwards) so that one subtract-with-borrow  *)
(* step of the refill gives exactly 0 - the boundary between "borrow" and  *)
(* "no borrow" that no seed reaches in practice (probability 2^-48 per     *)
(* step) but that "for all stream positions and restore points" includes.  *)
(* ZeroAt lists, per case, the steps of the first refill whose result is 0 *)
(* (the driver refuses a case file in which the intended step is missing). *)
(***************************************************************************)
EXTENDS Ranlux, Json, IOUtils

Cases == JsonDeserialize(IOEnv.CASES)
RingOf(c) == [k \in 1 .. 12 |-> <<c.ring[k][1], c.ring[k][2]>>]

RECURSIVE ZeroSteps(_, _, _, _)
ZeroSteps(rg, c, k, acc) ==
    IF k > Lux THEN acc
    ELSE LET s == StepRing(rg, c)
         IN ZeroSteps(s[1], s[2], k + 1, IF s[1][12] = <<0, 0>> THEN Append(acc, k) ELSE acc)

Result == [i \in 1 .. Len(Cases) |->
             [seq |-> DrawN(RingOf(Cases[i]), Cases[i].carry, 12, Cases[i].n, <<>>),
              zeroat |-> ZeroSteps(RingOf(Cases[i]), Cases[i].carry, 1, <<>>)]]
ASSUME PrintT(<<"STATES", ToJson(Result)>>)
\* every delivered word lies in [0, 1)
ASSUME \A i \in 1 .. Len(Cases) : \A k \in 1 .. Len(Result[i].seq) : WordOK(Result[i].seq[k])

VARIABLE x
Init == x = 0 /\ ring = <<>> /\ carry = 0 /\ pos = 0 /\ out = <<>> /\ saved = <<>>
Next == UNCHANGED <<x, ring, carry, pos, out, saved>>
Spec == Init /\ [][Next]_<<x, ring, carry, pos, out, saved>>
=============================================================================
