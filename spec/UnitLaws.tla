------------------------------- MODULE UnitLaws -------------------------------
(***************************************************************************)
(* C20, Layer A for units: the relations between the unit names of the     *)
(* parameter files that hold BY DEFINITION of the units (decimal prefixes,  *)
(* the fixed year of the code: Gyr = 1000 Myr = 10^9 yr, h = 3600 s, erg =  *)
(* 10^-7 J, bar = 10^5 Pa) and between compound units built from them.  A   *)
(* relation <<a, b, m, e>> reads: 1 a = m x 10^e b.                         *)
(* The real UnitConverter is asked for convert(1, a, b); the harness        *)
(* reports the relative deviation from m x 10^e in units of 10^-12 and the  *)
(* spec bounds it (binding E: the table below is printed by TLC and is the  *)
(* harness input; binding T: the reported deviations are checked by TLC).   *)
(***************************************************************************)
EXTENDS Integers, Sequences, TLC, Json, IOUtils

Relations ==
    << <<"m", "cm", 1, 2>>, <<"km", "m", 1, 3>>, <<"kpc", "pc", 1, 3>>, <<"m", "angstrom", 1, 10>>,
       <<"Gyr", "Myr", 1, 3>>, <<"Myr", "yr", 1, 6>>, <<"Gyr", "yr", 1, 9>>, <<"h", "s", 36, 2>>,
       <<"kg", "g", 1, 3>>, <<"J", "erg", 1, 7>>, <<"bar", "Pa", 1, 5>>,
       <<"kpc Gyr^-1", "pc Myr^-1", 1, 0>>, <<"km s^-1", "m s^-1", 1, 3>>, <<"km s^-1", "cm s^-1", 1, 5>>,
       <<"g cm^-3", "kg m^-3", 1, 3>>, <<"cm^-3", "m^-3", 1, 6>>, <<"cm^2", "m^2", 1, -4>>,
       <<"kpc^2", "pc^2", 1, 6>>, <<"erg s^-1", "J s^-1", 1, -7>>, <<"Msol yr^-1", "Msol Myr^-1", 1, 6>>,
       <<"cm^3 s^-1", "m^3 s^-1", 1, -6>>, <<"Myr^-1", "Gyr^-1", 1, 3>> >>

\* relative deviation (in units of 10^-12) that floating point conversion factors may show
Bound == 20

Results == IF "RESULTS" \in DOMAIN IOEnv THEN ndJsonDeserialize(IOEnv.RESULTS) ELSE <<>>
Bad == {i \in 1 .. Len(Results) : Results[i].dev > Bound}
ASSUME PrintT(<<"RELATIONS", ToJson(Relations)>>)
ASSUME PrintT(<<"BADUNITS", ToJson([i \in 1 .. Len(Results) |-> IF i \in Bad THEN 1 ELSE 0])>>)
\* every relation of the table was answered
ASSUME Results = <<>> \/ Len(Results) = Len(Relations)
VARIABLE x
Init == x = 0
Next == UNCHANGED x
Spec == Init /\ [][Next]_x
=============================================================================
