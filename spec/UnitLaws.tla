------------------------------- MODULE UnitLaws -------------------------------
(***************************************************************************)
(* C20, Layer A for units: the relations between the unit names of the     *)
(* parameter files that hold BY DEFINITION of the units (decimal prefixes,  *)
(* the fixed year of the code: Gyr = 1000 Myr = 10^9 yr, h = 3600 s, erg =  *)
(* 10^-7 J, bar = 10^5 Pa) and between compound units built from them.  A   *)
(* relation <<a, b, m, e>> reads: 1 a = m x 10^e b.                         *)
(* The real UnitConverter is asked for convert(1, a, b); the harness        *)
(* reports the relative deviation from m x 10^e in units of 10^-12 and the  *)
(* spec bounds it (binding E: the table below is printed by TLC and is the  *)
(* harness input; binding T: the reported deviations are checked by TLC).   *)
(***************************************************************************)
EXTENDS Integers, Sequences, TLC, Json, IOUtils

Relations ==
    << <<"m", "cm", 1, 2>>, <<"km", "m", 1, 3>>, <<"kpc", "pc", 1, 3>>, <<"m", "angstrom", 1, 10>>,
       <<"Gyr", "Myr", 1, 3>>, <<"Myr", "yr", 1, 6>>, <<"Gyr", "yr", 1, 9>>, <<"h", "s", 36, 2>>,
       <<"kg", "g", 1, 3>>, <<"J", "erg", 1, 7>>, <<"bar", "Pa", 1, 5>>,
       <<"kpc Gyr^-1", "pc Myr^-1", 1, 0>>, <<"km s^-1", "m s^-1", 1, 3>>, <<"km s^-1", "cm s^-1", 1, 5>>,
       <<"g cm^-3", "kg m^-3", 1, 3>>, <<"cm^-3", "m^-3", 1, 6>>, <<"cm^2", "m^2", 1, -4>>,
       <<"kpc^2", "pc^2", 1, 6>>, <<"erg s^-1", "J s^-1", 1, -7>>, <<"Msol yr^-1", "Msol Myr^-1", 1, 6>>,
       <<"cm^3 s^-1", "m^3 s^-1", 1, -6>>, <<"Myr^-1", "Gyr^-1", 1, 3>>,
       \* the order of the factors of a compound unit does not matter (the last factor may or may not carry an exponent)
       <<"s^-1 kg", "kg s^-1", 1, 0>>, <<"s^-1 km", "km s^-1", 1, 0>>, <<"m^-3 kg", "kg m^-3", 1, 0>>,
       <<"m s^-1 kg", "kg m s^-1", 1, 0>>, <<"s^-2 m^-1 kg", "kg m^-1 s^-2", 1, 0>>, <<"Gyr^-1 kpc", "kpc Gyr^-1", 1, 0>>,
       <<"yr^-1 Msol", "Msol yr^-1", 1, 0>>, <<"cm^-3 g", "g cm^-3", 1, 0>>, <<"s^-1 cm^-3 erg", "erg cm^-3 s^-1", 1, 0>> >>

\* "compound units equal the product of their parts": <<compound, <<part, exponent>>, ...>> - the SI value of one
\* compound unit is the product of the SI values of its parts raised to their exponents
Products ==
    << <<"kpc Gyr^-1", <<"kpc", 1>>, <<"Gyr", -1>> >>, <<"g cm^-3", <<"g", 1>>, <<"cm", -3>> >>,
       <<"Msol yr^-1", <<"Msol", 1>>, <<"yr", -1>> >>, <<"erg cm^-3 s^-1", <<"erg", 1>>, <<"cm", -3>>, <<"s", -1>> >>,
       <<"km s^-1", <<"km", 1>>, <<"s", -1>> >>, <<"cm^3 s^-1", <<"cm", 3>>, <<"s", -1>> >>,
       <<"Msol pc^-2", <<"Msol", 1>>, <<"pc", -2>> >>, <<"kg m^-1 s^-2", <<"kg", 1>>, <<"m", -1>>, <<"s", -2>> >>,
       <<"angstrom^2", <<"angstrom", 2>> >>, <<"Myr^-1", <<"Myr", -1>> >>,
       <<"s^-1 kg", <<"s", -1>>, <<"kg", 1>> >>, <<"m s^-1 kg", <<"m", 1>>, <<"s", -1>>, <<"kg", 1>> >>,
       <<"cm^-3 g", <<"cm", -3>>, <<"g", 1>> >>, <<"pc^-2 Msol", <<"pc", -2>>, <<"Msol", 1>> >> >>
\* "converting a value to SI and back returns it": <<unit, mantissa, exponent>> - the value mantissa x 10^exponent
RoundTrips ==
    << <<"kpc", 25, -1>>, <<"pc", 1, 0>>, <<"Gyr", 137, -1>>, <<"Myr", 3, 0>>, <<"yr", 1, 6>>, <<"Msol", 2, 5>>, <<"g cm^-3", 1, -24>>,
       <<"km s^-1", 3, 2>>, <<"cm^-3", 1, 2>>, <<"erg", 1, 51>>, <<"eV", 136, -1>>, <<"angstrom", 912, 0>>, <<"K", 8, 3>>,
       <<"cm^3 s^-1", 4, -13>>, <<"Msol yr^-1", 1, -6>>, <<"au", 1, 0>>, <<"h", 24, 0>>, <<"bar", 1, 0>>, <<"degrees", 45, 0>> >>

\* relative deviation (in units of 10^-12) that floating point conversion factors may show
Bound == 20

Results == IF "RESULTS" \in DOMAIN IOEnv THEN ndJsonDeserialize(IOEnv.RESULTS) ELSE <<>>
Bad == {i \in 1 .. Len(Results) : Results[i].dev > Bound}
ASSUME PrintT(<<"RELATIONS", ToJson(Relations)>>)
ASSUME PrintT(<<"PRODUCTS", ToJson(Products)>>)
ASSUME PrintT(<<"ROUNDTRIPS", ToJson(RoundTrips)>>)
ASSUME PrintT(<<"BADUNITS", ToJson([i \in 1 .. Len(Results) |-> IF i \in Bad THEN 1 ELSE 0])>>)
\* every relation of the table was answered
ASSUME Results = <<>> \/ Len(Results) = Len(Relations) + Len(Products) + Len(RoundTrips)
VARIABLE x
Init == x = 0
Next == UNCHANGED x
Spec == Init /\ [][Next]_x
=============================================================================
