------------------------------- MODULE UnitLaws -------------------------------
(***************************************************************************)
(* C20, Layer A for units: the relations between the unit names of the     *)
(* parameter files that hold BY DEFINITION of the units (decimal prefixes,  *)
(* the fixed year of the code: Gyr = 1000 Myr = 10^9 yr, h = 3600 s, erg =  *)
(* 10^-7 J, bar = 10^5 Pa) and between compound units built from them.  A   *)
(* relation <<a, b, m, e>> reads: 1 a = m x 10^e b.                         *)
(* The real UnitConverter is asked for convert(1, a, b); the harness        *)
(* reports the relative deviation from m x 10^e in units of 10^-12 and the  *)
(* spec bounds it (binding E: the table below is printed by TLC and is the  *)
(* harness input; binding T: the reported deviations are checked by TLC).   *)
(***************************************************************************)
EXTENDS Integers, Sequences, TLC, Json, IOUtils

Relations ==
    << <<"m", "cm", 1, 2>>, <<"km", "m", 1, 3>>, <<"kpc", "pc", 1, 3>>, <<"m", "angstrom", 1, 10>>,
       <<"Gyr", "Myr", 1, 3>>, <<"Myr", "yr", 1, 6>>, <<"Gyr", "yr", 1, 9>>, <<"h", "s", 36, 2>>,
       <<"kg", "g", 1, 3>>, <<"J", "erg", 1, 7>>, <<"bar", "Pa", 1, 5>>,
       <<"kpc Gyr^-1", "pc Myr^-1", 1, 0>>, <<"km s^-1", "m s^-1", 1, 3>>, <<"km s^-1", "cm s^-1", 1, 5>>,
       <<"g cm^-3", "kg m^-3", 1, 3>>, <<"cm^-3", "m^-3", 1, 6>>, <<"cm^2", "m^2", 1, -4>>,
       <<"kpc^2", "pc^2", 1, 6>>, <<"erg s^-1", "J s^-1", 1, -7>>, <<"Msol yr^-1", "Msol Myr^-1", 1, 6>>,
       <<"cm^3 s^-1", "m^3 s^-1", 1, -6>>, <<"Myr^-1", "Gyr^-1", 1, 3>>,
       \* the order of the factors of a compound unit does not matter (the last factor may or may not carry an exponent)
       <<"s^-1 kg", "kg s^-1", 1, 0>>, <<"s^-1 km", "km s^-1", 1, 0>>, <<"m^-3 kg", "kg m^-3", 1, 0>>,
       <<"m s^-1 kg", "kg m s^-1", 1, 0>>, <<"s^-2 m^-1 kg", "kg m^-1 s^-2", 1, 0>>, <<"Gyr^-1 kpc", "kpc Gyr^-1", 1, 0>>,
       <<"yr^-1 Msol", "Msol yr^-1", 1, 0>>, <<"cm^-3 g", "g cm^-3", 1, 0>>, <<"s^-1 cm^-3 erg", "erg cm^-3 s^-1", 1, 0>> >>

\* "compound units equal the product of their parts": <<compound, <<part, exponent>>, ...>> - the SI value of one
\* compound unit is the product of the SI values of its parts raised to their exponents
Products ==
    << <<"kpc Gyr^-1", <<"kpc", 1>>, <<"Gyr", -1>> >>, <<"g cm^-3", <<"g", 1>>, <<"cm", -3>> >>,
       <<"Msol yr^-1", <<"Msol", 1>>, <<"yr", -1>> >>, <<"erg cm^-3 s^-1", <<"erg", 1>>, <<"cm", -3>>, <<"s", -1>> >>,
       <<"km s^-1", <<"km", 1>>, <<"s", -1>> >>, <<"cm^3 s^-1", <<"cm", 3>>, <<"s", -1>> >>,
       <<"Msol pc^-2", <<"Msol", 1>>, <<"pc", -2>> >>, <<"kg m^-1 s^-2", <<"kg", 1>>, <<"m", -1>>, <<"s", -2>> >>,
       <<"angstrom^2", <<"angstrom", 2>> >>, <<"Myr^-1", <<"Myr", -1>> >>,
       <<"s^-1 kg", <<"s", -1>>, <<"kg", 1>> >>, <<"m s^-1 kg", <<"m", 1>>, <<"s", -1>>, <<"kg", 1>> >>,
       <<"cm^-3 g", <<"cm", -3>>, <<"g", 1>> >>, <<"pc^-2 Msol", <<"pc", -2>>, <<"Msol", 1>> >> >>
\* "converting a value to SI and back returns it": <<unit, mantissa, exponent>> - the value mantissa x 10^exponent
RoundTrips ==
    << <<"kpc", 25, -1>>, <<"pc", 1, 0>>, <<"Gyr", 137, -1>>, <<"Myr", 3, 0>>, <<"yr", 1, 6>>, <<"Msol", 2, 5>>, <<"g cm^-3", 1, -24>>,
       <<"km s^-1", 3, 2>>, <<"cm^-3", 1, 2>>, <<"erg", 1, 51>>, <<"eV", 136, -1>>, <<"angstrom", 912, 0>>, <<"K", 8, 3>>,
       <<"cm^3 s^-1", 4, -13>>, <<"Msol yr^-1", 1, -6>>, <<"au", 1, 0>>, <<"h", 24, 0>>, <<"bar", 1, 0>>, <<"degrees", 45, 0>> >>

\* "all supported quantities": <<quantity, its SI unit spelled in base units, another unit of the quantity, mantissa, exponent>>.
\* Three laws per row, through the templated interface the parameter file uses (to_SI< q > / to_unit< q >):
\*   the coherent product of base units IS the SI unit of the quantity (to_SI< q >(1, base) = 1),
\*   to_unit< q >(to_SI< q >(v, u), u) = v for v = mantissa x 10^exponent,
\*   to_SI< q >(v, u) = convert(v, u, name of the SI unit of q)  (the table agrees with itself).
Quantities ==
    << <<"ACCELERATION", "m s^-2", "km s^-1 Myr^-1", 3, 1>>, <<"ANGLE", "radians", "degrees", 9, 1>>,
       <<"DENSITY", "kg m^-3", "g cm^-3", 1, -22>>, <<"ENERGY", "kg m^2 s^-2", "erg", 1, 51>>,
       <<"ENERGY_CHANGE_RATE", "kg m^-1 s^-3", "erg cm^-3 s^-1", 2, -24>>, <<"ENERGY_RATE", "kg m^2 s^-3", "erg s^-1", 4, 33>>,
       <<"FLUX", "m^-2 s^-1", "cm^-2 s^-1", 1, 9>>, <<"FORCING_POWER", "m^2 s^-3", "km^2 s^-2 Myr^-1", 5, 0>>,
       <<"FREQUENCY", "s^-1", "Myr^-1", 7, 0>>, <<"FREQUENCY_PER_MASS", "s^-1 kg^-1", "Hz g^-1", 2, 3>>,
       <<"INVERSE_LENGTH", "m^-1", "pc^-1", 3, 0>>, <<"INVERSE_SURFACE_AREA", "m^-2", "cm^-2", 1, 17>>,
       <<"LENGTH", "m", "kpc", 25, -1>>, <<"MASS", "kg", "Msol", 2, 5>>, <<"MASS_RATE", "kg s^-1", "Msol yr^-1", 1, -6>>,
       <<"MOMENTUM", "kg m s^-1", "g cm s^-1", 6, 2>>, <<"NUMBER_DENSITY", "m^-3", "cm^-3", 1, 2>>,
       <<"OPACITY", "m^-1", "cm^-1", 3, -5>>, <<"PRESSURE", "kg m^-1 s^-2", "bar", 2, 0>>,
       <<"REACTION_RATE", "m^3 s^-1", "cm^3 s^-1", 4, -13>>, <<"SURFACE_AREA", "m^2", "angstrom^2", 63, -1>>,
       <<"SURFACE_DENSITY", "kg m^-2", "Msol pc^-2", 1, 1>>, <<"TEMPERATURE", "K", "K", 8, 3>>,
       <<"TIME", "s", "Gyr", 137, -1>>, <<"VELOCITY", "m s^-1", "kpc Gyr^-1", 2, 2>>, <<"VOLUME", "m^3", "pc^3", 1, 0>> >>

\* photon energy / frequency / wavelength are convertible into each other: <<a, b, mantissa, exponent>> - converting
\* mantissa x 10^exponent a to b and back returns it
Cross ==
    << <<"eV", "Hz", 136, -1>>, <<"J", "Hz", 2, -18>>, <<"erg", "Hz", 2, -11>>, <<"angstrom", "Hz", 912, 0>>,
       <<"m", "Hz", 21, -2>>, <<"cm", "s^-1", 21, 0>>, <<"Hz", "eV", 329, 13>>, <<"Hz", "angstrom", 329, 13>>,
       <<"s^-1", "km", 3, 5>>,
       \* ... also when the frequency is not given in Hz (both directions then scale the value)
       <<"eV", "Myr^-1", 136, -1>>, <<"angstrom", "yr^-1", 912, 0>>, <<"Gyr^-1", "erg", 5, 20>>, <<"h^-1", "kpc", 7, 0>> >>
\* <<a1, b1, a2, b2, m, e>>: convert(1, a1, b1) = m x 10^e x convert(1, a2, b2) - decimal prefixes commute with the photon
\* conversions (a wavelength 100 times longer is a frequency 100 times lower)
Ratios ==
    << <<"J", "Hz", "erg", "Hz", 1, 7>>, <<"m", "Hz", "cm", "Hz", 1, -2>>, <<"angstrom", "Hz", "m", "Hz", 1, 10>>,
       <<"Hz", "angstrom", "Hz", "m", 1, 10>>, <<"Hz", "erg", "Hz", "J", 1, 7>>, <<"J", "Hz", "J", "s^-1", 1, 0>>,
       <<"km", "Hz", "m", "Hz", 1, -3>>, <<"J", "Myr^-1", "J", "yr^-1", 1, 6>>,
       <<"Hz", "eV", "h^-1", "eV", 36, 2>>, <<"Myr^-1", "J", "Gyr^-1", "J", 1, 3>>, <<"yr^-1", "cm", "Myr^-1", "cm", 1, -6>> >>
\* <<a, b, k, p>>: convert(k, a, b) = k^p x convert(1, a, b), p = 1 (energy) or -1 (wavelength)
Scalings ==
    << <<"eV", "Hz", 3, 1>>, <<"Hz", "eV", 3, 1>>, <<"angstrom", "Hz", 4, -1>>, <<"Hz", "angstrom", 4, -1>>,
       <<"J", "Hz", 1000, 1>>, <<"pc", "Hz", 8, -1>> >>

\* relative deviation (in units of 10^-12) that floating point conversion factors may show
Bound == 20

Results == IF "RESULTS" \in DOMAIN IOEnv THEN ndJsonDeserialize(IOEnv.RESULTS) ELSE <<>>
Bad == {i \in 1 .. Len(Results) : Results[i].dev > Bound}
ASSUME PrintT(<<"RELATIONS", ToJson(Relations)>>)
ASSUME PrintT(<<"PRODUCTS", ToJson(Products)>>)
ASSUME PrintT(<<"ROUNDTRIPS", ToJson(RoundTrips)>>)
ASSUME PrintT(<<"QUANTITIES", ToJson(Quantities)>>)
ASSUME PrintT(<<"CROSS", ToJson(Cross)>>)
ASSUME PrintT(<<"RATIOS", ToJson(Ratios)>>)
ASSUME PrintT(<<"SCALINGS", ToJson(Scalings)>>)
ASSUME PrintT(<<"BADUNITS", ToJson([i \in 1 .. Len(Results) |-> IF i \in Bad THEN 1 ELSE 0])>>)
\* every relation of the table was answered
ASSUME Results = <<>> \/ Len(Results) = Len(Relations) + Len(Products) + Len(RoundTrips) + 3 * Len(Quantities) + Len(Cross) + Len(Ratios) + Len(Scalings)
VARIABLE x
Init == x = 0
Next == UNCHANGED x
Spec == Init /\ [][Next]_x
=============================================================================
