---------------------------- MODULE PhotonSched ----------------------------
(* Prototype of the task-based photon iteration (C01), coarse directions:
   two subgrids 0,1 that are each other's neighbour; leaving "outward" escapes. *)
EXTENDS Integers, Sequences, FiniteSets, TLC
CONSTANTS NT, N, CAP, NB, REEMIT, PREADD_FIRST, BUDGET
Threads == 1..NT
Subs == {0, 1}
Bufs == 1..NB
Dirs == {"ngb", "self"}
Other(s) == 1 - s
Min(a, b) == IF a < b THEN a ELSE b

(* --algorithm PhotonSched {
variables
  flag = [b \in Bufs |-> FALSE],      \* slot flag of the pool
  ntaken = 0,                         \* occupancy counter (lags the flags)
  bsize = [b \in Bufs |-> 0],
  bsub = [b \in Bufs |-> 0],
  active = [x \in Subs |-> [y \in Dirs |-> 0]],
  sublock = [x \in Subs |-> FALSE],
  queue = {},                         \* bag of tasks: records, unique by buffer/src id
  unborn = N,                         \* packets not yet launched (source tasks seeded below)
  srcq = IF N > CAP THEN {[n |-> CAP, id |-> 1], [n |-> N - CAP, id |-> 2]} ELSE {[n |-> N, id |-> 1]},
  done = 0,
  runflag = TRUE,
  exited = 0,
  budget = BUDGET;

define {
  InBuffers == LET RECURSIVE S(_) S(B) == IF B = {} THEN 0 ELSE LET b == CHOOSE x \in B : TRUE IN (IF flag[b] THEN bsize[b] ELSE 0) + S(B \ {b}) IN S(Bufs)
  FreeBuf == CHOOSE b \in Bufs : ~flag[b]
  HasFree == \E b \in Bufs : ~flag[b]
}

procedure Acquire()   \* result in reg
{
 A1: await HasFree; reg := FreeBuf; flag[reg] := TRUE; bsize[reg] := 0;
 A2: ntaken := ntaken + 1; return;
}
procedure Release(rb)
{
 R1: bsize[rb] := 0; flag[rb] := FALSE;
 R2: ntaken := ntaken - 1; return;
}
\* store cnt packets leaving subgrid s in direction d (we hold sublock[s])
procedure Store(s, d, cnt)
  variables tgt = 0, spill = 0;
{
 S0: if (active[s][d] = 0) {
        call Acquire();
 S1:    bsub[reg] := IF d = "ngb" THEN Other(s) ELSE s;
        active[s][d] := reg;
     };
 S2: tgt := active[s][d];
     spill := (bsize[tgt] + cnt) - Min(CAP, bsize[tgt] + cnt);
     bsize[tgt] := Min(CAP, bsize[tgt] + cnt);
     if (bsize[tgt] = CAP) {
        call Acquire();
 S3:    bsub[reg] := bsub[tgt];
        bsize[reg] := spill;
        if (spill = 0) {
           active[s][d] := 0;
           call Release(reg);
        } else {
           active[s][d] := reg;
        };
 S4:    pending := pending \cup {[type |-> IF d = "ngb" THEN "trav" ELSE "reemit", buf |-> tgt, sub |-> bsub[tgt]]};
     };
 S5: return;
}

fair process (T \in Threads)
  variables reg = 0, cur = [type |-> "none"], pending = {}, nA = 0, nE = 0, nM = 0, seenEmpty = FALSE, k = 0;
{
 Loop: while (runflag) {
   Get: either {
          \* a source task
          with (t \in srcq) { srcq := srcq \ {t}; cur := [type |-> "src", n |-> t.n]; };
        } or {
          with (t \in {x \in queue : x.type = "trav" /\ ~sublock[x.sub]}) {
             queue := queue \ {t}; sublock[t.sub] := TRUE; cur := t; };
        } or {
          with (t \in {x \in queue : x.type = "reemit"}) { queue := queue \ {t}; cur := t; };
        } or {
          \* no task found (may be spurious): premature launch attempt or termination test
          await srcq = {} /\ ~\E x \in queue : (x.type = "reemit" \/ ~sublock[x.sub]);
          cur := [type |-> "none"];
        };
   Exec: if (cur.type = "src") {
            call Acquire();
     X1:    bsize[reg] := cur.n; bsub[reg] := 0; unborn := unborn - cur.n;
            pending := {[type |-> "trav", buf |-> reg, sub |-> 0]};
         } else if (cur.type = "trav") {
            \* choose the fate of the packets
            with (a \in 0..bsize[cur.buf], e \in 0..bsize[cur.buf]) {
               await a + e <= bsize[cur.buf] /\ (bsize[cur.buf] - a - e) + (IF REEMIT THEN a ELSE 0) <= budget;
               nA := a; nE := e; nM := bsize[cur.buf] - a - e;
               budget := budget - ((bsize[cur.buf] - a - e) + (IF REEMIT THEN a ELSE 0));
            };
     V1:    if (nM > 0) { call Store(cur.sub, "ngb", nM); };
     V2:    if (REEMIT /\ nA > 0) { call Store(cur.sub, "self", nA); };
     V3:    if (PREADD_FIRST) {
               done := done + nE + (IF REEMIT THEN 0 ELSE nA);
     V4:       call Release(cur.buf);
            } else {
               call Release(cur.buf);
     V5:       done := done + nE + (IF REEMIT THEN 0 ELSE nA);
            };
     V6:    sublock[cur.sub] := FALSE;
         } else if (cur.type = "reemit") {
            with (r \in 0..bsize[cur.buf]) { k := r; };
            done := done + (bsize[cur.buf] - k);
            bsize[cur.buf] := k;
     E1:    if (k > 0) { pending := {[type |-> "trav", buf |-> cur.buf, sub |-> cur.sub]}; }
            else { call Release(cur.buf); };
         } else {
            \* premature launch (mandatory when some unlocked subgrid has a non-empty active buffer)
            if (\E x \in Subs : ~sublock[x] /\ \E q \in Dirs : active[x][q] # 0) {
              with (ss \in {x \in Subs : ~sublock[x] /\ \E q \in Dirs : active[x][q] # 0}) {
                 sublock[ss] := TRUE;
                 with (dd \in {q \in Dirs : active[ss][q] # 0 /\ \A q2 \in Dirs : active[ss][q2] # 0 => bsize[active[ss][q2]] <= bsize[active[ss][q]]}) {
                    queue := queue \cup {[type |-> IF dd = "ngb" THEN "trav" ELSE "reemit", buf |-> active[ss][dd], sub |-> bsub[active[ss][dd]]]};
                    active[ss][dd] := 0;
                 };
                 cur := [type |-> "prem", sub |-> ss];
              };
     P1:      sublock[cur.sub] := FALSE;
            };
     C0:    seenEmpty := (ntaken = 0);
     C1:    if (seenEmpty /\ done = N) { runflag := FALSE; };
         };
   Enq: queue := queue \cup pending; pending := {};
 };
 Fin: exited := exited + 1;
}
} *)
\* BEGIN TRANSLATION
CONSTANT defaultInitValue
VARIABLES pc, flag, ntaken, bsize, bsub, active, sublock, queue, unborn, srcq, 
          done, runflag, exited, budget, stack

(* define statement *)
InBuffers == LET RECURSIVE S(_) S(B) == IF B = {} THEN 0 ELSE LET b == CHOOSE x \in B : TRUE IN (IF flag[b] THEN bsize[b] ELSE 0) + S(B \ {b}) IN S(Bufs)
FreeBuf == CHOOSE b \in Bufs : ~flag[b]
HasFree == \E b \in Bufs : ~flag[b]

VARIABLES rb, s, d, cnt, tgt, spill, reg, cur, pending, nA, nE, nM, seenEmpty, 
          k

vars == << pc, flag, ntaken, bsize, bsub, active, sublock, queue, unborn, 
           srcq, done, runflag, exited, budget, stack, rb, s, d, cnt, tgt, 
           spill, reg, cur, pending, nA, nE, nM, seenEmpty, k >>

ProcSet == (Threads)

Init == (* Global variables *)
        /\ flag = [b \in Bufs |-> FALSE]
        /\ ntaken = 0
        /\ bsize = [b \in Bufs |-> 0]
        /\ bsub = [b \in Bufs |-> 0]
        /\ active = [x \in Subs |-> [y \in Dirs |-> 0]]
        /\ sublock = [x \in Subs |-> FALSE]
        /\ queue = {}
        /\ unborn = N
        /\ srcq = (IF N > CAP THEN {[n |-> CAP, id |-> 1], [n |-> N - CAP, id |-> 2]} ELSE {[n |-> N, id |-> 1]})
        /\ done = 0
        /\ runflag = TRUE
        /\ exited = 0
        /\ budget = BUDGET
        (* Procedure Release *)
        /\ rb = [ self \in ProcSet |-> defaultInitValue]
        (* Procedure Store *)
        /\ s = [ self \in ProcSet |-> defaultInitValue]
        /\ d = [ self \in ProcSet |-> defaultInitValue]
        /\ cnt = [ self \in ProcSet |-> defaultInitValue]
        /\ tgt = [ self \in ProcSet |-> 0]
        /\ spill = [ self \in ProcSet |-> 0]
        (* Process T *)
        /\ reg = [self \in Threads |-> 0]
        /\ cur = [self \in Threads |-> [type |-> "none"]]
        /\ pending = [self \in Threads |-> {}]
        /\ nA = [self \in Threads |-> 0]
        /\ nE = [self \in Threads |-> 0]
        /\ nM = [self \in Threads |-> 0]
        /\ seenEmpty = [self \in Threads |-> FALSE]
        /\ k = [self \in Threads |-> 0]
        /\ stack = [self \in ProcSet |-> << >>]
        /\ pc = [self \in ProcSet |-> "Loop"]

A1(self) == /\ pc[self] = "A1"
            /\ HasFree
            /\ reg' = [reg EXCEPT ![self] = FreeBuf]
            /\ flag' = [flag EXCEPT ![reg'[self]] = TRUE]
            /\ bsize' = [bsize EXCEPT ![reg'[self]] = 0]
            /\ pc' = [pc EXCEPT ![self] = "A2"]
            /\ UNCHANGED << ntaken, bsub, active, sublock, queue, unborn, srcq, 
                            done, runflag, exited, budget, stack, rb, s, d, 
                            cnt, tgt, spill, cur, pending, nA, nE, nM, 
                            seenEmpty, k >>

A2(self) == /\ pc[self] = "A2"
            /\ ntaken' = ntaken + 1
            /\ pc' = [pc EXCEPT ![self] = Head(stack[self]).pc]
            /\ stack' = [stack EXCEPT ![self] = Tail(stack[self])]
            /\ UNCHANGED << flag, bsize, bsub, active, sublock, queue, unborn, 
                            srcq, done, runflag, exited, budget, rb, s, d, cnt, 
                            tgt, spill, reg, cur, pending, nA, nE, nM, 
                            seenEmpty, k >>

Acquire(self) == A1(self) \/ A2(self)

R1(self) == /\ pc[self] = "R1"
            /\ bsize' = [bsize EXCEPT ![rb[self]] = 0]
            /\ flag' = [flag EXCEPT ![rb[self]] = FALSE]
            /\ pc' = [pc EXCEPT ![self] = "R2"]
            /\ UNCHANGED << ntaken, bsub, active, sublock, queue, unborn, srcq, 
                            done, runflag, exited, budget, stack, rb, s, d, 
                            cnt, tgt, spill, reg, cur, pending, nA, nE, nM, 
                            seenEmpty, k >>

R2(self) == /\ pc[self] = "R2"
            /\ ntaken' = ntaken - 1
            /\ pc' = [pc EXCEPT ![self] = Head(stack[self]).pc]
            /\ rb' = [rb EXCEPT ![self] = Head(stack[self]).rb]
            /\ stack' = [stack EXCEPT ![self] = Tail(stack[self])]
            /\ UNCHANGED << flag, bsize, bsub, active, sublock, queue, unborn, 
                            srcq, done, runflag, exited, budget, s, d, cnt, 
                            tgt, spill, reg, cur, pending, nA, nE, nM, 
                            seenEmpty, k >>

Release(self) == R1(self) \/ R2(self)

S0(self) == /\ pc[self] = "S0"
            /\ IF active[s[self]][d[self]] = 0
                  THEN /\ stack' = [stack EXCEPT ![self] = << [ procedure |->  "Acquire",
                                                                pc        |->  "S1" ] >>
                                                            \o stack[self]]
                       /\ pc' = [pc EXCEPT ![self] = "A1"]
                  ELSE /\ pc' = [pc EXCEPT ![self] = "S2"]
                       /\ stack' = stack
            /\ UNCHANGED << flag, ntaken, bsize, bsub, active, sublock, queue, 
                            unborn, srcq, done, runflag, exited, budget, rb, s, 
                            d, cnt, tgt, spill, reg, cur, pending, nA, nE, nM, 
                            seenEmpty, k >>

S1(self) == /\ pc[self] = "S1"
            /\ bsub' = [bsub EXCEPT ![reg[self]] = IF d[self] = "ngb" THEN Other(s[self]) ELSE s[self]]
            /\ active' = [active EXCEPT ![s[self]][d[self]] = reg[self]]
            /\ pc' = [pc EXCEPT ![self] = "S2"]
            /\ UNCHANGED << flag, ntaken, bsize, sublock, queue, unborn, srcq, 
                            done, runflag, exited, budget, stack, rb, s, d, 
                            cnt, tgt, spill, reg, cur, pending, nA, nE, nM, 
                            seenEmpty, k >>

S2(self) == /\ pc[self] = "S2"
            /\ tgt' = [tgt EXCEPT ![self] = active[s[self]][d[self]]]
            /\ spill' = [spill EXCEPT ![self] = (bsize[tgt'[self]] + cnt[self]) - Min(CAP, bsize[tgt'[self]] + cnt[self])]
            /\ bsize' = [bsize EXCEPT ![tgt'[self]] = Min(CAP, bsize[tgt'[self]] + cnt[self])]
            /\ IF bsize'[tgt'[self]] = CAP
                  THEN /\ stack' = [stack EXCEPT ![self] = << [ procedure |->  "Acquire",
                                                                pc        |->  "S3" ] >>
                                                            \o stack[self]]
                       /\ pc' = [pc EXCEPT ![self] = "A1"]
                  ELSE /\ pc' = [pc EXCEPT ![self] = "S5"]
                       /\ stack' = stack
            /\ UNCHANGED << flag, ntaken, bsub, active, sublock, queue, unborn, 
                            srcq, done, runflag, exited, budget, rb, s, d, cnt, 
                            reg, cur, pending, nA, nE, nM, seenEmpty, k >>

S3(self) == /\ pc[self] = "S3"
            /\ bsub' = [bsub EXCEPT ![reg[self]] = bsub[tgt[self]]]
            /\ bsize' = [bsize EXCEPT ![reg[self]] = spill[self]]
            /\ IF spill[self] = 0
                  THEN /\ active' = [active EXCEPT ![s[self]][d[self]] = 0]
                       /\ /\ rb' = [rb EXCEPT ![self] = reg[self]]
                          /\ stack' = [stack EXCEPT ![self] = << [ procedure |->  "Release",
                                                                   pc        |->  "S4",
                                                                   rb        |->  rb[self] ] >>
                                                               \o stack[self]]
                       /\ pc' = [pc EXCEPT ![self] = "R1"]
                  ELSE /\ active' = [active EXCEPT ![s[self]][d[self]] = reg[self]]
                       /\ pc' = [pc EXCEPT ![self] = "S4"]
                       /\ UNCHANGED << stack, rb >>
            /\ UNCHANGED << flag, ntaken, sublock, queue, unborn, srcq, done, 
                            runflag, exited, budget, s, d, cnt, tgt, spill, 
                            reg, cur, pending, nA, nE, nM, seenEmpty, k >>

S4(self) == /\ pc[self] = "S4"
            /\ pending' = [pending EXCEPT ![self] = pending[self] \cup {[type |-> IF d[self] = "ngb" THEN "trav" ELSE "reemit", buf |-> tgt[self], sub |-> bsub[tgt[self]]]}]
            /\ pc' = [pc EXCEPT ![self] = "S5"]
            /\ UNCHANGED << flag, ntaken, bsize, bsub, active, sublock, queue, 
                            unborn, srcq, done, runflag, exited, budget, stack, 
                            rb, s, d, cnt, tgt, spill, reg, cur, nA, nE, nM, 
                            seenEmpty, k >>

S5(self) == /\ pc[self] = "S5"
            /\ pc' = [pc EXCEPT ![self] = Head(stack[self]).pc]
            /\ tgt' = [tgt EXCEPT ![self] = Head(stack[self]).tgt]
            /\ spill' = [spill EXCEPT ![self] = Head(stack[self]).spill]
            /\ s' = [s EXCEPT ![self] = Head(stack[self]).s]
            /\ d' = [d EXCEPT ![self] = Head(stack[self]).d]
            /\ cnt' = [cnt EXCEPT ![self] = Head(stack[self]).cnt]
            /\ stack' = [stack EXCEPT ![self] = Tail(stack[self])]
            /\ UNCHANGED << flag, ntaken, bsize, bsub, active, sublock, queue, 
                            unborn, srcq, done, runflag, exited, budget, rb, 
                            reg, cur, pending, nA, nE, nM, seenEmpty, k >>

Store(self) == S0(self) \/ S1(self) \/ S2(self) \/ S3(self) \/ S4(self)
                  \/ S5(self)

Loop(self) == /\ pc[self] = "Loop"
              /\ IF runflag
                    THEN /\ pc' = [pc EXCEPT ![self] = "Get"]
                    ELSE /\ pc' = [pc EXCEPT ![self] = "Fin"]
              /\ UNCHANGED << flag, ntaken, bsize, bsub, active, sublock, 
                              queue, unborn, srcq, done, runflag, exited, 
                              budget, stack, rb, s, d, cnt, tgt, spill, reg, 
                              cur, pending, nA, nE, nM, seenEmpty, k >>

Get(self) == /\ pc[self] = "Get"
             /\ \/ /\ \E t \in srcq:
                        /\ srcq' = srcq \ {t}
                        /\ cur' = [cur EXCEPT ![self] = [type |-> "src", n |-> t.n]]
                   /\ UNCHANGED <<sublock, queue>>
                \/ /\ \E t \in {x \in queue : x.type = "trav" /\ ~sublock[x.sub]}:
                        /\ queue' = queue \ {t}
                        /\ sublock' = [sublock EXCEPT ![t.sub] = TRUE]
                        /\ cur' = [cur EXCEPT ![self] = t]
                   /\ srcq' = srcq
                \/ /\ \E t \in {x \in queue : x.type = "reemit"}:
                        /\ queue' = queue \ {t}
                        /\ cur' = [cur EXCEPT ![self] = t]
                   /\ UNCHANGED <<sublock, srcq>>
                \/ /\ srcq = {} /\ ~\E x \in queue : (x.type = "reemit" \/ ~sublock[x.sub])
                   /\ cur' = [cur EXCEPT ![self] = [type |-> "none"]]
                   /\ UNCHANGED <<sublock, queue, srcq>>
             /\ pc' = [pc EXCEPT ![self] = "Exec"]
             /\ UNCHANGED << flag, ntaken, bsize, bsub, active, unborn, done, 
                             runflag, exited, budget, stack, rb, s, d, cnt, 
                             tgt, spill, reg, pending, nA, nE, nM, seenEmpty, 
                             k >>

Exec(self) == /\ pc[self] = "Exec"
              /\ IF cur[self].type = "src"
                    THEN /\ stack' = [stack EXCEPT ![self] = << [ procedure |->  "Acquire",
                                                                  pc        |->  "X1" ] >>
                                                              \o stack[self]]
                         /\ pc' = [pc EXCEPT ![self] = "A1"]
                         /\ UNCHANGED << bsize, active, sublock, queue, done, 
                                         budget, cur, nA, nE, nM, k >>
                    ELSE /\ IF cur[self].type = "trav"
                               THEN /\ \E a \in 0..bsize[cur[self].buf]:
                                         \E e \in 0..bsize[cur[self].buf]:
                                           /\ a + e <= bsize[cur[self].buf] /\ (bsize[cur[self].buf] - a - e) + (IF REEMIT THEN a ELSE 0) <= budget
                                           /\ nA' = [nA EXCEPT ![self] = a]
                                           /\ nE' = [nE EXCEPT ![self] = e]
                                           /\ nM' = [nM EXCEPT ![self] = bsize[cur[self].buf] - a - e]
                                           /\ budget' = budget - ((bsize[cur[self].buf] - a - e) + (IF REEMIT THEN a ELSE 0))
                                    /\ pc' = [pc EXCEPT ![self] = "V1"]
                                    /\ UNCHANGED << bsize, active, sublock, 
                                                    queue, done, cur, k >>
                               ELSE /\ IF cur[self].type = "reemit"
                                          THEN /\ \E r \in 0..bsize[cur[self].buf]:
                                                    k' = [k EXCEPT ![self] = r]
                                               /\ done' = done + (bsize[cur[self].buf] - k'[self])
                                               /\ bsize' = [bsize EXCEPT ![cur[self].buf] = k'[self]]
                                               /\ pc' = [pc EXCEPT ![self] = "E1"]
                                               /\ UNCHANGED << active, sublock, 
                                                               queue, cur >>
                                          ELSE /\ IF \E x \in Subs : ~sublock[x] /\ \E q \in Dirs : active[x][q] # 0
                                                     THEN /\ \E ss \in {x \in Subs : ~sublock[x] /\ \E q \in Dirs : active[x][q] # 0}:
                                                               /\ sublock' = [sublock EXCEPT ![ss] = TRUE]
                                                               /\ \E dd \in {q \in Dirs : active[ss][q] # 0 /\ \A q2 \in Dirs : active[ss][q2] # 0 => bsize[active[ss][q2]] <= bsize[active[ss][q]]}:
                                                                    /\ queue' = (queue \cup {[type |-> IF dd = "ngb" THEN "trav" ELSE "reemit", buf |-> active[ss][dd], sub |-> bsub[active[ss][dd]]]})
                                                                    /\ active' = [active EXCEPT ![ss][dd] = 0]
                                                               /\ cur' = [cur EXCEPT ![self] = [type |-> "prem", sub |-> ss]]
                                                          /\ pc' = [pc EXCEPT ![self] = "P1"]
                                                     ELSE /\ pc' = [pc EXCEPT ![self] = "C0"]
                                                          /\ UNCHANGED << active, 
                                                                          sublock, 
                                                                          queue, 
                                                                          cur >>
                                               /\ UNCHANGED << bsize, done, k >>
                                    /\ UNCHANGED << budget, nA, nE, nM >>
                         /\ stack' = stack
              /\ UNCHANGED << flag, ntaken, bsub, unborn, srcq, runflag, 
                              exited, rb, s, d, cnt, tgt, spill, reg, pending, 
                              seenEmpty >>

X1(self) == /\ pc[self] = "X1"
            /\ bsize' = [bsize EXCEPT ![reg[self]] = cur[self].n]
            /\ bsub' = [bsub EXCEPT ![reg[self]] = 0]
            /\ unborn' = unborn - cur[self].n
            /\ pending' = [pending EXCEPT ![self] = {[type |-> "trav", buf |-> reg[self], sub |-> 0]}]
            /\ pc' = [pc EXCEPT ![self] = "Enq"]
            /\ UNCHANGED << flag, ntaken, active, sublock, queue, srcq, done, 
                            runflag, exited, budget, stack, rb, s, d, cnt, tgt, 
                            spill, reg, cur, nA, nE, nM, seenEmpty, k >>

V1(self) == /\ pc[self] = "V1"
            /\ IF nM[self] > 0
                  THEN /\ /\ cnt' = [cnt EXCEPT ![self] = nM[self]]
                          /\ d' = [d EXCEPT ![self] = "ngb"]
                          /\ s' = [s EXCEPT ![self] = cur[self].sub]
                          /\ stack' = [stack EXCEPT ![self] = << [ procedure |->  "Store",
                                                                   pc        |->  "V2",
                                                                   tgt       |->  tgt[self],
                                                                   spill     |->  spill[self],
                                                                   s         |->  s[self],
                                                                   d         |->  d[self],
                                                                   cnt       |->  cnt[self] ] >>
                                                               \o stack[self]]
                       /\ tgt' = [tgt EXCEPT ![self] = 0]
                       /\ spill' = [spill EXCEPT ![self] = 0]
                       /\ pc' = [pc EXCEPT ![self] = "S0"]
                  ELSE /\ pc' = [pc EXCEPT ![self] = "V2"]
                       /\ UNCHANGED << stack, s, d, cnt, tgt, spill >>
            /\ UNCHANGED << flag, ntaken, bsize, bsub, active, sublock, queue, 
                            unborn, srcq, done, runflag, exited, budget, rb, 
                            reg, cur, pending, nA, nE, nM, seenEmpty, k >>

V2(self) == /\ pc[self] = "V2"
            /\ IF REEMIT /\ nA[self] > 0
                  THEN /\ /\ cnt' = [cnt EXCEPT ![self] = nA[self]]
                          /\ d' = [d EXCEPT ![self] = "self"]
                          /\ s' = [s EXCEPT ![self] = cur[self].sub]
                          /\ stack' = [stack EXCEPT ![self] = << [ procedure |->  "Store",
                                                                   pc        |->  "V3",
                                                                   tgt       |->  tgt[self],
                                                                   spill     |->  spill[self],
                                                                   s         |->  s[self],
                                                                   d         |->  d[self],
                                                                   cnt       |->  cnt[self] ] >>
                                                               \o stack[self]]
                       /\ tgt' = [tgt EXCEPT ![self] = 0]
                       /\ spill' = [spill EXCEPT ![self] = 0]
                       /\ pc' = [pc EXCEPT ![self] = "S0"]
                  ELSE /\ pc' = [pc EXCEPT ![self] = "V3"]
                       /\ UNCHANGED << stack, s, d, cnt, tgt, spill >>
            /\ UNCHANGED << flag, ntaken, bsize, bsub, active, sublock, queue, 
                            unborn, srcq, done, runflag, exited, budget, rb, 
                            reg, cur, pending, nA, nE, nM, seenEmpty, k >>

V3(self) == /\ pc[self] = "V3"
            /\ IF PREADD_FIRST
                  THEN /\ done' = done + nE[self] + (IF REEMIT THEN 0 ELSE nA[self])
                       /\ pc' = [pc EXCEPT ![self] = "V4"]
                       /\ UNCHANGED << stack, rb >>
                  ELSE /\ /\ rb' = [rb EXCEPT ![self] = cur[self].buf]
                          /\ stack' = [stack EXCEPT ![self] = << [ procedure |->  "Release",
                                                                   pc        |->  "V5",
                                                                   rb        |->  rb[self] ] >>
                                                               \o stack[self]]
                       /\ pc' = [pc EXCEPT ![self] = "R1"]
                       /\ done' = done
            /\ UNCHANGED << flag, ntaken, bsize, bsub, active, sublock, queue, 
                            unborn, srcq, runflag, exited, budget, s, d, cnt, 
                            tgt, spill, reg, cur, pending, nA, nE, nM, 
                            seenEmpty, k >>

V4(self) == /\ pc[self] = "V4"
            /\ /\ rb' = [rb EXCEPT ![self] = cur[self].buf]
               /\ stack' = [stack EXCEPT ![self] = << [ procedure |->  "Release",
                                                        pc        |->  "V6",
                                                        rb        |->  rb[self] ] >>
                                                    \o stack[self]]
            /\ pc' = [pc EXCEPT ![self] = "R1"]
            /\ UNCHANGED << flag, ntaken, bsize, bsub, active, sublock, queue, 
                            unborn, srcq, done, runflag, exited, budget, s, d, 
                            cnt, tgt, spill, reg, cur, pending, nA, nE, nM, 
                            seenEmpty, k >>

V5(self) == /\ pc[self] = "V5"
            /\ done' = done + nE[self] + (IF REEMIT THEN 0 ELSE nA[self])
            /\ pc' = [pc EXCEPT ![self] = "V6"]
            /\ UNCHANGED << flag, ntaken, bsize, bsub, active, sublock, queue, 
                            unborn, srcq, runflag, exited, budget, stack, rb, 
                            s, d, cnt, tgt, spill, reg, cur, pending, nA, nE, 
                            nM, seenEmpty, k >>

V6(self) == /\ pc[self] = "V6"
            /\ sublock' = [sublock EXCEPT ![cur[self].sub] = FALSE]
            /\ pc' = [pc EXCEPT ![self] = "Enq"]
            /\ UNCHANGED << flag, ntaken, bsize, bsub, active, queue, unborn, 
                            srcq, done, runflag, exited, budget, stack, rb, s, 
                            d, cnt, tgt, spill, reg, cur, pending, nA, nE, nM, 
                            seenEmpty, k >>

E1(self) == /\ pc[self] = "E1"
            /\ IF k[self] > 0
                  THEN /\ pending' = [pending EXCEPT ![self] = {[type |-> "trav", buf |-> cur[self].buf, sub |-> cur[self].sub]}]
                       /\ pc' = [pc EXCEPT ![self] = "Enq"]
                       /\ UNCHANGED << stack, rb >>
                  ELSE /\ /\ rb' = [rb EXCEPT ![self] = cur[self].buf]
                          /\ stack' = [stack EXCEPT ![self] = << [ procedure |->  "Release",
                                                                   pc        |->  "Enq",
                                                                   rb        |->  rb[self] ] >>
                                                               \o stack[self]]
                       /\ pc' = [pc EXCEPT ![self] = "R1"]
                       /\ UNCHANGED pending
            /\ UNCHANGED << flag, ntaken, bsize, bsub, active, sublock, queue, 
                            unborn, srcq, done, runflag, exited, budget, s, d, 
                            cnt, tgt, spill, reg, cur, nA, nE, nM, seenEmpty, 
                            k >>

C0(self) == /\ pc[self] = "C0"
            /\ seenEmpty' = [seenEmpty EXCEPT ![self] = (ntaken = 0)]
            /\ pc' = [pc EXCEPT ![self] = "C1"]
            /\ UNCHANGED << flag, ntaken, bsize, bsub, active, sublock, queue, 
                            unborn, srcq, done, runflag, exited, budget, stack, 
                            rb, s, d, cnt, tgt, spill, reg, cur, pending, nA, 
                            nE, nM, k >>

C1(self) == /\ pc[self] = "C1"
            /\ IF seenEmpty[self] /\ done = N
                  THEN /\ runflag' = FALSE
                  ELSE /\ TRUE
                       /\ UNCHANGED runflag
            /\ pc' = [pc EXCEPT ![self] = "Enq"]
            /\ UNCHANGED << flag, ntaken, bsize, bsub, active, sublock, queue, 
                            unborn, srcq, done, exited, budget, stack, rb, s, 
                            d, cnt, tgt, spill, reg, cur, pending, nA, nE, nM, 
                            seenEmpty, k >>

P1(self) == /\ pc[self] = "P1"
            /\ sublock' = [sublock EXCEPT ![cur[self].sub] = FALSE]
            /\ pc' = [pc EXCEPT ![self] = "C0"]
            /\ UNCHANGED << flag, ntaken, bsize, bsub, active, queue, unborn, 
                            srcq, done, runflag, exited, budget, stack, rb, s, 
                            d, cnt, tgt, spill, reg, cur, pending, nA, nE, nM, 
                            seenEmpty, k >>

Enq(self) == /\ pc[self] = "Enq"
             /\ queue' = (queue \cup pending[self])
             /\ pending' = [pending EXCEPT ![self] = {}]
             /\ pc' = [pc EXCEPT ![self] = "Loop"]
             /\ UNCHANGED << flag, ntaken, bsize, bsub, active, sublock, 
                             unborn, srcq, done, runflag, exited, budget, 
                             stack, rb, s, d, cnt, tgt, spill, reg, cur, nA, 
                             nE, nM, seenEmpty, k >>

Fin(self) == /\ pc[self] = "Fin"
             /\ exited' = exited + 1
             /\ pc' = [pc EXCEPT ![self] = "Done"]
             /\ UNCHANGED << flag, ntaken, bsize, bsub, active, sublock, queue, 
                             unborn, srcq, done, runflag, budget, stack, rb, s, 
                             d, cnt, tgt, spill, reg, cur, pending, nA, nE, nM, 
                             seenEmpty, k >>

T(self) == Loop(self) \/ Get(self) \/ Exec(self) \/ X1(self) \/ V1(self)
              \/ V2(self) \/ V3(self) \/ V4(self) \/ V5(self) \/ V6(self)
              \/ E1(self) \/ C0(self) \/ C1(self) \/ P1(self) \/ Enq(self)
              \/ Fin(self)

(* Allow infinite stuttering to prevent deadlock on termination. *)
Terminating == /\ \A self \in ProcSet: pc[self] = "Done"
               /\ UNCHANGED vars

Next == (\E self \in ProcSet:  \/ Acquire(self) \/ Release(self)
                               \/ Store(self))
           \/ (\E self \in Threads: T(self))
           \/ Terminating

Spec == /\ Init /\ [][Next]_vars
        /\ \A self \in Threads : /\ WF_vars(T(self))
                                 /\ WF_vars(Acquire(self))
                                 /\ WF_vars(Store(self))
                                 /\ WF_vars(Release(self))

Termination == <>(\A self \in ProcSet: pc[self] = "Done")

\* END TRANSLATION

Quiescent == \A t \in Threads : pc[t] \in {"Loop", "Get", "Fin", "Done"} /\ pending[t] = {}
ConservationQ == Quiescent => unborn + InBuffers + done = N
AllExited == exited = NT
CleanEnd == AllExited => /\ done = N /\ ntaken = 0 /\ \A b \in Bufs : ~flag[b]
                         /\ queue = {} /\ srcq = {} /\ \A ss \in Subs : \A dd \in Dirs : active[ss][dd] = 0
                         /\ \A ss \in Subs : ~sublock[ss]
FlagFalseImpliesDone == ~runflag => done = N
DoneBound == done <= N
Terminates == <>AllExited
=============================================================================
