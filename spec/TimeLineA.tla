----------------------------- MODULE TimeLineA -----------------------------
(***************************************************************************)
(* Layer A (property oracle) for C19: the simulation time line.            *)
(*                                                                         *)
(* The time line is the integer interval 0..N with N = 2^K.  The real      *)
(* code uses K = 63; the model line is the image of the real one under     *)
(* division by 2^(63-K), which is exact as long as no step smaller than    *)
(* one model unit is taken (guaranteed by a configured minimum step of at  *)
(* least one model unit).  Requests and configured minimum/maximum steps   *)
(* are physical times, represented in QUARTER model units (suffix 4) so    *)
(* that values just above and just below every power of two exist.         *)
(*                                                                         *)
(* Advance may pick ANY admissible step (the property does not say which   *)
(* power of two has to be taken); Layer B (TimeLineB) is the code's        *)
(* deterministic choice and refines this module.                           *)
(***************************************************************************)
EXTENDS Naturals, FiniteSets

CONSTANTS K,        \* the line is 0..2^K
          MinCfg4,  \* configured minimum step, quarter units (0 = none)
          MaxCfg4,  \* configured maximum step, quarter units (0 = none)
          Reqs4     \* request levels explored by the model, quarter units

VARIABLES t,        \* current integer time
          alive,    \* TRUE until an advance reported "no further steps"
          sum,      \* sum of all steps taken
          last,     \* [kind, req4, step] of the last action (ghost)
          saved     \* <<t, alive, sum>> of the last Save, or <<>>

vars == <<t, alive, sum, last, saved>>

N == 2^K
Pow2 == {2^j : j \in 0..K}
SetMax(S) == CHOOSE x \in S : \A y \in S : y <= x

\* the effective integer bounds: largest power-of-two fraction of the total
\* interval that does not exceed the configured physical value
EffMin == IF MinCfg4 = 0 THEN 1
          ELSE SetMax({1} \cup {s \in Pow2 : 4 * s <= MinCfg4})
EffMax == IF MaxCfg4 = 0 THEN N
          ELSE SetMax({EffMin} \cup {s \in Pow2 : 4 * s <= MaxCfg4})

\* a request strictly below this value has to stop the run, a request at or
\* above StopBelow4 must not
MustStopBelow4 == 4 * EffMin
MayStopBelow4 == IF MinCfg4 > 4 * EffMin THEN MinCfg4 ELSE 4 * EffMin

\* admissible steps for request r4 at time tt: power of two, not larger than
\* the request nor the maximum, not below the minimum, divides the time left
Cands(tt, r4) == {s \in Pow2 : /\ 4 * s <= r4
                               /\ s <= EffMax
                               /\ s >= EffMin
                               /\ (N - tt) % s = 0}

Init == /\ t = 0
        /\ alive = TRUE
        /\ sum = 0
        /\ last = [kind |-> "init", req4 |-> 0, step |-> 0]
        /\ saved = <<>>

Step(r4, s) ==
    /\ alive
    /\ s \in Cands(t, r4)
    /\ t' = t + s
    /\ sum' = sum + s
    /\ alive' = (t' < N)
    /\ last' = [kind |-> "step", req4 |-> r4, step |-> s]
    /\ UNCHANGED saved

Stop(r4) ==
    /\ alive
    /\ r4 < MayStopBelow4 \/ Cands(t, r4) = {}
    /\ alive' = FALSE
    /\ last' = [kind |-> "stop", req4 |-> r4, step |-> 0]
    /\ UNCHANGED <<t, sum, saved>>

Save ==
    /\ saved' = <<t, alive, sum>>
    /\ last' = [kind |-> "save", req4 |-> 0, step |-> 0]
    /\ UNCHANGED <<t, alive, sum>>

Restore ==
    /\ saved # <<>>
    /\ t' = saved[1] /\ alive' = saved[2] /\ sum' = saved[3]
    /\ last' = [kind |-> "restore", req4 |-> 0, step |-> 0]
    /\ UNCHANGED saved

Advance(r4) == (\E s \in Pow2 : Step(r4, s)) \/ Stop(r4)

Next == (\E r4 \in Reqs4 : Advance(r4)) \/ Save \/ Restore

Spec == Init /\ [][Next]_vars

----------------------------------------------------------------------------
\* Properties of C19

TypeOK == /\ t \in 0..N /\ alive \in BOOLEAN /\ sum \in 0..N

NoOvershoot == t <= N

\* the divisibility argument behind NoOvershoot: the minimum step always
\* divides the time left, so a request >= minimum always has a candidate
MinDividesLeft == (N - t) % EffMin = 0
CandidateExists == \A r4 \in Reqs4 : r4 >= MustStopBelow4 => Cands(t, r4) # {}

StepsSumToTime == sum = t

\* "has further steps" is reported exactly while the end is not reached, and a
\* run that was never stopped by a too small request ends exactly on N
EndsExactly == (~alive /\ last.kind = "step") => (t = N /\ sum = N)
AliveMeansNotAtEnd == alive => t < N

\* action properties
StrictlyIncreasing == [][last'.kind = "step" => t' > t]_vars
StepRespectsRequest ==
    [][last'.kind = "step" =>
         /\ 4 * last'.step <= last'.req4
         /\ last'.step <= EffMax
         /\ last'.step \in Pow2
         /\ (N - t) % last'.step = 0]_vars
StopOnlyBelowMin ==
    [][last'.kind = "stop" => last'.req4 < MayStopBelow4 /\ t' = t]_vars
=============================================================================
