---------------------------- MODULE Trace_RestartRun ----------------------------
(***************************************************************************)
(* C09, Layer A ("RestartRun"): a run is a deterministic step function on  *)
(* an opaque state.  Histories (uninterrupted, stopped after step k and    *)
(* restarted, restarts of restarts) of the same configuration are          *)
(* recorded; the state digest after step k and the digest of the dump      *)
(* written after step k (wall-clock timers and the deliberately re-seeded  *)
(* random seed excluded) must not depend on the history:                   *)
(*   {"e":"config"}                     a new configuration                *)
(*   {"e":"hist","h":id,"from":k}       a (re)started process, k = -1 for  *)
(*                                      a fresh start                      *)
(*   {"e":"step","k":k,"d":"digest"}    state after step k                 *)
(*   {"e":"dump","k":k,"d":"digest"}    dump written after step k          *)
(*   {"e":"rw","name":c,"same":0|1}     component c: write, read back,     *)
(*                                      write again gave identical bytes   *)
(*   {"e":"fail","what":w}              a process of the history did not   *)
(*                                      end normally                       *)
(***************************************************************************)
EXTENDS Integers, Sequences, TLC, Json, IOUtils

TraceLog == ndJsonDeserialize(IOEnv.TRACE)
MaxK == 64
VARIABLES l, stateAt, dumpAt, from, bad
vars == <<l, stateAt, dumpAt, from, bad>>
Rec == TraceLog[l]
IsEvent(e) == l <= Len(TraceLog) /\ Rec.e = e /\ l' = l + 1
Unknown == [k \in 0 .. MaxK |-> ""]

Init == l = 1 /\ stateAt = Unknown /\ dumpAt = Unknown /\ from = -1 /\ bad = {}

TConfig == IsEvent("config") /\ stateAt' = Unknown /\ dumpAt' = Unknown /\ from' = -1 /\ UNCHANGED bad
\* a restart needs the dump of the step it restarts from
THist == /\ IsEvent("hist") /\ from' = Rec.from
         /\ bad' = bad \cup (IF Rec.from >= 0 /\ dumpAt[Rec.from] = "" THEN {"nodump"} ELSE {})
         /\ UNCHANGED <<stateAt, dumpAt>>
TStep == /\ IsEvent("step")
         /\ stateAt' = IF stateAt[Rec.k] = "" THEN [stateAt EXCEPT ![Rec.k] = Rec.d] ELSE stateAt
         /\ bad' = bad \cup (IF stateAt[Rec.k] # "" /\ stateAt[Rec.k] # Rec.d
                             THEN {IF from >= 0 THEN "continuation" ELSE "rerun"} ELSE {})
         /\ UNCHANGED <<dumpAt, from>>
TDump == /\ IsEvent("dump")
         /\ dumpAt' = IF dumpAt[Rec.k] = "" THEN [dumpAt EXCEPT ![Rec.k] = Rec.d] ELSE dumpAt
         /\ bad' = bad \cup (IF dumpAt[Rec.k] # "" /\ dumpAt[Rec.k] # Rec.d
                             THEN {IF from >= 0 THEN "dump" ELSE "rerun"} ELSE {})
         /\ UNCHANGED <<stateAt, from>>
TRw == /\ IsEvent("rw") /\ bad' = bad \cup (IF Rec.same = 1 THEN {} ELSE {"rw"})
       /\ UNCHANGED <<stateAt, dumpAt, from>>
\* field layout of a dump: "w" = runs <<kind, size, count>> of the fields the previous process wrote into the dump
\* (kind f: floating point, n: integer, c: character of a string, o: other), "r" = runs of the
\* fields the restarted process read from it.  Every field is read back with the kind and size it was written with, in
\* the same order (the reader may stop before the end of the file, it may not read past it).
\* A signed integer read back as an unsigned one of the same size (or the reverse) keeps every non-negative value, so
\* the two integer kinds are one class here; the hook's runs are re-merged by class in scripts/props/c09.py.
RunsMatch(w, r) ==
    /\ Len(r) <= Len(w)
    /\ \A i \in 1 .. Len(r) : /\ r[i][1] = w[i][1] /\ r[i][2] = w[i][2]
                                /\ IF i < Len(r) THEN r[i][3] = w[i][3] ELSE r[i][3] <= w[i][3]
TLayout == /\ IsEvent("layout")
           /\ bad' = bad \cup (IF Len(Rec.w) > 0 /\ Len(Rec.r) > 0 /\ RunsMatch(Rec.w, Rec.r) THEN {} ELSE {"layout"})
                         \* the restarted simulation holds as many subgrids (originals and copies) as the dumped one
                         \cup (IF Rec.nsubw = Rec.nsubr THEN {} ELSE {"subgrids"})
           /\ UNCHANGED <<stateAt, dumpAt, from>>

TFail == IsEvent("fail") /\ bad' = bad \cup {"fail"} /\ UNCHANGED <<stateAt, dumpAt, from>>
Next == TConfig \/ THist \/ TStep \/ TDump \/ TRw \/ TLayout \/ TFail
Spec == Init /\ [][Next]_vars

ASSUME TLCSet(1, 0)
TrackL == TLCSet(1, IF l > TLCGet(1) THEN l ELSE TLCGet(1))
PrintMaxL == PrintT(<<"MAXL", TLCGet(1)>>)

\* a restarted run agrees with the uninterrupted one at every step it reaches
ContinuationExact == "continuation" \notin bad
\* the dump after step k has the same bytes whatever the number of earlier
\* stop / restart cycles (system-level "write, read back, write again")
DumpIdempotent == "dump" \notin bad
\* component level
ComponentRoundTrip == bad \cap {"rw", "layout", "subgrids"} = {}
\* premises of the comparison: the uninterrupted run is reproducible, restarts
\* find their dump, every process ends normally
ReferenceReproducible == "rerun" \notin bad
RunsComplete == bad \cap {"fail", "nodump"} = {}
=============================================================================
