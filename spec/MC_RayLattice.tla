----------------------------- MODULE MC_RayLattice -----------------------------
(***************************************************************************)
(* Evaluates RayLattice!Trace on the cases of a JSON file (environment     *)
(* variable CASES: records {"n":[..],"p":[..],"d":[..],"kap":[..],         *)
(* "tau2":t}) and prints the results (binding R: the real grids must        *)
(* reproduce them).  Also asserts geometric sanity on every case: the      *)
(* deposited lengths sum to the time travelled, and the optical depth      *)
(* used equals the sum of opacity times length.                            *)
(***************************************************************************)
EXTENDS RayLattice, Json, IOUtils, TLC
Cases == JsonDeserialize(IOEnv.CASES)
Res(cs) == Trace(cs.n, cs.p, cs.d, cs.kap, cs.tau2)
Results == [i \in 1 .. Len(Cases) |-> Res(Cases[i])]
RECURSIVE SumSeq(_, _)
SumSeq(s, i) == IF i > Len(s) THEN 0 ELSE s[i] + SumSeq(s, i + 1)
RECURSIVE Dot(_, _, _)
Dot(a, b, i) == IF i > Len(a) THEN 0 ELSE a[i] * b[i] + Dot(a, b, i + 1)
ASSUME Sanity == \A i \in 1 .. Len(Cases) :
    /\ SumSeq(Results[i].dep4, 1) = Results[i].t4
    /\ Dot(Results[i].dep4, Cases[i].kap, 1) = 2 * Results[i].used2
    /\ Results[i].absorbed => Results[i].used2 = Cases[i].tau2
ASSUME PrintT(<<"RAYS", ToJson(Results)>>)
VARIABLE x
Init == x = 0
Next == UNCHANGED x
Spec == Init /\ [][Next]_x
=============================================================================
