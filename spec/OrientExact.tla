----------------------------- MODULE OrientExact -----------------------------
(***************************************************************************)
(* C17, Layer A: exact signs of the orientation and in-sphere             *)
(* determinants.                                                           *)
(*                                                                         *)
(* A point is given by lattice coordinates k (the double 1 + k/8, exactly  *)
(* representable, inside [1,2)) and a perturbation q in units in the last  *)
(* place (2^-52): coordinate = 1 + k/8 + q 2^-52.  With e = 2^-49 (one ulp *)
(* in lattice units) every matrix entry is a polynomial in e with integer  *)
(* coefficients, and so is the determinant: c0 + c1 e + c2 e^2 + ...       *)
(* Because |c_j| < 2^31 and e = 2^-49, the first non-zero coefficient      *)
(* dominates all later ones, so the exact sign is the sign of the first    *)
(* non-zero coefficient (0 if all vanish).  The same holds for every other  *)
(* lattice unit of U ulps (coordinate = 1 + (k U + q) 2^-52, e = 1/U) with  *)
(* U > 2^31; the checks use 2^27, and an odd 40 bit unit whose multiples    *)
(* have dense mantissas so that every floating-point product rounds.       *)
(*                                                                         *)
(*   orient3d(a,b,c,d) = sign det [a-d; b-d; c-d]                          *)
(*   insphere(a,b,c,d,e) = sign det [a-e, |a-e|^2; b-e, |b-e|^2;           *)
(*                                   c-e, |c-e|^2; d-e, |d-e|^2]           *)
(* (rows as in Shewchuk's predicates, which the code follows).             *)
(*                                                                         *)
(* Polynomials are sequences of coefficients <<c0, c1, ...>> of fixed      *)
(* length Deg + 1; products are truncated at degree Deg (the full degree   *)
(* is 3 for orient3d and 5 for insphere).                                  *)
(***************************************************************************)
EXTENDS Integers, Sequences

\* order up to which the polynomials are computed (TLC integers are 32 bit: the
\* checks choose Deg and the size of the perturbations such that no
\* coefficient overflows - TLC reports an overflow as an error, it never wraps);
\* a result that is still 0 at order Deg < full degree is reported as undecided
CONSTANT Deg
Zero == [i \in 1 .. Deg + 1 |-> 0]
PAdd(p, q) == [i \in 1 .. Deg + 1 |-> p[i] + q[i]]
PSub(p, q) == [i \in 1 .. Deg + 1 |-> p[i] - q[i]]
RECURSIVE Conv(_, _, _, _)
Conv(p, q, i, j) == IF j > i THEN 0 ELSE p[j] * q[i - j + 1] + Conv(p, q, i, j + 1)
PMul(p, q) == [i \in 1 .. Deg + 1 |-> Conv(p, q, i, 1)]
\* k + q e
Lin(k, q) == [i \in 1 .. Deg + 1 |-> IF i = 1 THEN k ELSE IF i = 2 THEN q ELSE 0]

Sgn(x) == IF x > 0 THEN 1 ELSE IF x < 0 THEN -1 ELSE 0
RECURSIVE FirstSign(_, _)
FirstSign(p, i) == IF i > Deg + 1 THEN 0 ELSE IF p[i] # 0 THEN Sgn(p[i]) ELSE FirstSign(p, i + 1)
SignOf(p) == FirstSign(p, 1)

\* a point is a record [k |-> <<kx,ky,kz>>, q |-> <<qx,qy,qz>>]
Diff(a, b, i) == Lin(a.k[i] - b.k[i], a.q[i] - b.q[i])
Row(a, b) == <<Diff(a, b, 1), Diff(a, b, 2), Diff(a, b, 3)>>

Det2(a, b, c, d) == PSub(PMul(a, d), PMul(b, c))
Det3(r1, r2, r3) ==
    PAdd(PSub(PMul(r1[1], Det2(r2[2], r2[3], r3[2], r3[3])),
              PMul(r1[2], Det2(r2[1], r2[3], r3[1], r3[3]))),
         PMul(r1[3], Det2(r2[1], r2[2], r3[1], r3[2])))

OrientPoly(a, b, c, d) == Det3(Row(a, d), Row(b, d), Row(c, d))
Orient3d(a, b, c, d) == SignOf(OrientPoly(a, b, c, d))

Lift(r) == PAdd(PAdd(PMul(r[1], r[1]), PMul(r[2], r[2])), PMul(r[3], r[3]))
\* expansion along the lifted (fourth) column:
\* det = -l1 D(2,3,4) + l2 D(1,3,4) - l3 D(1,2,4) + l4 D(1,2,3)
InSpherePoly(a, b, c, d, e) ==
    LET r1 == Row(a, e)  r2 == Row(b, e)  r3 == Row(c, e)  r4 == Row(d, e)
    IN PAdd(PSub(PMul(Lift(r2), Det3(r1, r3, r4)), PMul(Lift(r1), Det3(r2, r3, r4))),
            PSub(PMul(Lift(r4), Det3(r1, r2, r3)), PMul(Lift(r3), Det3(r1, r2, r4))))
InSphere(a, b, c, d, e) == SignOf(InSpherePoly(a, b, c, d, e))
=============================================================================
