SPECIFICATION Spec
CONSTRAINT TrackL
INVARIANTS Conservation ExactlyOnce OverflowExact LaunchExact EndOnlyWhenDone CleanEnd
POSTCONDITION PrintMaxL
CHECK_DEADLOCK FALSE
