SPECIFICATION Spec
CONSTRAINT TrackL
INVARIANTS NeverAborts AfterDump CrashSafe NoStrayFiles
POSTCONDITION PrintMaxL
CHECK_DEADLOCK FALSE
