SPECIFICATION Spec
CONSTRAINT TrackL
INVARIANTS NeverAborts AfterDump CrashSafe NoStrayFiles NotAccepted
POSTCONDITION PrintMaxL
CHECK_DEADLOCK FALSE
