------------------------------ MODULE YamlDict ------------------------------
(***************************************************************************)
(* C20 (parameter trees).  Layer A: parsing the print of a dictionary      *)
(* gives the dictionary back.  Layer B: the two algorithms of              *)
(* YAMLDictionary.hpp as they are.                                         *)
(*                                                                         *)
(* A dictionary is a sequence of entries [path, val] in the order in       *)
(* which std::map visits the full key strings (computed by the harness:    *)
(* byte-lexicographic order of "group:group:key"); path is a non-empty     *)
(* sequence of names (small integers standing for strings), val a          *)
(* non-zero integer standing for a non-empty value string.  A line of the  *)
(* printed text is [ind, name, val]: ind = number of two-space indents,    *)
(* val = 0 for a group header "name:".                                     *)
(***************************************************************************)
EXTENDS Integers, Sequences, FiniteSets

Groups(e) == SubSeq(e.path, 1, Len(e.path) - 1)
KeyOf(e) == e.path[Len(e.path)]
Pop(s) == SubSeq(s, 1, Len(s) - 1)

RECURSIVE Common(_, _, _)
\* length of the common prefix of gn and kg, starting the comparison at i
Common(gn, kg, i) == IF i < Len(gn) /\ i < Len(kg) /\ gn[i + 1] = kg[i + 1] THEN Common(gn, kg, i + 1) ELSE i

RECURSIVE Headers(_, _, _)
\* group header lines for kg[from+1 .. Len(kg)], indentation starting at from
Headers(kg, from, acc) == IF from >= Len(kg) THEN acc
                          ELSE Headers(kg, from + 1, Append(acc, [ind |-> from, name |-> kg[from + 1], val |-> 0]))

\* "for (j = i; j < groupname.size(); ++j) groupname.pop_back();" - the bound
\* shrinks while the loop pops, so only every other element goes
RECURSIVE ShrinkingPop(_, _)
ShrinkingPop(gn, j) == IF j < Len(gn) THEN ShrinkingPop(Pop(gn), j + 1) ELSE gn
RECURSIVE PopN(_, _)
PopN(gn, n) == IF n = 0 THEN gn ELSE PopN(Pop(gn), n - 1)
RECURSIVE TrimTo(_, _)
TrimTo(gn, n) == IF Len(gn) > n THEN TrimTo(Pop(gn), n) ELSE gn

\* one entry of print_contents: returns <<new group stack, lines>>
PrintEntry(gn, e) ==
    LET kg == Groups(e) IN
    IF Len(kg) > Len(gn)
    THEN LET i == Common(gn, kg, 0)
             g1 == ShrinkingPop(gn, i)
         IN <<g1 \o SubSeq(kg, i + 1, Len(kg)),
              Append(Headers(kg, i, <<>>), [ind |-> Len(kg), name |-> KeyOf(e), val |-> e.val])>>
    ELSE LET g0 == TrimTo(gn, Len(kg))
             i == Common(g0, kg, 0)
             g1 == PopN(g0, Len(kg) - i)
         IN <<g1 \o SubSeq(kg, i + 1, Len(kg)),
              Append(Headers(kg, i, <<>>), [ind |-> Len(kg), name |-> KeyOf(e), val |-> e.val])>>

RECURSIVE PrintAll(_, _, _, _)
PrintAll(entries, k, gn, acc) ==
    IF k > Len(entries) THEN acc
    ELSE LET r == PrintEntry(gn, entries[k]) IN PrintAll(entries, k + 1, r[1], acc \o r[2])
PrintB(entries) == PrintAll(entries, 1, <<>>, <<>>)

\* ---- the parser (constructor from a stream) ----
RECURSIVE Unwind(_, _, _)
\* while (indentation < levels.back()) pop both
Unwind(levels, gn, indent) ==
    IF Len(levels) > 0 /\ indent < levels[Len(levels)] /\ Len(gn) > 0
    THEN Unwind(Pop(levels), Pop(gn), indent) ELSE <<levels, gn>>

\* state: [levels, gn, dict, err]
ParseLine(st, ln) ==
    IF st.err THEN st
    ELSE IF ln.ind > 0
    THEN LET indent == 2 * ln.ind
             lv == IF Len(st.levels) > 0
                   THEN (IF indent > st.levels[Len(st.levels)]
                         THEN <<Append(st.levels, indent), st.gn>>
                         ELSE Unwind(st.levels, st.gn, indent))
                   ELSE <<Append(st.levels, indent), st.gn>>
         IN IF Len(lv[1]) # Len(lv[2]) THEN [st EXCEPT !.err = TRUE]
            ELSE IF ln.val = 0
                 THEN [st EXCEPT !.levels = lv[1], !.gn = Append(lv[2], ln.name)]
                 ELSE [st EXCEPT !.levels = lv[1], !.gn = lv[2],
                                 !.dict = @ \cup {[path |-> Append(lv[2], ln.name), val |-> ln.val]}]
    ELSE IF Len(st.gn) # Len(st.levels) THEN [st EXCEPT !.err = TRUE]
         ELSE IF ln.val = 0
              THEN [st EXCEPT !.levels = <<>>, !.gn = <<ln.name>>]
              ELSE [st EXCEPT !.levels = <<>>, !.gn = <<>>,
                              !.dict = {d \in @ : d.path # <<ln.name>>} \cup {[path |-> <<ln.name>>, val |-> ln.val]}]

RECURSIVE ParseAll(_, _, _)
ParseAll(lines, k, st) == IF k > Len(lines) THEN st ELSE ParseAll(lines, k + 1, ParseLine(st, lines[k]))
ParseB(lines) == ParseAll(lines, 1, [levels |-> <<>>, gn |-> <<>>, dict |-> {}, err |-> FALSE])

\* ---- Layer A ----
AsSet(entries) == {entries[k] : k \in 1 .. Len(entries)}
RoundTrip(entries) == LET r == ParseB(PrintB(entries)) IN ~r.err /\ r.dict = AsSet(entries)
=============================================================================
