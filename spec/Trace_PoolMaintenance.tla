------------------------ MODULE Trace_PoolMaintenance ------------------------
(***************************************************************************)
(* C08, the sequential side: the maintenance calls of ThreadSafeVector that *)
(* the simulations make while no worker thread runs, and the arithmetic of  *)
(* AtomicValue under contention.                                            *)
(*  {"e":"mreset","size":n}            a fresh pool of n slots              *)
(*  {"e":"m","op":o,"arg":a,"ret":r,"flags":[0|1..],"taken":t,"cursor":c}   *)
(*       after get (ret = slot handed out), free (arg = slot), clear_after   *)
(*       (arg = offset; every slot below the offset is held) and clear: the  *)
(*       lock flags, the occupancy count and the cursor as observed          *)
(*  {"e":"stress","kind":k,"threads":T,"ops":K,"expected":x,"got":y}         *)
(*       T real threads applied K operations of one kind to one counter      *)
(* Layer A: a pool is the set of slots held.  get hands out a slot that was  *)
(* free; free releases a held slot; clear_after(k) releases every slot >= k  *)
(* and leaves count and cursor at k; clear releases everything.  After every *)
(* call the flags are exactly the slots held and the count is their number.  *)
(* An atomic counter never loses an update.                                  *)
(***************************************************************************)
EXTENDS Integers, Sequences, FiniteSets, TLC, Json, IOUtils
TraceLog == ndJsonDeserialize(IOEnv.TRACE)
VARIABLES l, size, held, bad
vars == <<l, size, held, bad>>
Rec == TraceLog[l]
IsEvent(e) == l <= Len(TraceLog) /\ Rec.e = e /\ l' = l + 1
Tag(c, t) == IF c THEN {} ELSE {t}
FlagSet(r) == {i \in 0 .. Len(r.flags) - 1 : r.flags[i + 1] = 1}
Init == l = 1 /\ size = 0 /\ held = {} /\ bad = {}
TReset == IsEvent("mreset") /\ size' = Rec.size /\ held' = {} /\ UNCHANGED bad
NewHeld == CASE Rec.op = "get" -> held \cup {Rec.ret}
             [] Rec.op = "free" -> held \ {Rec.arg}
             [] Rec.op = "clear_after" -> {i \in held : i < Rec.arg}
             [] OTHER -> {}
TOp == /\ IsEvent("m")
       /\ held' = NewHeld
       /\ bad' = bad \cup Tag(Rec.op = "get" => (Rec.ret \in 0 .. size - 1 /\ Rec.ret \notin held), "handout")
                     \cup Tag(FlagSet(Rec) = NewHeld, "flags")
                     \cup Tag(Rec.taken = Cardinality(NewHeld), "count")
                     \cup Tag(Rec.op = "clear_after" => Rec.cursor = Rec.arg, "cursor")
       /\ UNCHANGED size
TStress == /\ IsEvent("stress")
           /\ bad' = bad \cup Tag(Rec.got = Rec.expected, "lostupdate")
           /\ UNCHANGED <<size, held>>
Next == TReset \/ TOp \/ TStress
Spec == Init /\ [][Next]_vars
ASSUME TLCSet(1, 0)
TrackL == TLCSet(1, IF l > TLCGet(1) THEN l ELSE TLCGet(1))
PrintMaxL == PrintT(<<"MAXL", TLCGet(1)>>)
NoDoubleHandout == "handout" \notin bad
SlotsAreWhatIsHeld == bad \cap {"flags", "cursor"} = {}
QuiescentCount == "count" \notin bad
NoLostUpdate == "lostupdate" \notin bad
=============================================================================
