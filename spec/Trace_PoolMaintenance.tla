------------------------ MODULE Trace_PoolMaintenance ------------------------
(***************************************************************************)
(* C08, the sequential side: the maintenance calls of ThreadSafeVector that *)
(* the simulations make while no worker thread runs, and the arithmetic of  *)
(* AtomicValue under contention.                                            *)
(*  {"e":"mreset","size":n}            a fresh pool of n slots              *)
(*  {"e":"m","op":o,"arg":a,"ret":r,"flags":[0|1..],"taken":t,"cursor":c}   *)
(*       after get (ret = slot handed out), free (arg = slot), clear_after   *)
(*       (arg = offset; every slot below the offset is held) and clear: the  *)
(*       lock flags, the occupancy count and the cursor as observed          *)
(*  {"e":"stress","kind":k,"threads":T,"ops":K,"expected":x,"got":y}         *)
(*       T real threads applied K operations of one kind to one counter      *)
(* Layer A: a pool is the set of slots held.  get hands out a slot that was  *)
(* free; free releases a held slot; clear_after(k) releases every slot >= k  *)
(* and leaves count and cursor at k; clear releases everything.  After every *)
(* call the flags are exactly the slots held and the count is their number.  *)
(* An atomic counter never loses an update.                                  *)
(* reserve(n) on an empty pool hands out exactly the slots 0 .. n-1 (the     *)
(* persistent hydro tasks), clear_fast on an empty pool only rewinds the     *)
(* cursor, "active" reports exactly the slots held (arg = bit set, ret =     *)
(* their number).                                                            *)
(*  {"e":"qreset"} {"e":"q","op":o,"a":x,"b":y,"ret":r,"queue":[..]}         *)
(*       one TaskQueue used by one thread, tasks without resources: add      *)
(*       appends x, add_range appends x .. y-1 in order, get / try_get hand  *)
(*       out the newest entry (or nothing iff the queue is empty); the queue *)
(*       lock is free after every call.  Every index is handed out at most   *)
(*       once and only if it was queued.                                     *)
(*       "blo","bhi": tasks blo .. bhi-1 declare a resource that is held by  *)
(*       someone else during the call: the pop hands out the newest entry    *)
(*       that is not blocked, however many blocked entries lie above it.     *)
(*  {"e":"handover","size":n,"slot":s,"regot":0|1,"wrote":w,"found":f,       *)
(*   "bufsize":b,"taken":t}  the releaser of buffer s was stopped between    *)
(*       clearing the slot flag and lowering the count, another thread got   *)
(*       slot s and stored w packets, the releaser finished: the w packets   *)
(*       must still be there (a slot belongs to its holder alone).           *)
(*  {"e":"ovf","cap":C,"first":f,"t0":n,"nin":m,"ret_same":s,"fresh":h,      *)
(*   "target":[..],"spill":[..],"hdr":0|1,"dtaken":d}                        *)
(*       MemorySpace::add_photons: a pool buffer holding the packets f ..    *)
(*       f+n-1 receives the m packets f+n .. f+n+m-1 of a staging buffer.    *)
(*       Layer A: no packet is lost or duplicated and the order is kept:     *)
(*       target \o spill = <<f, .., f+n+m-1>>; the target overflows only     *)
(*       when it is full; a spill buffer is a fresh slot of the pool (one    *)
(*       more slot in use), inherits subgrid and direction, and is returned  *)
(*       iff the target became full.                                         *)
(***************************************************************************)
EXTENDS Integers, Sequences, FiniteSets, TLC, Json, IOUtils
TraceLog == ndJsonDeserialize(IOEnv.TRACE)
VARIABLES l, size, held, bad, queue, handed
vars == <<l, size, held, bad, queue, handed>>
Rec == TraceLog[l]
IsEvent(e) == l <= Len(TraceLog) /\ Rec.e = e /\ l' = l + 1
Tag(c, t) == IF c THEN {} ELSE {t}
FlagSet(r) == {i \in 0 .. Len(r.flags) - 1 : r.flags[i + 1] = 1}
BitSet(n) == {i \in 0 .. size - 1 : (n \div (2 ^ i)) % 2 = 1}
Init == l = 1 /\ size = 0 /\ held = {} /\ bad = {} /\ queue = <<>> /\ handed = {}
TReset == IsEvent("mreset") /\ size' = Rec.size /\ held' = {} /\ UNCHANGED <<bad, queue, handed>>
NewHeld == CASE Rec.op = "get" -> held \cup {Rec.ret}
             [] Rec.op = "free" -> held \ {Rec.arg}
             [] Rec.op = "clear_after" -> {i \in held : i < Rec.arg}
             [] Rec.op = "reserve" -> 0 .. Rec.arg - 1
             [] Rec.op \in {"active", "clear_fast"} -> held
             [] OTHER -> {}
TOp == /\ IsEvent("m")
       /\ held' = NewHeld
       /\ bad' = bad \cup Tag(Rec.op = "get" => (Rec.ret \in 0 .. size - 1 /\ Rec.ret \notin held), "handout")
                     \cup Tag(FlagSet(Rec) = NewHeld, "flags")
                     \cup Tag(Rec.taken = Cardinality(NewHeld), "count")
                     \cup Tag(Rec.op \in {"clear_after", "reserve"} => Rec.cursor = Rec.arg, "cursor")
                     \cup Tag(Rec.op \in {"clear", "clear_fast"} => Rec.cursor = 0, "cursor")
                     \cup Tag(Rec.op \in {"reserve", "clear_fast"} => held = {}, "precondition")
                     \cup Tag(Rec.op = "active" => (BitSet(Rec.arg) = held /\ Rec.ret = Cardinality(held)), "census")
       /\ UNCHANGED <<size, queue, handed>>
TStress == /\ IsEvent("stress")
           /\ bad' = bad \cup Tag(Rec.got = Rec.expected, "lostupdate")
           /\ UNCHANGED <<size, held, queue, handed>>
\* ---- one task queue, sequentially ----
Range(a, b) == [i \in 1 .. (b - a) |-> a + i - 1]
TQReset == IsEvent("qreset") /\ queue' = <<>> /\ handed' = {} /\ UNCHANGED <<size, held, bad>>
TQ == /\ IsEvent("q")
      /\ LET isget == Rec.op \in {"get", "try_get"}
             \* tasks blo .. bhi-1 declare a resource that someone else holds during the call
             Blocked(x) == "blo" \in DOMAIN Rec /\ x >= Rec.blo /\ x < Rec.bhi
             free == {k \in 1 .. Len(queue) : ~Blocked(queue[k])}
             top == IF free = {} THEN 0 ELSE CHOOSE k \in free : \A j \in free : j <= k
             q1 == CASE Rec.op = "add" -> Append(queue, Rec.a)
                     [] Rec.op = "add_range" -> queue \o Range(Rec.a, Rec.b)
                     [] OTHER -> IF top = 0 THEN queue
                                 ELSE SubSeq(queue, 1, top - 1) \o SubSeq(queue, top + 1, Len(queue))
         IN /\ queue' = q1
            /\ handed' = IF isget /\ Rec.ret >= 0 THEN handed \cup {Rec.ret} ELSE handed
            /\ bad' = bad \cup Tag(Rec.queue = q1, "queue")
                          \cup Tag(isget => IF top = 0 THEN Rec.ret = -1
                                                      ELSE Rec.ret = queue[top] /\ Rec.ret \notin handed, "taskhandout")
                          \cup Tag(Rec.locked = 0, "queuelock")
      /\ UNCHANGED <<size, held>>
\* ---- overflow of a photon buffer ----
TOvf == /\ IsEvent("ovf")
        /\ LET all == Rec.target \o Rec.spill
               n == Rec.t0 + Rec.nin
           IN bad' = bad \cup Tag(/\ Len(all) = n
                                   /\ \A i \in 1 .. n : all[i] = Rec.first + i - 1, "packets")
                         \cup Tag(/\ Len(Rec.target) <= Rec.cap
                                   /\ (Rec.spill # <<>> => Len(Rec.target) = Rec.cap), "fill")
                         \cup Tag(/\ (Rec.ret_same = 0) = (n >= Rec.cap)
                                   /\ (Rec.ret_same = 0 => Rec.fresh = 1 /\ Rec.dtaken = 1)
                                   /\ (Rec.ret_same = 1 => Rec.dtaken = 0)
                                   /\ Rec.hdr = 1, "spillbuffer")
        /\ UNCHANGED <<size, held, queue, handed>>
\* ---- a slot that changes hands while its previous holder is still inside free_buffer ----
THandover == /\ IsEvent("handover")
             /\ bad' = bad \cup Tag(Rec.regot = 1 => (Rec.found = Rec.wrote /\ Rec.bufsize = Rec.wrote /\ Rec.taken = 1), "private")
             /\ UNCHANGED <<size, held, queue, handed>>
Next == TReset \/ TOp \/ TStress \/ TQReset \/ TQ \/ TOvf \/ THandover
Spec == Init /\ [][Next]_vars
ASSUME TLCSet(1, 0)
TrackL == TLCSet(1, IF l > TLCGet(1) THEN l ELSE TLCGet(1))
PrintMaxL == PrintT(<<"MAXL", TLCGet(1)>>)
\* a slot handed out belongs to the requester alone: nothing the previous holder still does may touch it
NoDoubleHandout == bad \cap {"handout", "private"} = {}
SlotsAreWhatIsHeld == bad \cap {"flags", "cursor"} = {}
QuiescentCount == "count" \notin bad
NoLostUpdate == "lostupdate" \notin bad
MaintenanceContracts == bad \cap {"precondition", "census"} = {}
\* every index put into the queue is handed out at most once, newest first, never when it was not queued
QueueHandsOutOnce == bad \cap {"queue", "taskhandout", "queuelock"} = {}
\* an overflowing buffer loses or duplicates no packet and spills into a fresh slot with the same destination
OverflowExact == bad \cap {"packets", "fill", "spillbuffer"} = {}
=============================================================================
