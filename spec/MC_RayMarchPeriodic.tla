------------------------- MODULE MC_RayMarchPeriodic -------------------------
(* Model values for RayMarchPeriodic: opacities >= 1 so that every packet is absorbed inside the unfolded lattice. *)
EXTENDS RayMarchPeriodic
MC_Kaps4 == { <<1, 1, 1, 1>>, <<1, 2, 1, 2>>, <<2, 1, 1, 1>> }
MC_Kaps3 == { <<1, 1, 1>>, <<1, 2, 1>> }
MC_Kaps2 == { <<1, 1>>, <<1, 2>> }
MC_Taus == { 3, 49, 75 }
=============================================================================
