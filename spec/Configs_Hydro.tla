---------------------------- MODULE Configs_Hydro ----------------------------
(***************************************************************************)
(* Binding E: the configuration space of the hydro properties (C07, C10,   *)
(* C04): subgrid layouts with at most MaxSub subgrids and MaxN per axis,   *)
(* times the eight periodicity combinations.  Printed as JSON; the checks  *)
(* run the real code on every (thorough) or a seeded sample always         *)
(* containing the corner cases (quick) of these configurations.            *)
(***************************************************************************)
EXTENDS Integers, Json, TLC
CONSTANTS MaxN, MaxSub
Layouts == {l \in (1..MaxN) \X (1..MaxN) \X (1..MaxN) : l[1] * l[2] * l[3] <= MaxSub}
B == {0, 1}
Configs == {[n |-> l, per |-> p] : l \in Layouts, p \in B \X B \X B}
ASSUME PrintT(<<"CONFIGS", ToJson(Configs)>>)
VARIABLE x
Init == x = 0
Next == UNCHANGED x
Spec == Init /\ [][Next]_x
=============================================================================
