SPECIFICATION Spec
CONSTRAINT TrackL
INVARIANTS NoDoubleHandout SlotsAreWhatIsHeld QuiescentCount NoLostUpdate
POSTCONDITION PrintMaxL
CHECK_DEADLOCK FALSE
