SPECIFICATION Spec
CONSTRAINT TrackL
INVARIANTS NoDoubleHandout SlotsAreWhatIsHeld QuiescentCount NoLostUpdate MaintenanceContracts QueueHandsOutOnce OverflowExact
POSTCONDITION PrintMaxL
CHECK_DEADLOCK FALSE
