------------------------------- MODULE Ranlux -------------------------------
(***************************************************************************)
(* C13, Layer A: the RANLUX generator "ranlxd2" (M. Luescher, Comput.      *)
(* Phys. Commun. 79 (1994) 100; double precision version as distributed    *)
(* with GSL), written from its definition and not from the unrolled loops  *)
(* of RandomGenerator.hpp:                                                 *)
(*                                                                         *)
(*  - words of 48 bits; subtract-with-borrow recurrence with lags 12, 5:   *)
(*        w_n = w_{n-5} - w_{n-12} - c_{n-1}  (mod 2^48),                  *)
(*        c_n = 1 iff the subtraction needed a borrow;                     *)
(*  - luxury level p = 397: of every 397 successive words the last 12 are  *)
(*    delivered, the others are discarded; the first block of 397 is       *)
(*    generated before the first delivery: delivered word number           *)
(*    12 j + i (i < 12) is w_{397 (j + 1) + i};                            *)
(*  - seeding: seed 0 is replaced by 1; the 31 low bits of the seed, least *)
(*    significant first, start the bit sequence b_{k+31} = b_k XOR         *)
(*    b_{k+18}; initial word k (k = 0..11) consists of the 48 COMPLEMENTED *)
(*    bits b_{48k} .. b_{48k+47}, most significant first; no borrow;       *)
(*  - the value delivered for word w is w / 2^48, a double in [0,1).       *)
(*                                                                         *)
(* TLC integers are 32 bit: a word is a pair <<hi, lo>> of 24-bit limbs.   *)
(* The ring holds the last 12 words, oldest first.                         *)
(***************************************************************************)
EXTENDS Integers, Sequences, TLC

B24 == 16777216                      \* 2^24
Lux == 397

\* ---- seeding ----
SeedOf(s) == IF s = 0 THEN 1 ELSE s
Bit(s, k) == (s \div (2 ^ k)) % 2
Xor(a, b) == (a + b) % 2

RECURSIVE BitStream(_, _)
\* extend the bit sequence bs (1-based: bs[k+1] = b_k) to n bits
BitStream(bs, n) ==
    IF Len(bs) >= n THEN bs
    ELSE BitStream(Append(bs, Xor(bs[Len(bs) - 30], bs[Len(bs) - 12])), n)

InitBits(s) == [k \in 1 .. 31 |-> Bit(SeedOf(s), k - 1)]

RECURSIVE Limb(_, _, _, _)
\* value of the 24 complemented bits bs[from + 1 .. from + 24], MSB first
Limb(bs, from, m, acc) ==
    IF m = 24 THEN acc ELSE Limb(bs, from, m + 1, 2 * acc + (1 - bs[from + m + 1]))

SeedRing(s) ==
    LET bs == BitStream(InitBits(s), 12 * 48)
    IN [k \in 1 .. 12 |-> <<Limb(bs, 48 * (k - 1), 0, 0), Limb(bs, 48 * (k - 1) + 24, 0, 0)>>]

\* ---- the recurrence ----
\* a - b - c on 48-bit words; result <<word, borrow>>
SubB(a, b, c) ==
    LET lo0 == a[2] - b[2] - c
        bl == IF lo0 < 0 THEN 1 ELSE 0
        lo == lo0 + bl * B24
        hi0 == a[1] - b[1] - bl
        bh == IF hi0 < 0 THEN 1 ELSE 0
        hi == hi0 + bh * B24
    IN <<(<<hi, lo>>), bh>>

\* one step: ring = <<w_{n-12}, ..., w_{n-1}>>  ->  <<w_{n-11}, ..., w_n>>
StepRing(ring, c) ==
    LET r == SubB(ring[8], ring[1], c)       \* w_{n-5} is ring[8], w_{n-12} is ring[1]
    IN <<Append(Tail(ring), r[1]), r[2]>>

RECURSIVE Steps(_, _, _)
Steps(ring, c, n) == IF n = 0 THEN <<ring, c>>
                     ELSE LET s == StepRing(ring, c) IN Steps(s[1], s[2], n - 1)

\* ---- the generator as a state machine ----
VARIABLES ring, carry, pos, out, saved
\* pos = how many words of the current block have been delivered (12: block
\* used up, the next draw generates the next 397 words first)
gvars == <<ring, carry, pos, out, saved>>

Seed(s) == /\ ring' = SeedRing(s) /\ carry' = 0 /\ pos' = 12 /\ out' = <<-1, -1>>
           /\ UNCHANGED saved

Draw == LET fresh == IF pos = 12 THEN Steps(ring, carry, Lux) ELSE <<ring, carry>>
            p == IF pos = 12 THEN 0 ELSE pos
        IN /\ ring' = fresh[1] /\ carry' = fresh[2]
           /\ out' = fresh[1][p + 1]
           /\ pos' = p + 1
           /\ UNCHANGED saved

Save == saved' = <<ring, carry, pos>> /\ UNCHANGED <<ring, carry, pos, out>>
Restore == /\ saved # <<>>
           /\ ring' = saved[1] /\ carry' = saved[2] /\ pos' = saved[3]
           /\ UNCHANGED <<out, saved>>

\* ---- sequences as constant expressions (binding R) ----
RECURSIVE DrawN(_, _, _, _, _)
DrawN(rg, c, p, n, acc) ==
    IF n = 0 THEN acc
    ELSE LET fresh == IF p = 12 THEN Steps(rg, c, Lux) ELSE <<rg, c>>
             q == IF p = 12 THEN 0 ELSE p
         IN DrawN(fresh[1], fresh[2], q + 1, n - 1, Append(acc, fresh[1][q + 1]))
\* the first n delivered words for seed s
Sequence(s, n) == DrawN(SeedRing(s), 0, 12, n, <<>>)

\* ---- properties ----
WordOK(w) == w[1] \in 0 .. (B24 - 1) /\ w[2] \in 0 .. (B24 - 1)
\* every delivered value lies in [0,1)
InUnitInterval == out = <<-1, -1>> \/ WordOK(out)
RingOK == \A k \in 1 .. 12 : WordOK(ring[k])
CarryOK == carry \in {0, 1}
\* the word 0 would give an optical depth of -log(0): recorded, not required
\* ("never zero" is a probabilistic statement for a 48-bit word)
NonZero == out # <<0, 0>>
=============================================================================
