---------------------------- MODULE MC_PhotonQuota ----------------------------
(* Evaluates the static part of PhotonQuota on the cases of scripts/props/c01.py and checks the ledgers of concurrent   *)
(* drains of real DistributedPhotonSource objects:                                                                     *)
(*   {"N":n,"ws":[..],"cs":[..],"tot":[..],"max":b,"batches":[[..],..]}   (batches per entry, in completion order)      *)
EXTENDS PhotonQuota, Json, IOUtils
Cases == IF "CASES" \in DOMAIN IOEnv THEN JsonDeserialize(IOEnv.CASES) ELSE <<>>
LedgerOK(c) == \A e \in 1 .. Len(c.tot) :
                  /\ SumSeq(c.batches[e], 1) = c.tot[e]
                  /\ \A k \in 1 .. Len(c.batches[e]) : c.batches[e][k] >= 0 /\ c.batches[e][k] <= c.max
                  /\ Cardinality({k \in 1 .. Len(c.batches[e]) : c.batches[e][k] > 0 /\ c.batches[e][k] < c.max}) <= 1
Verdict(c) == [totals |-> ValidTotals(c.tot, c.N, c.ws, c.cs), ledger |-> LedgerOK(c)]
ASSUME PrintT(<<"QUOTA", ToJson([i \in 1 .. Len(Cases) |-> Verdict(Cases[i])])>>)
MC_Totals == <<3, 2>>
=============================================================================
