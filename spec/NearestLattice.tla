---------------------------- MODULE NearestLattice ----------------------------
(***************************************************************************)
(* C16, Layer A for the search structures (Octree, PointLocations): point  *)
(* sets on an integer lattice inside a cubic box of S lattice units,       *)
(* queries and radii on the HALF lattice.  All distances are compared as   *)
(* integers (squared, in half units), so the answer is the brute-force     *)
(* answer with exact ties:                                                 *)
(*   Ngbs    the points whose smoothing sphere contains the query point    *)
(*   Sphere  the points whose smoothing sphere overlaps the query sphere   *)
(*   Closest the SET of points at minimal distance (any of them is a       *)
(*           correct answer of a closest-neighbour search)                 *)
(* With periodic = TRUE distances are minimum-image distances.             *)
(* pos[i] = <<x, y, z>> lattice units, h2[i] smoothing length in half      *)
(* units, q = <<x2, y2, z2>> and r2 in half units.                         *)
(***************************************************************************)
EXTENDS Integers, Sequences, FiniteSets

Abs(x) == IF x < 0 THEN -x ELSE x
\* separation along one axis in half units
Delta(a2, b2, S2, per) == LET d == Abs(a2 - b2) IN IF per /\ S2 - d < d THEN S2 - d ELSE d
Sq(x) == x * x
Dist2(p, q, S, per) == Sq(Delta(2 * p[1], q[1], 2 * S, per)) + Sq(Delta(2 * p[2], q[2], 2 * S, per))
                       + Sq(Delta(2 * p[3], q[3], 2 * S, per))
Idx(pos) == 1 .. Len(pos)
Ngbs(pos, h2, q, S, per) == {i \in Idx(pos) : Dist2(pos[i], q, S, per) <= Sq(h2[i])}
NgbsStrict(pos, h2, q, S, per) == {i \in Idx(pos) : Dist2(pos[i], q, S, per) < Sq(h2[i])}
Sphere(pos, h2, q, r2, S, per) == {i \in Idx(pos) : Dist2(pos[i], q, S, per) <= Sq(h2[i] + r2)}
SphereStrict(pos, h2, q, r2, S, per) == {i \in Idx(pos) : Dist2(pos[i], q, S, per) < Sq(h2[i] + r2)}
\* the set of points at minimal distance, in one pass (equal to
\* {i : \A j : Dist2(pos[i]) <= Dist2(pos[j])}, which TLC would evaluate in quadratic time)
RECURSIVE ClosestFrom(_, _, _, _, _, _, _)
ClosestFrom(pos, q, S, per, i, best, acc) ==
    IF i > Len(pos) THEN acc
    ELSE LET d == Dist2(pos[i], q, S, per)
         IN IF best < 0 \/ d < best THEN ClosestFrom(pos, q, S, per, i + 1, d, {i})
            ELSE IF d = best THEN ClosestFrom(pos, q, S, per, i + 1, best, acc \cup {i})
            ELSE ClosestFrom(pos, q, S, per, i + 1, best, acc)
Closest(pos, q, S, per) == ClosestFrom(pos, q, S, per, 1, -1, {})
ClosestDef(pos, q, S, per) == {i \in Idx(pos) : \A j \in Idx(pos) : Dist2(pos[i], q, S, per) <= Dist2(pos[j], q, S, per)}

\* ---- the expanding-shell neighbour iterator (PointLocations::ngbiterator) ----
\* rank[j] = when point j was returned (1 = first; -1 = never); stages = <<count_1, R_1, count_2, R_2, ..>>: after stage k
\* count_k points had been returned and the iterator claimed to be complete within squared radius R_k (lattice units)
D2Lat(p, q) == Sq(p[1] - q[1]) + Sq(p[2] - q[2]) + Sq(p[3] - q[3])
IterExhaustive(pos, rank, dup, count) ==
    /\ dup = 0 /\ count = Len(pos) /\ \A j \in Idx(pos) : rank[j] >= 1 /\ rank[j] <= Len(pos)
IterComplete(pos, i, rank, stages) ==
    \A k \in 1 .. (Len(stages) \div 2) :
        \A j \in Idx(pos) : D2Lat(pos[j], pos[i]) < stages[2 * k] => (rank[j] >= 1 /\ rank[j] <= stages[2 * k - 1])

\* sanity of the definitions (checked by TLC on every evaluated case)
Sane(pos, h2, q, r2, S, per) ==
    /\ Closest(pos, q, S, per) # {}
    /\ Len(pos) <= 12 => Closest(pos, q, S, per) = ClosestDef(pos, q, S, per)
    /\ Ngbs(pos, h2, q, S, per) \subseteq Sphere(pos, h2, q, r2, S, per)
    /\ Len(pos) <= 12 => \A i \in Idx(pos) : Dist2(pos[i], q, S, TRUE) <= Dist2(pos[i], q, S, FALSE)
=============================================================================
