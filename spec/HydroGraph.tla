----------------------------- MODULE HydroGraph -----------------------------
(***************************************************************************)
(* Hydro task graph of the task-based RHD simulation (C07, with the        *)
(* structural halves of C04 and C10).                                      *)
(*                                                                         *)
(* Layer A (what the numerical scheme requires, stated from the geometry,  *)
(* independently of the code's child lists, counters and locks):           *)
(*   Touches(t)     subgrids whose cells task t reads or writes            *)
(*   Precedes(u,t)  u has to be finished before t may start                *)
(*   properties AtMostOnce, DepsRespected, MutualExclusion, AllOnceAtEnd,  *)
(*   Termination, PhaseConsistent, FacesOnce                               *)
(* Layer B (what the code does):                                           *)
(*   the task table of make_hydro_tasks (18 slots per subgrid with holes,  *)
(*   lock lists sorted by subgrid index), the child lists of               *)
(*   set_dependencies (sequences - duplicates matter), the counters of     *)
(*   reset_hydro_tasks, and the worker loop: pop the top-most lockable     *)
(*   task of the own queue, else steal from another queue, run, unlock,    *)
(*   release children one by one (decrement; on zero enqueue at the        *)
(*   owner's queue and increment the task counter), decrement the task     *)
(*   counter, leave when it is zero.  Consecutive steps re-use the table.  *)
(*                                                                         *)
(* A task is <<g, slot>>; slots as in the code:                            *)
(*   0 gradient internal; 1,3,5 gradient sweep over the +x,+y,+z face      *)
(*   (neighbour or boundary); 2,4,6 gradient boundary sweep on the -x,-y,  *)
(*   -z face (only without a neighbour there); 7 slope limiter; 8 predict; *)
(*   9 flux internal; 10,12,14 / 11,13,15 flux sweeps like 1..6;           *)
(*   16 conserved update; 17 primitive update.                             *)
(***************************************************************************)
EXTENDS HydroGeom, TLC

CONSTANTS NT,              \* number of threads
          NSteps           \* consecutive hydro steps (the table is re-used)

Threads == 0 .. (NT - 1)

----------------------------------------------------------------------------
VARIABLES parents,   \* [Tasks -> Nat]  unfinished parent counters
          queue,     \* [Threads -> Seq(Tasks)]
          lock,      \* [Grids -> BOOLEAN]
          ntasks,    \* the atomic task counter of the step
          pc,        \* [Threads -> {"idle","run","release","done"}]
          cur,       \* [Threads -> Tasks \cup {NOTASK}]
          ci,        \* child index during release
          step,      \* current step number
          started, finished,  \* [Tasks -> Nat] ghost counters (this step)
          grad, flux,         \* [Grids -> SUBSET Faces] faces whose sweep contribution arrived (ghost)
          phase               \* [Grids -> 0..5] data stage of the subgrid (ghost):
                              \* 0 fresh, 1 limited, 2 predicted, 3 conserved updated, 4 primitives updated
vars == <<parents, queue, lock, ntasks, pc, cur, ci, step, started, finished, grad, flux, phase>>

Owner(g) == g % NT          \* owning thread (any fixed assignment)

RECURSIVE SeqOfSet(_)
SeqOfSet(S) == IF S = {} THEN << >>
               ELSE LET x == CHOOSE y \in S : \A z \in S : TaskId(y) <= TaskId(z)
                    IN <<x>> \o SeqOfSet(S \ {x})

InitQueue == [th \in Threads |-> SeqOfSet({t \in Tasks : InitParents(t) = 0 /\ Owner(t[1]) = th})]
InitNTasks == Cardinality({t \in Tasks : InitParents(t) = 0})

StartOfStep ==
  /\ parents = [t \in Tasks |-> InitParents(t)]
  /\ queue = InitQueue
  /\ ntasks = InitNTasks
  /\ pc = [th \in Threads |-> "idle"]
  /\ cur = [th \in Threads |-> NOTASK]
  /\ ci = [th \in Threads |-> 0]
  /\ started = [t \in Tasks |-> 0]
  /\ finished = [t \in Tasks |-> 0]
  /\ grad = [g \in Grids |-> {}]
  /\ flux = [g \in Grids |-> {}]
  /\ phase = [g \in Grids |-> 0]

Init == StartOfStep /\ lock = [g \in Grids |-> FALSE] /\ step = 1

\* Task::lock_dependency: sequential try-lock with roll-back (contract of C08)
CanLock(t, lk) ==
  LET L == LockTab[t] IN
  IF Len(L) = 1 THEN ~lk[L[1]]
  ELSE ~lk[L[1]] /\ (L[2] # L[1]) /\ ~lk[L[2]]
DoLock(t, lk) == [g \in Grids |-> IF g \in LockSet(t) THEN TRUE ELSE lk[g]]
DoUnlock(t, lk) == [g \in Grids |-> IF g \in LockSet(t) THEN FALSE ELSE lk[g]]
RemoveAt(s, i) == SubSeq(s, 1, i - 1) \o SubSeq(s, i + 1, Len(s))

\* TaskQueue::get_task / try_get_task: the top-most lockable task of queue q
Pick(th, q) ==
  /\ pc[th] = "idle"
  /\ ntasks > 0
  /\ \E i \in 1 .. Len(queue[q]) :
        /\ CanLock(queue[q][i], lock)
        /\ \A j \in (i + 1) .. Len(queue[q]) : ~CanLock(queue[q][j], lock)
        /\ cur' = [cur EXCEPT ![th] = queue[q][i]]
        /\ lock' = DoLock(queue[q][i], lock)
        /\ queue' = [queue EXCEPT ![q] = RemoveAt(queue[q], i)]
        /\ started' = [started EXCEPT ![queue[q][i]] = @ + 1]
  /\ pc' = [pc EXCEPT ![th] = "run"]
  /\ UNCHANGED <<parents, ntasks, ci, step, finished, grad, flux, phase>>

GetOwn(th) == Pick(th, th)
Steal(th) == \E q \in Threads \ {th} : Pick(th, q)

\* effect of the task on the data of the subgrids (ghost)
ApplyTask(t) ==
  LET g == t[1] s == t[2] IN
  /\ grad' = IF s \in 1..6
             THEN [h \in Grids |-> grad[h] \cup GradServed[t][h]]
             ELSE grad
  /\ flux' = IF s \in 10..15
             THEN [h \in Grids |-> flux[h] \cup FluxServed[t][h]]
             ELSE flux
  /\ phase' = CASE s = 7 -> [phase EXCEPT ![g] = 1]
                [] s = 8 -> [phase EXCEPT ![g] = 2]
                [] s = 16 -> [phase EXCEPT ![g] = 3]
                [] s = 17 -> [phase EXCEPT ![g] = 4]
                [] OTHER -> phase

Finish(th) ==
  /\ pc[th] = "run"
  /\ finished' = [finished EXCEPT ![cur[th]] = @ + 1]
  /\ ApplyTask(cur[th])
  /\ lock' = DoUnlock(cur[th], lock)
  /\ pc' = [pc EXCEPT ![th] = "release"]
  /\ ci' = [ci EXCEPT ![th] = 1]
  /\ UNCHANGED <<parents, queue, ntasks, cur, step, started>>

Release(th) ==
  /\ pc[th] = "release"
  /\ LET ch == Children[cur[th]] IN
     IF ci[th] <= Len(ch) THEN
        LET c == ch[ci[th]] IN
        /\ parents' = [parents EXCEPT ![c] = @ - 1]
        /\ IF parents[c] = 1
             THEN /\ queue' = [queue EXCEPT ![Owner(c[1])] = Append(@, c)]
                  /\ ntasks' = ntasks + 1
             ELSE UNCHANGED <<queue, ntasks>>
        /\ ci' = [ci EXCEPT ![th] = @ + 1]
        /\ UNCHANGED <<pc, cur>>
     ELSE
        /\ ntasks' = ntasks - 1
        /\ pc' = [pc EXCEPT ![th] = "idle"]
        /\ cur' = [cur EXCEPT ![th] = NOTASK]
        /\ UNCHANGED <<parents, queue, ci>>
  /\ UNCHANGED <<lock, step, started, finished, grad, flux, phase>>

Exit(th) == /\ pc[th] = "idle" /\ ntasks = 0
            /\ pc' = [pc EXCEPT ![th] = "done"]
            /\ UNCHANGED <<parents, queue, lock, ntasks, cur, ci, step, started, finished, grad, flux, phase>>

Terminated == \A th \in Threads : pc[th] = "done"

\* the serial code between two steps: reset_hydro_tasks, refill the queues
NextStep ==
  /\ Terminated /\ step < NSteps
  /\ step' = step + 1
  /\ parents' = [t \in Tasks |-> InitParents(t)]
  /\ queue' = InitQueue
  /\ ntasks' = InitNTasks
  /\ pc' = [th \in Threads |-> "idle"]
  /\ cur' = [th \in Threads |-> NOTASK]
  /\ ci' = [th \in Threads |-> 0]
  /\ started' = [t \in Tasks |-> 0]
  /\ finished' = [t \in Tasks |-> 0]
  /\ grad' = [g \in Grids |-> {}]
  /\ flux' = [g \in Grids |-> {}]
  /\ phase' = [g \in Grids |-> 0]
  /\ UNCHANGED lock

ThreadStep(th) == GetOwn(th) \/ Steal(th) \/ Finish(th) \/ Release(th) \/ Exit(th)
Next == (\E th \in Threads : ThreadStep(th)) \/ NextStep
Spec == Init /\ [][Next]_vars
FairSpec == Spec /\ (\A th \in Threads : WF_vars(ThreadStep(th))) /\ WF_vars(NextStep)

----------------------------------------------------------------------------
\* C07
AtMostOnce == \A t \in Tasks : started[t] <= 1 /\ finished[t] <= started[t]
Running == { cur[th] : th \in {x \in Threads : pc[x] = "run"} }
MutualExclusion == \A a, b \in Running : a # b => TouchTab[a] \cap TouchTab[b] = {}
NoSelfOverlap == \A x, y \in Threads : (x # y /\ pc[x] = "run" /\ pc[y] = "run") => cur[x] # cur[y]
DepsRespected == \A t \in Tasks : started[t] > 0 => \A u \in PrecSet[t] : finished[u] > 0
AllOnceAtEnd == Terminated => \A t \in Tasks : started[t] = 1 /\ finished[t] = 1
CleanAtEnd == Terminated => /\ \A g \in Grids : ~lock[g]
                            /\ \A th \in Threads : queue[th] = << >>
                            /\ \A t \in Tasks : parents[t] = 0
AllSteps == <>(Terminated /\ step = NSteps)

\* C10 (structure): every task reads its input at the stage the sequential
\* scheme would: gradient sweeps see un-predicted primitives with the limiter
\* not yet applied, the limiter sees all six face contributions, flux sweeps see
\* predicted states on every subgrid they touch, the conserved update sees all
\* six flux contributions, the primitive update follows it.
ReadOK(t) ==
  LET g == t[1] s == t[2] IN
  CASE s \in 0..6 -> \A h \in TouchTab[t] : phase[h] = 0
    [] s = 7 -> phase[g] = 0 /\ grad[g] = Faces /\ finished[<<g,0>>] = 1
    [] s = 8 -> phase[g] = 1
    [] s \in 9..15 -> \A h \in TouchTab[t] : phase[h] = 2
    [] s = 16 -> phase[g] = 2 /\ flux[g] = Faces /\ finished[<<g,9>>] = 1
    [] s = 17 -> phase[g] = 3
PhaseConsistent == \A t \in Running : ReadOK(t)

\* C04 (structure): at the end of a step every face of every subgrid received
\* exactly one gradient and one flux contribution (each sweep task serves the
\* faces FaceTask maps to it and runs exactly once), so the face fluxes cancel
\* pairwise inside the grid and across periodic boundaries
FacesOnce == Terminated => \A g \in Grids : grad[g] = Faces /\ flux[g] = Faces

=============================================================================
