---- MODULE RestartRotation_TTrace_1790546162 ----
EXTENDS Sequences, TLCExt, Toolbox, RestartRotation, Naturals, TLC

_expression ==
    LET RestartRotation_TEExpression == INSTANCE RestartRotation_TEExpression
    IN RestartRotation_TEExpression!expression
----

_trace ==
    LET RestartRotation_TETrace == INSTANCE RestartRotation_TETrace
    IN RestartRotation_TETrace!trace
----

_inv ==
    ~(
        TLCGet("level") = Len(_TETrace)
        /\
        ver = (1)
        /\
        pc = ("aborted")
        /\
        nb = (0)
        /\
        nr = (0)
        /\
        prevGood = (0)
        /\
        nproc = (0)
        /\
        i = (2)
        /\
        fs = ((-1 :> [ver |-> 0, complete |-> FALSE] @@ 0 :> [ver |-> 0, complete |-> FALSE] @@ 1 :> [ver |-> 0, complete |-> FALSE] @@ 2 :> [ver |-> 0, complete |-> FALSE] @@ 3 :> [ver |-> 0, complete |-> FALSE]))
        /\
        ndone = (0)
    )
----

_init ==
    /\ fs = _TETrace[1].fs
    /\ nb = _TETrace[1].nb
    /\ nr = _TETrace[1].nr
    /\ i = _TETrace[1].i
    /\ pc = _TETrace[1].pc
    /\ ver = _TETrace[1].ver
    /\ prevGood = _TETrace[1].prevGood
    /\ nproc = _TETrace[1].nproc
    /\ ndone = _TETrace[1].ndone
----

_next ==
    /\ \E i,j \in DOMAIN _TETrace:
        /\ \/ /\ j = i + 1
              /\ i = TLCGet("level")
        /\ fs  = _TETrace[i].fs
        /\ fs' = _TETrace[j].fs
        /\ nb  = _TETrace[i].nb
        /\ nb' = _TETrace[j].nb
        /\ nr  = _TETrace[i].nr
        /\ nr' = _TETrace[j].nr
        /\ i  = _TETrace[i].i
        /\ i' = _TETrace[j].i
        /\ pc  = _TETrace[i].pc
        /\ pc' = _TETrace[j].pc
        /\ ver  = _TETrace[i].ver
        /\ ver' = _TETrace[j].ver
        /\ prevGood  = _TETrace[i].prevGood
        /\ prevGood' = _TETrace[j].prevGood
        /\ nproc  = _TETrace[i].nproc
        /\ nproc' = _TETrace[j].nproc
        /\ ndone  = _TETrace[i].ndone
        /\ ndone' = _TETrace[j].ndone

\* Uncomment the ASSUME below to write the states of the error trace
\* to the given file in Json format. Note that you can pass any tuple
\* to `JsonSerialize`. For example, a sub-sequence of _TETrace.
    \* ASSUME
    \*     LET J == INSTANCE Json
    \*         IN J!JsonSerialize("RestartRotation_TTrace_1790546162.json", _TETrace)

=============================================================================

 Note that you can extract this module `RestartRotation_TEExpression`
  to a dedicated file to reuse `expression` (the module in the 
  dedicated `RestartRotation_TEExpression.tla` file takes precedence 
  over the module `RestartRotation_TEExpression` below).

---- MODULE RestartRotation_TEExpression ----
EXTENDS Sequences, TLCExt, Toolbox, RestartRotation, Naturals, TLC

expression == 
    [
        \* To hide variables of the `RestartRotation` spec from the error trace,
        \* remove the variables below.  The trace will be written in the order
        \* of the fields of this record.
        fs |-> fs
        ,nb |-> nb
        ,nr |-> nr
        ,i |-> i
        ,pc |-> pc
        ,ver |-> ver
        ,prevGood |-> prevGood
        ,nproc |-> nproc
        ,ndone |-> ndone
        
        \* Put additional constant-, state-, and action-level expressions here:
        \* ,_stateNumber |-> _TEPosition
        \* ,_fsUnchanged |-> fs = fs'
        
        \* Format the `fs` variable as Json value.
        \* ,_fsJson |->
        \*     LET J == INSTANCE Json
        \*     IN J!ToJson(fs)
        
        \* Lastly, you may build expressions over arbitrary sets of states by
        \* leveraging the _TETrace operator.  For example, this is how to
        \* count the number of times a spec variable changed up to the current
        \* state in the trace.
        \* ,_fsModCount |->
        \*     LET F[s \in DOMAIN _TETrace] ==
        \*         IF s = 1 THEN 0
        \*         ELSE IF _TETrace[s].fs # _TETrace[s-1].fs
        \*             THEN 1 + F[s-1] ELSE F[s-1]
        \*     IN F[_TEPosition - 1]
    ]

=============================================================================



Parsing and semantic processing can take forever if the trace below is long.
 In this case, it is advised to uncomment the module below to deserialize the
 trace from a generated binary file.

\*
\*---- MODULE RestartRotation_TETrace ----
\*EXTENDS IOUtils, RestartRotation, TLC
\*
\*trace == IODeserialize("RestartRotation_TTrace_1790546162.bin", TRUE)
\*
\*=============================================================================
\*

---- MODULE RestartRotation_TETrace ----
EXTENDS RestartRotation, TLC

trace == 
    <<
    ([ver |-> 0,pc |-> "idle",nb |-> 0,nr |-> 0,prevGood |-> 0,nproc |-> 0,i |-> 0,fs |-> (-1 :> [ver |-> 0, complete |-> FALSE] @@ 0 :> [ver |-> 0, complete |-> FALSE] @@ 1 :> [ver |-> 0, complete |-> FALSE] @@ 2 :> [ver |-> 0, complete |-> FALSE] @@ 3 :> [ver |-> 0, complete |-> FALSE]),ndone |-> 0]),
    ([ver |-> 1,pc |-> "shift",nb |-> 0,nr |-> 0,prevGood |-> 0,nproc |-> 0,i |-> 2,fs |-> (-1 :> [ver |-> 0, complete |-> FALSE] @@ 0 :> [ver |-> 0, complete |-> FALSE] @@ 1 :> [ver |-> 0, complete |-> FALSE] @@ 2 :> [ver |-> 0, complete |-> FALSE] @@ 3 :> [ver |-> 0, complete |-> FALSE]),ndone |-> 0]),
    ([ver |-> 1,pc |-> "aborted",nb |-> 0,nr |-> 0,prevGood |-> 0,nproc |-> 0,i |-> 2,fs |-> (-1 :> [ver |-> 0, complete |-> FALSE] @@ 0 :> [ver |-> 0, complete |-> FALSE] @@ 1 :> [ver |-> 0, complete |-> FALSE] @@ 2 :> [ver |-> 0, complete |-> FALSE] @@ 3 :> [ver |-> 0, complete |-> FALSE]),ndone |-> 0])
    >>
----


=============================================================================

---- CONFIG RestartRotation_TTrace_1790546162 ----
CONSTANTS
    MaxBackups = 3
    NDumps = 6
    NParts = 2
    StartRule = "orig"
    ProcRestarts = 1

INVARIANT
    _inv

CHECK_DEADLOCK
    \* CHECK_DEADLOCK off because of PROPERTY or INVARIANT above.
    FALSE

INIT
    _init

NEXT
    _next

CONSTANT
    _TETrace <- _trace

ALIAS
    _expression
=============================================================================
\* Generated on Sun Sep 27 21:56:03 UTC 2026