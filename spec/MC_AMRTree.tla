----------------------------- MODULE MC_AMRTree -----------------------------
(***************************************************************************)
(* C16: the AMR forest as a state machine - every refinement history up to *)
(* MaxDepth (bounded by MaxLeaves leaves) on NB blocks with periodicity    *)
(* Per is explored; Layer A invariants hold in every reachable tree.  The  *)
(* reachable trees are replayed into the real AMRGrid by scripts/props/    *)
(* c16.py (binding R) through Eval_AMRTree.                                *)
(***************************************************************************)
EXTENDS AMRTree
CONSTANTS NBx, NBy, NBz, Px, Py, Pz, MaxDepth, MaxLeaves
NB == <<NBx, NBy, NBz>>
Per == <<Px, Py, Pz>>
VARIABLE leaves

Init == leaves = Uniform(NB, 0)
DoRefine(n) == Level(n) < MaxDepth /\ leaves' = Refine(leaves, n)
Next == \E n \in leaves : DoRefine(n)
Spec == Init /\ [][Next]_leaves
Bound == Cardinality(leaves) <= MaxLeaves

PartitionInv == Partition(leaves, NB, MaxDepth)
UniqueCellInv == UniqueCell(leaves, NB, MaxDepth)
KeysInv == KeysInjective(leaves)
NgbMutualInv == NgbMutual(leaves, NB, Per)
\* the enumeration order is a strict total order on the leaves: each is visited exactly once
EnumOnceInv == \A a, b \in leaves : a # b => (Before(a, b, NB, MaxDepth) /\ ~Before(b, a, NB, MaxDepth))
                                             \/ (Before(b, a, NB, MaxDepth) /\ ~Before(a, b, NB, MaxDepth))
\* Locate agrees with the geometry
LocateInv == \A P \in HalfLattice(NB, MaxDepth) : Contains(Locate(leaves, P, MaxDepth), P, MaxDepth)
=============================================================================
