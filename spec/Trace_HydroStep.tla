-------------------------- MODULE Trace_HydroStep --------------------------
(***************************************************************************)
(* Binding T for C07 (Layer A): hydro steps of the real task-based RHD     *)
(* simulation.  The log starts with                                        *)
(*   {"e":"cfg","n":[nx,ny,nz],"per":[0|1,0|1,0|1],"ntab":k}              *)
(* followed by the k "h.table" records (the task table the code built:     *)
(* task index t, subgrid g, slot, type ty, partner, dir) and then, per     *)
(* step, h.begin, h.start t / h.stop t (task t runs between them, holding  *)
(* its locks), h.end.  Everything is judged against the geometry of        *)
(* HydroGeom: which tasks the scheme needs, what each has to wait for,     *)
(* and which subgrids it touches - not against the code's child lists,     *)
(* counters or locks.                                                      *)
(***************************************************************************)
EXTENDS HydroGeom, TLC, Json, IOUtils

\* NX, NY, NZ, PX, PY, PZ, SELFFIX are set in the configuration file that the
\* check generates for the layout of the log (constants of an extended module:
\* TLC evaluates the tables of HydroGeom once; through an INSTANCE with
\* substituted operators it would re-evaluate them at every use)
TraceLog == ndJsonDeserialize(IOEnv.TRACE)
Cfg == TraceLog[1]
ASSUME CfgMatchesConstants ==
    /\ <<NX, NY, NZ>> = <<Cfg.n[1], Cfg.n[2], Cfg.n[3]>>
    /\ <<PX, PY, PZ>> = <<Cfg.per[1] = 1, Cfg.per[2] = 1, Cfg.per[3] = 1>>
NTab == Cfg.ntab

TabRecs == {TraceLog[k] : k \in 2 .. (NTab + 1)}
Ids == {r.t : r \in TabRecs}

\* expected task type and direction of a slot
FaceDir(a, neg) == 21 + 2 * a + (IF neg THEN 1 ELSE 0)
TypeOf(s) ==
  LET sl == s[2] IN
  CASE sl = 0 -> 7
    [] sl \in {1, 3, 5} -> IF Partner(s) = OUTSIDE THEN 9 ELSE 8
    [] sl \in {2, 4, 6} -> 9
    [] sl = 7 -> 10 [] sl = 8 -> 11 [] sl = 9 -> 12
    [] sl \in {10, 12, 14} -> IF Partner(s) = OUTSIDE THEN 14 ELSE 13
    [] sl \in {11, 13, 15} -> 14
    [] sl = 16 -> 15 [] sl = 17 -> 16
DirOf(s) ==
  LET sl == s[2] IN
  IF sl \in PosSlots THEN FaceDir(AxisOfSlot(sl), FALSE)
  ELSE IF sl \in NegSlots THEN FaceDir(AxisOfSlot(sl), TRUE) ELSE -1

\* the table describes exactly the tasks the scheme needs for this layout
TableOK ==
  /\ Cardinality(TabRecs) = NTab /\ Cardinality(Ids) = NTab
  /\ {<<r.g, r.slot>> : r \in TabRecs} = Tasks
  /\ Cardinality(Tasks) = NTab
  /\ \A r \in TabRecs :
        LET s == <<r.g, r.slot>> IN
        /\ r.ty = TypeOf(s)
        /\ r.partner = Partner(s)
        /\ r.dir = DirOf(s)

VARIABLES l, started, finished, running, stepno, bad,
          foot,    \* task index -> subgrids the task really works on (own + partner); constant
          needs    \* task index -> task indices that have to be finished first;      constant
\* (foot and needs are computed once in Init: TLC does not cache constant
\* operators that are reached through an INSTANCE with substitutions)

vars == <<l, started, finished, running, stepno, bad, foot, needs>>
Rec == TraceLog[l]
IsEvent(e) == l <= Len(TraceLog) /\ Rec.e = e /\ l' = l + 1

Init == /\ l = NTab + 2
        /\ started = [t \in Ids |-> 0] /\ finished = [t \in Ids |-> 0]
        /\ running = {} /\ stepno = 0
        /\ bad = IF TableOK THEN {} ELSE {"table"}
        /\ LET Recs == TabRecs
               RecOf == [t \in Ids |-> CHOOSE r \in Recs : r.t = t]
               TS == Tasks
               PS == PrecSet
               IdOf == [s \in TS |-> IF \E r \in Recs : <<r.g, r.slot>> = s
                                       THEN (CHOOSE r \in Recs : <<r.g, r.slot>> = s).t ELSE -1]
           IN /\ foot = [t \in Ids |-> {RecOf[t].g} \cup
                            (IF RecOf[t].partner >= 0 THEN {RecOf[t].partner} ELSE {})]
              /\ needs = [t \in Ids |-> IF <<RecOf[t].g, RecOf[t].slot>> \in TS
                                          THEN {IdOf[u] : u \in PS[<<RecOf[t].g, RecOf[t].slot>>]}
                                          ELSE {}]

TBegin == /\ IsEvent("h.begin")
          /\ started' = [t \in Ids |-> 0] /\ finished' = [t \in Ids |-> 0]
          /\ running' = {} /\ stepno' = Rec.step
          /\ bad' = bad \cup (IF running # {} THEN {"end"} ELSE {})
          /\ UNCHANGED <<foot, needs>>

TStart == /\ IsEvent("h.start")
          /\ LET t == Rec.t IN
             /\ started' = [started EXCEPT ![t] = @ + 1]
             /\ running' = running \cup {t}
             /\ bad' = bad
                  \cup (IF started[t] > 0 THEN {"once"} ELSE {})
                  \cup (IF \E u \in needs[t] : u = -1 \/ finished[u] = 0 THEN {"deps"} ELSE {})
                  \cup (IF \E r \in running : r # t /\ foot[r] \cap foot[t] # {} THEN {"mutex"} ELSE {})
          /\ UNCHANGED <<finished, stepno, foot, needs>>

TStop == /\ IsEvent("h.stop")
         /\ LET t == Rec.t IN
            /\ finished' = [finished EXCEPT ![t] = @ + 1]
            /\ running' = running \ {t}
            /\ bad' = bad \cup (IF t \notin running THEN {"once"} ELSE {})
         /\ UNCHANGED <<started, stepno, foot, needs>>

TEnd == /\ IsEvent("h.end")
        /\ bad' = bad \cup (IF \A t \in Ids : started[t] = 1 /\ finished[t] = 1 THEN {} ELSE {"all"})
                      \cup (IF running = {} /\ Rec.left = 0 THEN {} ELSE {"end"})
        /\ UNCHANGED <<started, finished, running, stepno, foot, needs>>

\* a new run of the same configuration (same table)
TReset == /\ IsEvent("reset")
          /\ started' = [t \in Ids |-> 0] /\ finished' = [t \in Ids |-> 0]
          /\ running' = {} /\ stepno' = 0
          /\ UNCHANGED <<bad, foot, needs>>

Next == TBegin \/ TStart \/ TStop \/ TEnd \/ TReset
Spec == Init /\ [][Next]_vars

NotAccepted == l <= Len(TraceLog)
ASSUME TLCSet(1, 0)
TrackL == TLCSet(1, IF l > TLCGet(1) THEN l ELSE TLCGet(1))
PrintMaxL == PrintT(<<"MAXL", TLCGet(1)>>)

\* ---- Layer A ----
TableMatchesGeometry == "table" \notin bad
ExactlyOnce == "once" \notin bad
DepsRespected == "deps" \notin bad
MutualExclusion == "mutex" \notin bad
AllOnceAtEnd == "all" \notin bad
StepEndsClean == "end" \notin bad
=============================================================================
