---------------------------- MODULE MC_OrientExact ----------------------------
(***************************************************************************)
(* Evaluates OrientExact on the cases of a JSON file (environment variable *)
(* CASES): every case is {"t":"o"|"i","p":[[kx,ky,kz,qx,qy,qz],...]} with  *)
(* 4 (orient3d) or 5 (insphere) points; prints the exact signs and the     *)
(* coefficient polynomials (binding R: the real predicates must return     *)
(* these signs).  Also checks the permutation laws on the same cases.      *)
(***************************************************************************)
EXTENDS OrientExact, Json, IOUtils, TLC

Cases == JsonDeserialize(IOEnv.CASES)
Pt(v) == [k |-> <<v[1], v[2], v[3]>>, q |-> <<v[4], v[5], v[6]>>]
Poly(cs) == IF cs.t = "o" THEN OrientPoly(Pt(cs.p[1]), Pt(cs.p[2]), Pt(cs.p[3]), Pt(cs.p[4]))
            ELSE InSpherePoly(Pt(cs.p[1]), Pt(cs.p[2]), Pt(cs.p[3]), Pt(cs.p[4]), Pt(cs.p[5]))
Polys == [i \in 1 .. Len(Cases) |-> Poly(Cases[i])]
Perturbed(cs) == \E i \in 1 .. Len(cs.p) : cs.p[i][4] # 0 \/ cs.p[i][5] # 0 \/ cs.p[i][6] # 0
FullDeg(cs) == IF cs.t = "o" THEN 3 ELSE 5
\* 2 = undecided at this order
Verdict(i) == IF SignOf(Polys[i]) = 0 /\ Perturbed(Cases[i]) /\ Deg < FullDeg(Cases[i]) THEN 2 ELSE SignOf(Polys[i])
ASSUME PrintT(<<"SIGNS", ToJson([i \in 1 .. Len(Cases) |-> [s |-> Verdict(i), c |-> Polys[i]]])>>)

\* swapping the first two points flips the sign, a cyclic shift of the first
\* three points (an even permutation) keeps it
Swap(cs) == IF cs.t = "o" THEN Orient3d(Pt(cs.p[2]), Pt(cs.p[1]), Pt(cs.p[3]), Pt(cs.p[4]))
            ELSE InSphere(Pt(cs.p[2]), Pt(cs.p[1]), Pt(cs.p[3]), Pt(cs.p[4]), Pt(cs.p[5]))
Cycle(cs) == IF cs.t = "o" THEN Orient3d(Pt(cs.p[2]), Pt(cs.p[3]), Pt(cs.p[1]), Pt(cs.p[4]))
             ELSE InSphere(Pt(cs.p[2]), Pt(cs.p[3]), Pt(cs.p[1]), Pt(cs.p[4]), Pt(cs.p[5]))
ASSUME PermutationLaws ==
    \A i \in 1 .. Len(Cases) : Swap(Cases[i]) = -SignOf(Polys[i]) /\ Cycle(Cases[i]) = SignOf(Polys[i])

VARIABLE x
Init == x = 0
Next == UNCHANGED x
Spec == Init /\ [][Next]_x
=============================================================================
