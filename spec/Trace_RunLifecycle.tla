--------------------------- MODULE Trace_RunLifecycle ---------------------------
(***************************************************************************)
(* C12 (restricted claim), Layer A "RunLifecycle": a complete run goes     *)
(* through start -> work -> end with status 0, every output the mode       *)
(* promises exists afterwards, and optional component pointers obey the    *)
(* ownership protocol: null when the constructor body is entered, deleted  *)
(* non-null only after an allocation.  Records per run:                    *)
(*   {"e":"run","expect":n}         a run whose mode promises n outputs    *)
(*   {"e":"run.start"} | {"e":"work"} (an iteration or a step was done)    *)
(*   {"e":"own.enter","members":[0|1..]} {"e":"own.alloc","members":[..]}  *)
(*   {"e":"own.delete","members":[..]}  | {"e":"run.end","rc":r}           *)
(*   {"e":"exit","rc":r,"outputs":k}   written by the harness after the    *)
(*                                     process ended (k promised outputs   *)
(*                                     found on disk)                      *)
(***************************************************************************)
EXTENDS Integers, Sequences, TLC, Json, IOUtils

TraceLog == ndJsonDeserialize(IOEnv.TRACE)
VARIABLES l, phase, expect, alloc, worked, bad
vars == <<l, phase, expect, alloc, worked, bad>>
Rec == TraceLog[l]
IsEvent(e) == l <= Len(TraceLog) /\ Rec.e = e /\ l' = l + 1
Tag(c, t) == IF c THEN {} ELSE {t}
AllZero(s) == \A i \in 1 .. Len(s) : s[i] = 0

Init == l = 1 /\ phase = "none" /\ expect = 0 /\ alloc = <<>> /\ worked = FALSE /\ bad = {}

TRun == /\ IsEvent("run") /\ phase' = "new" /\ expect' = Rec.expect /\ alloc' = <<>> /\ worked' = FALSE
        /\ bad' = bad \cup Tag(phase \in {"none", "exited"}, "order")
TStart == /\ IsEvent("run.start") /\ phase' = "running"
          /\ bad' = bad \cup Tag(phase = "new", "order") /\ UNCHANGED <<expect, alloc, worked>>
TWork == /\ IsEvent("work") /\ worked' = TRUE
         /\ bad' = bad \cup Tag(phase = "running", "order") /\ UNCHANGED <<phase, expect, alloc>>
TEnter == /\ IsEvent("own.enter")
          /\ bad' = bad \cup Tag(AllZero(Rec.members), "uninit")
          /\ UNCHANGED <<phase, expect, alloc, worked>>
TAlloc == /\ IsEvent("own.alloc") /\ alloc' = Rec.members
          /\ UNCHANGED <<phase, expect, worked, bad>>
TDelete == /\ IsEvent("own.delete")
           /\ bad' = bad \cup Tag(/\ Len(alloc) = Len(Rec.members)
                                  /\ \A i \in 1 .. Len(Rec.members) : Rec.members[i] = 1 => alloc[i] = 1, "dangling")
           /\ UNCHANGED <<phase, expect, alloc, worked>>
TEndRun == /\ IsEvent("run.end") /\ phase' = "ended"
           /\ bad' = bad \cup Tag(phase = "running" /\ Rec.rc = 0, "status")
           /\ UNCHANGED <<expect, alloc, worked>>
TExit == /\ IsEvent("exit") /\ phase' = "exited"
         /\ bad' = bad \cup Tag(phase = "ended" /\ Rec.rc = 0, "status")
                       \cup Tag(Rec.outputs >= expect, "outputs")
                       \cup Tag(worked, "nowork")
         /\ UNCHANGED <<expect, alloc, worked>>
Next == TRun \/ TStart \/ TWork \/ TEnter \/ TAlloc \/ TDelete \/ TEndRun \/ TExit
Spec == Init /\ [][Next]_vars

ASSUME TLCSet(1, 0)
TrackL == TLCSet(1, IF l > TLCGet(1) THEN l ELSE TLCGet(1))
PrintMaxL == PrintT(<<"MAXL", TLCGet(1)>>)

ExitsNormally == bad \cap {"status", "order", "nowork"} = {}
OutputsWritten == "outputs" \notin bad
OwnershipProtocol == bad \cap {"uninit", "dangling"} = {}
=============================================================================
