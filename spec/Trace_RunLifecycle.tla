--------------------------- MODULE Trace_RunLifecycle ---------------------------
(***************************************************************************)
(* C12 (restricted claim), Layer A "RunLifecycle": a complete run goes     *)
(* through start -> work -> end with status 0, every output the mode       *)
(* promises exists afterwards, and optional component pointers obey the    *)
(* ownership protocol: null when the constructor body is entered, deleted  *)
(* non-null only after an allocation.  Records per run:                    *)
(*   {"e":"run","expect":n}         a run whose mode promises n outputs    *)
(*   {"e":"run.start"} | {"e":"work"} (an iteration or a step was done)    *)
(*   {"e":"own.enter","members":[0|1..]} {"e":"own.alloc","members":[..]}  *)
(*   {"e":"own.delete","members":[..]}  | {"e":"run.end","rc":r}           *)
(*   {"e":"exit","rc":r,"outputs":k,"snaps":[..],"backs":[..],"dump":0|1}  *)
(*       written by the harness after the process ended (k promised        *)
(*       outputs found on disk; indices of the snapshot files and of the   *)
(*       restart backups found on disk; whether restart.dump exists)       *)
(* Snapshot schedule (task-based RHD; "run" carries snapmodel = 1, the     *)
(* "first snapshot" parameter and whether the directory is fresh):         *)
(*   {"e":"snap.dec","last":i,"due":0|1,"next":0|1}  the decision at the   *)
(*       end of a step: snapshot i is due / there is a next step;          *)
(*   {"e":"snap.fin","last":i,"stop":0|1}            after the time loop.  *)
(* Snapshot 0 is written by a fresh run iff first = 0; a due snapshot i is *)
(* written inside the loop iff there is a next step and first <= i, and    *)
(* the index then advances; THE FINAL SNAPSHOT IS ALWAYS WRITTEN unless    *)
(* the run was stopped on request.  The files on disk must be exactly      *)
(* those.  Restart dumps ("run" carries dumpmodel = 1 and maxb): after d   *)
(* dumps by one process in a fresh directory restart.dump exists together  *)
(* with exactly the backups 0 .. min(maxb, d - 1) - 1.                     *)
(***************************************************************************)
EXTENDS Integers, Sequences, TLC, Json, IOUtils

TraceLog == ndJsonDeserialize(IOEnv.TRACE)
VARIABLES l, phase, expect, alloc, worked, bad, run, snapsExp, snapIdx, ndumps, loop
vars == <<l, phase, expect, alloc, worked, bad, run, snapsExp, snapIdx, ndumps, loop>>
Rec == TraceLog[l]
IsEvent(e) == l <= Len(TraceLog) /\ Rec.e = e /\ l' = l + 1
Tag(c, t) == IF c THEN {} ELSE {t}
AllZero(s) == \A i \in 1 .. Len(s) : s[i] = 0

Min(a, b) == IF a < b THEN a ELSE b
ToSet(q) == {q[i] : i \in 1 .. Len(q)}
NoLoop == [at |-> "none", step |-> 0]
NoRun == [snapmodel |-> 0, dumpmodel |-> 0, first |-> 0, fresh |-> 1, maxb |-> 1]
Init == /\ l = 1 /\ phase = "none" /\ expect = 0 /\ alloc = <<>> /\ worked = FALSE /\ bad = {}
        /\ run = NoRun /\ snapsExp = {} /\ snapIdx = 1 /\ ndumps = 0 /\ loop = NoLoop

Get(r, f, d) == IF f \in DOMAIN r THEN r[f] ELSE d

\* ---- Layer B: the outer loop of the task-based RHD simulation (do_simulation) ----
\*   run.init k                       the time loop starts after step k (0, or the step of the dump restarted from)
\*   ( h.begin k+1  h.end k+1  snap.dec  [ dump.begin  fs.open  dump.end k+1 ] )*   one iteration per step
\*   snap.fin                         after the loop
\* LoopStep gives the next loop state and whether the event was allowed there; a mismatch means this description
\* of the loop is out of date (reported as MODEL-DRIFT, it is not a clause of C12).
LoopStep(lp, ev, st) ==
    CASE ev = "run.init" -> <<[at |-> "top", step |-> st], lp.at = "none">>
      [] ev = "h.begin" -> <<[at |-> "hydro", step |-> st], lp.at \in {"top", "decided"} /\ st = lp.step + 1>>
      [] ev = "h.end" -> <<[lp EXCEPT !.at = "stepped"], lp.at = "hydro" /\ st = lp.step>>
      [] ev = "snap.dec" -> <<[lp EXCEPT !.at = "decided"], lp.at = "stepped">>
      [] ev = "dump.begin" -> <<[lp EXCEPT !.at = "dump0"], lp.at = "decided">>
      [] ev = "fs.open" -> <<[lp EXCEPT !.at = "dump1"], lp.at = "dump0">>
      [] ev = "dump.end" -> <<[lp EXCEPT !.at = "top"], lp.at = "dump1" /\ st = lp.step>>
      [] ev = "snap.fin" -> <<[lp EXCEPT !.at = "fin"], lp.at \in {"top", "decided"}>>
      [] ev = "run.end" -> <<NoLoop, lp.at \in {"none", "fin"}>>
Loop(ev, st) == /\ loop' = LoopStep(loop, ev, st)[1]
LoopTag(ev, st) == Tag(LoopStep(loop, ev, st)[2], "loop")
TRun == /\ IsEvent("run") /\ phase' = "new" /\ expect' = Rec.expect /\ alloc' = <<>> /\ worked' = FALSE
        /\ bad' = bad \cup Tag(phase \in {"none", "exited"}, "order")
        /\ run' = [snapmodel |-> Get(Rec, "snapmodel", 0), dumpmodel |-> Get(Rec, "dumpmodel", 0),
                   first |-> Get(Rec, "first", 0), fresh |-> Get(Rec, "fresh", 1), maxb |-> Get(Rec, "maxb", 1)]
        /\ IF Get(Rec, "fresh", 1) = 1
           THEN /\ snapsExp' = IF Get(Rec, "snapmodel", 0) = 1 /\ Get(Rec, "first", 0) = 0 THEN {0} ELSE {}
                /\ snapIdx' = 1
           ELSE UNCHANGED <<snapsExp, snapIdx>>        \* a restarted run continues the schedule
        /\ ndumps' = 0 /\ loop' = NoLoop
\* the decision at the end of a step
TSnapDec == /\ IsEvent("snap.dec")
            /\ LET write == Rec.due = 1 /\ Rec.next = 1
               IN /\ snapsExp' = IF write /\ run.first <= snapIdx THEN snapsExp \cup {snapIdx} ELSE snapsExp
                  /\ snapIdx' = IF write THEN snapIdx + 1 ELSE snapIdx
            /\ bad' = bad \cup Tag(Rec.last = snapIdx, "snapindex") \cup LoopTag("snap.dec", 0)
            /\ Loop("snap.dec", 0)
            /\ UNCHANGED <<phase, expect, alloc, worked, run, ndumps>>
TSnapFin == /\ IsEvent("snap.fin")
            /\ snapsExp' = IF Rec.stop = 0 THEN snapsExp \cup {snapIdx} ELSE snapsExp
            /\ bad' = bad \cup Tag(Rec.last = snapIdx, "snapindex") \cup LoopTag("snap.fin", 0)
            /\ Loop("snap.fin", 0)
            /\ UNCHANGED <<phase, expect, alloc, worked, run, snapIdx, ndumps>>
TDump == /\ IsEvent("fs.open") /\ ndumps' = ndumps + 1
         /\ bad' = bad \cup LoopTag("fs.open", 0) /\ Loop("fs.open", 0)
         /\ UNCHANGED <<phase, expect, alloc, worked, run, snapsExp, snapIdx>>
\* loop events that carry nothing but their place in the loop
TLoop == /\ l <= Len(TraceLog) /\ Rec.e \in {"run.init", "h.begin", "h.end", "dump.begin", "dump.end"} /\ l' = l + 1
         /\ bad' = bad \cup LoopTag(Rec.e, Get(Rec, "step", 0)) /\ Loop(Rec.e, Get(Rec, "step", 0))
         /\ UNCHANGED <<phase, expect, alloc, worked, run, snapsExp, snapIdx, ndumps>>
TStart == /\ IsEvent("run.start") /\ phase' = "running"
          /\ bad' = bad \cup Tag(phase = "new", "order") /\ UNCHANGED <<expect, alloc, worked, run, snapsExp, snapIdx, ndumps, loop>>
TWork == /\ IsEvent("work") /\ worked' = TRUE
         /\ bad' = bad \cup Tag(phase = "running", "order") /\ UNCHANGED <<phase, expect, alloc, run, snapsExp, snapIdx, ndumps, loop>>
TEnter == /\ IsEvent("own.enter")
          /\ bad' = bad \cup Tag(AllZero(Rec.members), "uninit")
          /\ UNCHANGED <<phase, expect, alloc, worked, run, snapsExp, snapIdx, ndumps, loop>>
TAlloc == /\ IsEvent("own.alloc") /\ alloc' = Rec.members
          /\ UNCHANGED <<phase, expect, worked, bad, run, snapsExp, snapIdx, ndumps, loop>>
TDelete == /\ IsEvent("own.delete")
           /\ bad' = bad \cup Tag(/\ Len(alloc) = Len(Rec.members)
                                  /\ \A i \in 1 .. Len(Rec.members) : Rec.members[i] = 1 => alloc[i] = 1, "dangling")
           /\ UNCHANGED <<phase, expect, alloc, worked, run, snapsExp, snapIdx, ndumps, loop>>
TEndRun == /\ IsEvent("run.end") /\ phase' = "ended"
           /\ bad' = bad \cup Tag(phase = "running" /\ Rec.rc = 0, "status") \cup LoopTag("run.end", 0)
           /\ Loop("run.end", 0)
           /\ UNCHANGED <<expect, alloc, worked, run, snapsExp, snapIdx, ndumps>>
TExit == /\ IsEvent("exit") /\ phase' = "exited"
         /\ bad' = bad \cup Tag(phase = "ended" /\ Rec.rc = 0, "status")
                       \cup Tag(Rec.outputs >= expect, "outputs")
                       \cup Tag(worked, "nowork")
                       \cup Tag(run.snapmodel = 1 /\ Rec.rc = 0 => ToSet(Rec.snaps) = snapsExp, "snapshots")
                       \cup Tag(run.dumpmodel = 1 /\ Rec.rc = 0 /\ ndumps > 0 =>
                                  /\ Rec.dump = 1
                                  /\ ToSet(Rec.backs) = 0 .. (Min(run.maxb, ndumps - 1) - 1), "dumpfiles")
         /\ UNCHANGED <<expect, alloc, worked, run, snapsExp, snapIdx, ndumps, loop>>
Next == TRun \/ TLoop \/ TSnapDec \/ TSnapFin \/ TDump \/ TStart \/ TWork \/ TEnter \/ TAlloc \/ TDelete \/ TEndRun \/ TExit
Spec == Init /\ [][Next]_vars

ASSUME TLCSet(1, 0)
TrackL == TLCSet(1, IF l > TLCGet(1) THEN l ELSE TLCGet(1))
PrintMaxL == PrintT(<<"MAXL", TLCGet(1)>>)

ExitsNormally == bad \cap {"status", "order", "nowork"} = {}
OutputsWritten == bad \cap {"outputs", "snapshots", "snapindex", "dumpfiles"} = {}
OwnershipProtocol == bad \cap {"uninit", "dangling"} = {}
\* Layer B (MODEL-DRIFT when violated)
LoopOrder == "loop" \notin bad
=============================================================================
