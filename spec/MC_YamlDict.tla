------------------------------ MODULE MC_YamlDict ------------------------------
(***************************************************************************)
(* Evaluates YamlDict on the dictionaries of a JSON file (environment      *)
(* variable CASES: a list of dictionaries, each a list of [path, val]):    *)
(* asserts the round trip of Layer B for every one of them and prints the  *)
(* text Layer B produces (compared line by line with the real printer).    *)
(***************************************************************************)
EXTENDS YamlDict, Json, IOUtils, TLC
Cases == JsonDeserialize(IOEnv.CASES)
Entries(c) == [k \in 1 .. Len(c) |-> [path |-> c[k][1], val |-> c[k][2]]]
ASSUME LayerBRoundTrips == \A i \in 1 .. Len(Cases) : RoundTrip(Entries(Cases[i]))
ASSUME PrintT(<<"LINES", ToJson([i \in 1 .. Len(Cases) |-> PrintB(Entries(Cases[i]))])>>)
VARIABLE x
Init == x = 0
Next == UNCHANGED x
Spec == Init /\ [][Next]_x
=============================================================================
