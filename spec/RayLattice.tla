------------------------------ MODULE RayLattice ------------------------------
(***************************************************************************)
(* C02 / C03 / C16, Layer A: the exact geometry of a straight ray through  *)
(* a block of cells, on an integer lattice, without marching.              *)
(*                                                                         *)
(*  - the block has N[1] x N[2] x N[3] cells of 4 lattice units; a point   *)
(*    is a triple of integers (so interior points, points on cell faces,   *)
(*    edges and corners all occur); cell (i,j,k), indices from 0, is the   *)
(*    half-open box [4i, 4i+4) x ...                                       *)
(*  - the ray is x(T) = p + T d / 24, T >= 0, with d in {-4..4}^3 \ {0}:   *)
(*    all wall crossing times 24 (b - p_k) / d_k are integers              *)
(*  - kap[c] is the opacity of cell c per unit T, tau the target optical   *)
(*    depth in the same units (the harness converts to physical units)     *)
(*                                                                         *)
(* Result of Trace(...): the T-length deposited in every cell (cut at the  *)
(* absorption point), whether the target was reached inside the block,     *)
(* the sign triple of the face / edge / corner through which the ray       *)
(* leaves, and the end point (times 24).  With periodic wrap the same      *)
(* operators are applied to the unfolded lattice (see WrapTrace).          *)
(***************************************************************************)
EXTENDS Integers, Sequences, FiniteSets

Max2(a, b) == IF a >= b THEN a ELSE b
Min2(a, b) == IF a <= b THEN a ELSE b
INF == 1000000000
FloorDiv4(x) == IF x >= 0 THEN x \div 4 ELSE -((-x + 3) \div 4)

\* entry / exit time of the slab [lo, hi] along one axis (closed slab; the
\* half-open convention only matters for d = 0)
TIn(lo, hi, p, d) == IF d > 0 THEN (24 * (lo - p)) \div d
                     ELSE IF d < 0 THEN (24 * (hi - p)) \div d
                     ELSE IF lo <= p /\ p < hi THEN -INF ELSE INF
TOut(lo, hi, p, d) == IF d > 0 THEN (24 * (hi - p)) \div d
                      ELSE IF d < 0 THEN (24 * (lo - p)) \div d
                      ELSE IF lo <= p /\ p < hi THEN INF ELSE -INF

CellIn(c, p, d) == Max2(Max2(TIn(4 * c[1], 4 * c[1] + 4, p[1], d[1]), TIn(4 * c[2], 4 * c[2] + 4, p[2], d[2])),
                        Max2(TIn(4 * c[3], 4 * c[3] + 4, p[3], d[3]), 0))
CellOut(c, p, d) == Min2(Min2(TOut(4 * c[1], 4 * c[1] + 4, p[1], d[1]), TOut(4 * c[2], 4 * c[2] + 4, p[2], d[2])),
                         TOut(4 * c[3], 4 * c[3] + 4, p[3], d[3]))
CellLen(c, p, d) == Max2(0, CellOut(c, p, d) - CellIn(c, p, d))

Cells(N) == (0 .. N[1] - 1) \X (0 .. N[2] - 1) \X (0 .. N[3] - 1)
Flat(N, c) == c[1] * N[2] * N[3] + c[2] * N[3] + c[3]

\* time at which the ray leaves the block, and through what
BlockOut(N, p, d) == Min2(Min2(TOut(0, 4 * N[1], p[1], d[1]), TOut(0, 4 * N[2], p[2], d[2])), TOut(0, 4 * N[3], p[3], d[3]))
ExitSign(N, p, d) ==
    LET T == BlockOut(N, p, d)
        S(k) == IF d[k] # 0 /\ TOut(0, 4 * N[k], p[k], d[k]) = T THEN (IF d[k] > 0 THEN 1 ELSE -1) ELSE 0
    IN <<S(1), S(2), S(3)>>

\* visit the cells with positive length in the order of their entry times.
\* The target optical depth is given in HALF units and is odd (tau2 = 2 tau + 1):
\* cell optical depths are whole units, so the target is never reached exactly
\* on a cell boundary and "absorbed in this cell or the next" does not depend
\* on round-off.  Lengths are returned in QUARTER units of T (suffix 4) so that
\* the absorption point in a cell of opacity 1 or 2 is an integer.
RECURSIVE Walk(_, _, _, _, _, _, _)
Walk(N, p, d, kap, tau2, todo, st) ==
    IF todo = {} \/ st.absorbed THEN st
    ELSE LET c == CHOOSE x \in todo : \A y \in todo : CellIn(x, p, d) <= CellIn(y, p, d)
             L == CellLen(c, p, d)
             k == kap[Flat(N, c) + 1]
         IN IF k > 0 /\ 2 * k * L + st.acc2 > tau2
            THEN [st EXCEPT !.absorbed = TRUE,
                            !.dep4 = [@ EXCEPT ![Flat(N, c) + 1] = ((tau2 - st.acc2) * 2) \div k],
                            !.tend4 = 4 * CellIn(c, p, d) + ((tau2 - st.acc2) * 2) \div k,
                            !.acc2 = tau2]
            ELSE Walk(N, p, d, kap, tau2, todo \ {c},
                      [st EXCEPT !.dep4 = [@ EXCEPT ![Flat(N, c) + 1] = 4 * L], !.acc2 = @ + 2 * k * L])

Trace(N, p, d, kap, tau2) ==
    LET live == {c \in Cells(N) : CellLen(c, p, d) > 0}
        st0 == [absorbed |-> FALSE, acc2 |-> 0, tend4 |-> 0,
                dep4 |-> [i \in 1 .. N[1] * N[2] * N[3] |-> 0]]
        st == Walk(N, p, d, kap, tau2, live, st0)
        T4 == IF st.absorbed THEN st.tend4 ELSE 4 * BlockOut(N, p, d)
    IN [absorbed |-> st.absorbed, used2 |-> st.acc2, dep4 |-> st.dep4,
        exit |-> IF st.absorbed THEN <<0, 0, 0>> ELSE ExitSign(N, p, d),
        t4 |-> T4,
        \* end point times 96
        end96 |-> <<96 * p[1] + T4 * d[1], 96 * p[2] + T4 * d[2], 96 * p[3] + T4 * d[3]>>]
=============================================================================
