--------------------------- MODULE SnapshotRoundTrip ---------------------------
(***************************************************************************)
(* C20, snapshot clause: "a snapshot written from a grid and read back as  *)
(* initial condition on the same geometry reproduces each cell's density,  *)
(* temperature and neutral fractions to the stored precision".              *)
(* Layer A is the identity on cell values.  Binding E: the geometries      *)
(* (cells per axis, subgrids per axis dividing them) are enumerated here    *)
(* and printed for the harness; binding T: the harness writes seeded cell   *)
(* values with the real GadgetDensityGridWriter, reads them back with the   *)
(* real CMacIonizeSnapshotDensityFunction on the same geometry and reports  *)
(* the largest relative deviation per field in units of 10^-9 - bounded    *)
(* here (the fields are stored as doubles, unit factors may cost a few ulp).*)
(***************************************************************************)
EXTENDS Integers, Sequences, FiniteSets, TLC, Json, IOUtils

Cells == {4, 6, 8, 9, 12}
Divs(n) == {d \in 1 .. n : n % d = 0 /\ d <= 4}
Geometries == {<<g1, g2, g3, s1, s2, s3>> \in Cells \X Cells \X Cells \X (1 .. 4) \X (1 .. 4) \X (1 .. 4) :
                  /\ s1 \in Divs(g1) /\ s2 \in Divs(g2) /\ s3 \in Divs(g3)
                  /\ g1 * g2 * g3 <= 900 /\ s1 * s2 * s3 <= 16}
\* subgrids with more than 10 000 cells (the writer moves the data in blocks of 10 000 cells)
Big == {<<24, 24, 24, 1, 1, 1>>, <<22, 24, 20, 1, 1, 1>>, <<48, 24, 24, 2, 1, 1>>, <<24, 22, 42, 1, 1, 2>>}
Bound == 1

Results == IF "RESULTS" \in DOMAIN IOEnv THEN ndJsonDeserialize(IOEnv.RESULTS) ELSE <<>>
BadCase(r) == r.dev_n > Bound \/ r.dev_T > Bound \/ r.dev_x > Bound
ASSUME PrintT(<<"GEOMETRIES", ToJson(Geometries)>>)
ASSUME PrintT(<<"BIG", ToJson(Big)>>)
ASSUME PrintT(<<"BADSNAPS", ToJson([i \in 1 .. Len(Results) |-> IF BadCase(Results[i]) THEN 1 ELSE 0])>>)
VARIABLE x
Init == x = 0
Next == UNCHANGED x
Spec == Init /\ [][Next]_x
=============================================================================
