SPECIFICATION Spec
CONSTRAINT TrackL
INVARIANTS HandedAtMostOnce NoGhostTasks QuiescentCount QuiescentQueues QuiescentLocks NoLostUpdate
POSTCONDITION PrintMaxL
CHECK_DEADLOCK FALSE
