SPECIFICATION Spec
CONSTRAINT TrackL
INVARIANTS HandedAtMostOnce NoGhostTasks QuiescentCount QuiescentQueues QuiescentLocks NoLostUpdate NotAccepted
POSTCONDITION PrintMaxL
CHECK_DEADLOCK FALSE
