------------------------------- MODULE AMRMarch -------------------------------
(***************************************************************************)
(* C16, Layer B: the traversal of AMRDensityGrid::interact through a       *)
(* refined forest (AMRTree): in the current leaf find the nearest wall      *)
(* along the direction of travel - on a tie x wins over y and z, y over z:  *)
(* the packet then crosses the other wall with a step of length zero in the *)
(* next cell -, credit the step to the leaf, follow the leaf's neighbour    *)
(* pointer across that wall (same level or coarser) and, if that node has   *)
(* children, descend to the leaf that contains the crossing point (a child  *)
(* is the upper one along an axis iff the point lies strictly above the     *)
(* node's centre).  Refinement claim (MarchRefinesGeometry): when the march *)
(* has ended, absorbed-or-left and the path credited to every leaf equal    *)
(* the closed-form geometry RayLattice!Trace on the finest uniform lattice, *)
(* summed over the finest cells of the leaf.  Box boundaries are open here  *)
(* (periodic wrap of the flat lattice is RayMarchPeriodic).                 *)
(* Lattice: a cell of the finest depth D is 4 units, x(T) = p + T d / 24.   *)
(***************************************************************************)
EXTENDS AMRTree, RayLattice

CONSTANTS NBX, NBY, NBZ,   \* top level blocks
          D,               \* finest depth
          Leaves,          \* the tree: set of leaves (AMRTree nodes)
          KapOf(_),        \* opacity of a leaf
          DMax, Taus2, Starts1D

NB == <<NBX, NBY, NBZ>>
NF == <<NBX * Pow(2, D), NBY * Pow(2, D), NBZ * Pow(2, D)>>      \* finest cells per axis
NoPer == <<FALSE, FALSE, FALSE>>
Dirs == {dd \in (-DMax .. DMax) \X (-DMax .. DMax) \X (-DMax .. DMax) : dd # <<0, 0, 0>>}

VARIABLES p, d, tau2, leaf, t, acc2, dep4, phase
vars == <<p, d, tau2, leaf, t, acc2, dep4, phase>>

\* box of a node in lattice units
NLo(n, k) == Coord(n, k) * 4 * Pow(2, D - Level(n))
NSide(n) == 4 * Pow(2, D - Level(n))
Holds(n, pp) == \A k \in 1 .. 3 : NLo(n, k) <= pp[k] /\ pp[k] < NLo(n, k) + NSide(n)
Sgn(x) == IF x > 0 THEN 1 ELSE IF x < 0 THEN -1 ELSE 0
\* start points: inside the box, not on its lower boundary moving outwards, and not running inside a cell face
ValidStart(pp, dd) == \A k \in 1 .. 3 : ~(pp[k] = 0 /\ dd[k] < 0) /\ ~(dd[k] = 0 /\ pp[k] % 4 = 0)

Init == /\ p \in {pp \in Starts1D \X Starts1D \X Starts1D : \A k \in 1 .. 3 : pp[k] < 4 * NF[k]}
        /\ d \in Dirs /\ ValidStart(p, d) /\ tau2 \in Taus2
        /\ leaf = CHOOSE n \in Leaves : Holds(n, p)
        /\ t = 0 /\ acc2 = 0 /\ dep4 = [n \in Leaves |-> 0] /\ phase = "run"

WallT(k) == IF d[k] > 0 THEN (24 * (NLo(leaf, k) + NSide(leaf) - p[k])) \div d[k]
            ELSE IF d[k] < 0 THEN (24 * (NLo(leaf, k) - p[k])) \div d[k]
            ELSE INF
\* the wall that is crossed: strictly nearest, ties x > y > z
Axis == LET tx == WallT(1)
            ty == WallT(2)
            tz == WallT(3)
        IN IF tx < ty /\ tx < tz THEN 1
           ELSE IF ty < tx /\ ty < tz THEN 2
           ELSE IF tz < tx /\ tz < ty THEN 3
           ELSE IF tx = ty \/ tx = tz THEN 1 ELSE 2
\* descend from node n to the leaf that contains the crossing point x24 (position times 24)
RECURSIVE Descend(_, _)
Descend(n, x24) ==
    IF n \in Leaves THEN n
    ELSE LET up(k) == IF x24[k] > 24 * NLo(n, k) + 12 * NSide(n) THEN 1 ELSE 0
         IN Descend([b |-> n.b, path |-> Append(n.path, 4 * up(1) + 2 * up(2) + up(3))], x24)

Step ==
    /\ phase = "run"
    /\ LET a == Axis
           tn == WallT(a)
           L == tn - t
           k0 == KapOf(leaf)
       IN IF k0 > 0 /\ 2 * k0 * L + acc2 > tau2
          THEN /\ dep4' = [dep4 EXCEPT ![leaf] = @ + ((tau2 - acc2) * 2) \div k0]
               /\ acc2' = tau2 /\ phase' = "absorbed" /\ UNCHANGED <<leaf, t>>
          ELSE LET nb == Ngb(Leaves, NB, NoPer, leaf, a, Sgn(d[a]))
                   x24 == [k \in 1 .. 3 |-> 24 * p[k] + tn * d[k]]
               IN /\ dep4' = [dep4 EXCEPT ![leaf] = @ + 4 * L]
                  /\ acc2' = acc2 + 2 * k0 * L
                  /\ t' = tn
                  /\ IF nb = None THEN phase' = "left" /\ UNCHANGED leaf
                     ELSE phase' = "run" /\ leaf' = Descend(nb, x24)
    /\ UNCHANGED <<p, d, tau2>>
Next == Step
Spec == Init /\ [][Next]_vars /\ WF_vars(Step)

\* ---- refinement ----
FineCells(n) == LET s == Pow(2, D - Level(n))
                IN {<<x, y, z>> : x \in Coord(n, 1) * s .. Coord(n, 1) * s + s - 1,
                                  y \in Coord(n, 2) * s .. Coord(n, 2) * s + s - 1,
                                  z \in Coord(n, 3) * s .. Coord(n, 3) * s + s - 1}
LeafOfFine(c) == CHOOSE n \in Leaves : c \in FineCells(n)
KapFine == [i \in 1 .. NF[1] * NF[2] * NF[3] |->
              LET c == <<(i - 1) \div (NF[2] * NF[3]), ((i - 1) \div NF[3]) % NF[2], (i - 1) % NF[3]>>
              IN KapOf(LeafOfFine(c))]
Geo == Trace(NF, p, d, KapFine, tau2)
SumOver(S, f) == LET RECURSIVE Sm(_)
                     Sm(T) == IF T = {} THEN 0 ELSE LET x == CHOOSE y \in T : TRUE IN f[Flat(NF, x) + 1] + Sm(T \ {x})
                 IN Sm(S)
MarchRefinesGeometry ==
    phase # "run" =>
        /\ (phase = "absorbed") = Geo.absorbed
        /\ acc2 = Geo.used2
        /\ \A n \in Leaves : dep4[n] = SumOver(FineCells(n), Geo.dep4)
Terminates == <>(phase # "run")
=============================================================================
