----------------------------- MODULE TimeLineB -----------------------------
(***************************************************************************)
(* Layer B for C19: the algorithm of TimeLine.hpp, step by step.           *)
(*   constructor: halve from the full range until not larger than the      *)
(*                configured minimum / maximum; clamp (min >= 1, max >=    *)
(*                min);                                                    *)
(*   advance:     start from the maximum step, halve while larger than     *)
(*                the request; 0 -> stop; halve while it does not divide   *)
(*                the time left; below minimum -> stop; else advance.      *)
(* Checked to refine TimeLineA (PROPERTY A!Spec) for all configurations    *)
(* of the small model, and replayed transition by transition into the      *)
(* real class (binding R).                                                 *)
(***************************************************************************)
EXTENDS Naturals, FiniteSets

CONSTANTS K, MinCfg4, MaxCfg4, Reqs4

VARIABLES t, alive, sum, last, saved
vars == <<t, alive, sum, last, saved>>

N == 2^K

RECURSIVE HalveWhileLarger(_, _)
\* while (A*s > limit) s >>= 1   (s = 0 ends the loop: A*0 = 0 <= limit)
HalveWhileLarger(s, limit4) ==
    IF s > 0 /\ 4 * s > limit4 THEN HalveWhileLarger(s \div 2, limit4) ELSE s

RECURSIVE HalveWhileNotDividing(_, _)
HalveWhileNotDividing(s, left) ==
    IF s > 0 /\ left % s > 0 THEN HalveWhileNotDividing(s \div 2, left) ELSE s

MaxOf(a, b) == IF a >= b THEN a ELSE b

MinStep == IF MinCfg4 > 0 THEN MaxOf(1, HalveWhileLarger(N, MinCfg4)) ELSE 1
MaxStep == IF MaxCfg4 > 0 THEN MaxOf(MinStep, HalveWhileLarger(N, MaxCfg4)) ELSE N

Init == /\ t = 0 /\ alive = TRUE /\ sum = 0
        /\ last = [kind |-> "init", req4 |-> 0, step |-> 0]
        /\ saved = <<>>

AdvanceB(r4) ==
    /\ alive
    /\ LET s0 == HalveWhileLarger(MaxStep, r4)
           s1 == IF s0 = 0 THEN 0 ELSE HalveWhileNotDividing(s0, N - t)
       IN IF s0 = 0 \/ s1 < MinStep
          THEN /\ alive' = FALSE
               /\ last' = [kind |-> "stop", req4 |-> r4, step |-> 0]
               /\ UNCHANGED <<t, sum>>
          ELSE /\ t' = t + s1
               /\ sum' = sum + s1
               /\ alive' = (t + s1 < N)
               /\ last' = [kind |-> "step", req4 |-> r4, step |-> s1]
    /\ UNCHANGED saved

Save == /\ saved' = <<t, alive, sum>>
        /\ last' = [kind |-> "save", req4 |-> 0, step |-> 0]
        /\ UNCHANGED <<t, alive, sum>>

Restore == /\ saved # <<>>
           /\ t' = saved[1] /\ alive' = saved[2] /\ sum' = saved[3]
           /\ last' = [kind |-> "restore", req4 |-> 0, step |-> 0]
           /\ UNCHANGED saved

Next == (\E r4 \in Reqs4 : AdvanceB(r4)) \/ Save \/ Restore
Spec == Init /\ [][Next]_vars
\* without save/restore (smaller graph for the per-transition replay)
SpecNoSave == Init /\ [][\E r4 \in Reqs4 : AdvanceB(r4)]_vars

A == INSTANCE TimeLineA
\* Refinement of Layer A.  RefinesA is the plain statement; TLC evaluates the
\* existential quantifiers of A!Next by enumeration for every transition,
\* which is slow, so the checks use the equivalent form with the witnesses
\* (request and step) taken from the ghost variable last.
RefinesA == A!Spec
RefinesAByWitness ==
    [][\/ /\ last'.kind = "step" /\ last'.req4 \in Reqs4
           /\ A!Step(last'.req4, last'.step)
        \/ /\ last'.kind = "stop" /\ last'.req4 \in Reqs4
           /\ A!Stop(last'.req4)
        \/ A!Save
        \/ A!Restore]_vars
ASSUME ConstructorAgrees == MinStep = A!EffMin /\ MaxStep = A!EffMax

\* the code takes the LARGEST admissible step (stronger than the property;
\* used only as documentation of Layer B, never for a verdict on the code)
TakesLargest ==
    [][last'.kind = "step" => last'.step = A!SetMax(A!Cands(t, last'.req4))]_vars
=============================================================================
