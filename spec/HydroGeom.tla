----------------------------- MODULE HydroGeom -----------------------------
(***************************************************************************)
(* Geometry of the subgrid layout and the hydro task table: Layer A        *)
(* (Touches, Precedes, FaceTask - what the scheme requires) and the table  *)
(* the code builds (LockList, Children, InitParents, TaskId).  Constants    *)
(* only; used by HydroGraph (model checking) and Trace_HydroStep (traces   *)
(* of the real code).  See HydroGraph.tla for the slot numbering.          *)
(***************************************************************************)
EXTENDS Integers, Sequences, FiniteSets

CONSTANTS NX, NY, NZ,      \* subgrid layout
          PX, PY, PZ,      \* periodicity flags
          SELFFIX          \* TRUE: a self-neighbour task declares its single lock once

NG == NX * NY * NZ
Grids == 0 .. (NG - 1)
OUTSIDE == -1
NOTASK == <<-1, -1>>

Idx(ix, iy, iz) == ix * NY * NZ + iy * NZ + iz
GX(g) == g \div (NY * NZ)
GY(g) == (g - GX(g) * NY * NZ) \div NZ
GZ(g) == g - GX(g) * NY * NZ - GY(g) * NZ

Dim(a) == CASE a = 0 -> NX [] a = 1 -> NY [] a = 2 -> NZ
Per(a) == CASE a = 0 -> PX [] a = 1 -> PY [] a = 2 -> PZ
Coord(g, a) == CASE a = 0 -> GX(g) [] a = 1 -> GY(g) [] a = 2 -> GZ(g)
Shift(g, a, c) == CASE a = 0 -> Idx(c, GY(g), GZ(g))
                    [] a = 1 -> Idx(GX(g), c, GZ(g))
                    [] a = 2 -> Idx(GX(g), GY(g), c)

\* geometric face neighbour of g along axis a in direction s (+1 / -1)
Ngb(g, a, s) ==
  LET c == Coord(g, a) + s IN
  IF c >= 0 /\ c < Dim(a) THEN Shift(g, a, c)
  ELSE IF Per(a) THEN Shift(g, a, IF c < 0 THEN Dim(a) - 1 ELSE 0)
  ELSE OUTSIDE

Slots == 0 .. 17
Axes == 0 .. 2
AxisOfSlot(s) == CASE s \in {1,2,10,11} -> 0 [] s \in {3,4,12,13} -> 1 [] s \in {5,6,14,15} -> 2 [] OTHER -> -1
PosSlots == {1,3,5,10,12,14}
NegSlots == {2,4,6,11,13,15}

Exists(g, s) == IF s \in NegSlots THEN Ngb(g, AxisOfSlot(s), -1) = OUTSIDE ELSE TRUE
Tasks == { <<g, s>> \in Grids \X Slots : Exists(g, s) }

\* partner subgrid of a neighbour sweep (OUTSIDE for boundary / internal tasks)
Partner(t) == IF t[2] \in PosSlots THEN Ngb(t[1], AxisOfSlot(t[2]), 1) ELSE OUTSIDE

----------------------------------------------------------------------------
\* Layer A: requirements of the scheme

Touches(t) == IF Partner(t) = OUTSIDE THEN {t[1]} ELSE {t[1], Partner(t)}

Stage(t) == CASE t[2] \in 0..6 -> 1 [] t[2] = 7 -> 2 [] t[2] = 8 -> 3
              [] t[2] \in 9..15 -> 4 [] t[2] = 16 -> 5 [] t[2] = 17 -> 6

\* u must be finished before t starts: u is a task of the previous stage and
\*  - limiter / conserved update of g need every sweep that touches g,
\*  - predict / primitive update of g need the limiter / conserved update of g,
\*  - a flux sweep needs the prediction of every subgrid it touches
Precedes(u, t) ==
  /\ Stage(u) + 1 = Stage(t)
  /\ CASE Stage(t) \in {2, 5} -> t[1] \in Touches(u)
       [] Stage(t) \in {3, 6} -> u[1] = t[1]
       [] Stage(t) = 4 -> u[1] \in Touches(t)

\* faces of subgrid g: <<axis, sign>>
Faces == Axes \X {-1, 1}
\* the sweep task of stage base (1 gradient, 10 flux) responsible for face f of g
FaceTask(g, f, base) ==
  LET a == f[1] IN
  IF f[2] = 1 THEN <<g, base + 2 * a>>
  ELSE IF Ngb(g, a, -1) = OUTSIDE THEN <<g, base + 2 * a + 1>>
  ELSE <<Ngb(g, a, -1), base + 2 * a>>

----------------------------------------------------------------------------
\* Layer B: the table built by make_hydro_tasks / set_dependencies / reset_hydro_tasks

LockList(t) ==
  LET g == t[1] p == Partner(t) IN
  IF p = OUTSIDE THEN <<g>>
  ELSE IF p = g THEN (IF SELFFIX THEN <<g>> ELSE <<g, g>>)
  ELSE IF g < p THEN <<g, p>> ELSE <<p, g>>

NegTask(g, a, base) ==
  LET sl == base + 2 * a + 1 IN
  IF Ngb(g, a, -1) = OUTSIDE THEN <<g, sl>> ELSE <<Ngb(g, a, -1), base + 2 * a>>
PosTask(g, a, base) == <<g, base + 2 * a>>

\* children added to t by set_dependencies(h), in program order
\* (NegTab1 / NegTab10: tables of NegTask, evaluated once)
NegTab1 == [h \in Grids |-> [a \in Axes |-> NegTask(h, a, 1)]]
NegTab10 == [h \in Grids |-> [a \in Axes |-> NegTask(h, a, 10)]]
FromGrid(t, h) ==
    (IF t = <<h,0>> THEN << <<h,7>> >> ELSE << >>) \o
    (IF t = <<h,1>> THEN << <<h,7>> >> ELSE << >>) \o
    (IF t = NegTab1[h][0] THEN << <<h,7>> >> ELSE << >>) \o
    (IF t = <<h,3>> THEN << <<h,7>> >> ELSE << >>) \o
    (IF t = NegTab1[h][1] THEN << <<h,7>> >> ELSE << >>) \o
    (IF t = <<h,5>> THEN << <<h,7>> >> ELSE << >>) \o
    (IF t = NegTab1[h][2] THEN << <<h,7>> >> ELSE << >>) \o
    (IF t = <<h,7>> THEN << <<h,8>> >> ELSE << >>) \o
    (IF t = <<h,8>> THEN << <<h,9>>, <<h,10>>, NegTab10[h][0], <<h,12>>,
                           NegTab10[h][1], <<h,14>>, NegTab10[h][2] >> ELSE << >>) \o
    (IF t = <<h,9>> THEN << <<h,16>> >> ELSE << >>) \o
    (IF t = <<h,10>> THEN << <<h,16>> >> ELSE << >>) \o
    (IF t = NegTab10[h][0] THEN << <<h,16>> >> ELSE << >>) \o
    (IF t = <<h,12>> THEN << <<h,16>> >> ELSE << >>) \o
    (IF t = NegTab10[h][1] THEN << <<h,16>> >> ELSE << >>) \o
    (IF t = <<h,14>> THEN << <<h,16>> >> ELSE << >>) \o
    (IF t = NegTab10[h][2] THEN << <<h,16>> >> ELSE << >>) \o
    (IF t = <<h,16>> THEN << <<h,17>> >> ELSE << >>)

RECURSIVE CatGrids(_, _)
CatGrids(t, h) == IF h = NG THEN << >> ELSE FromGrid(t, h) \o CatGrids(t, h + 1)
Children == [t \in Tasks |-> CatGrids(t, 0)]

InitParents(t) ==
  LET s == t[2] IN
  CASE s \in 0..6 -> 0
    [] s = 7 -> 7
    [] s = 8 -> 1
    [] s = 9 -> 1
    [] s \in {10,12,14} -> IF Partner(t) = OUTSIDE THEN 1 ELSE 2
    [] s \in {11,13,15} -> 1
    [] s = 16 -> 7
    [] s = 17 -> 1

\* the task index the code assigns (get_free_element hands out 0,1,2,... while
\* the table is built subgrid by subgrid, slot by slot)
TaskId(t) == Cardinality({u \in Tasks : u[1] < t[1] \/ (u[1] = t[1] /\ u[2] < t[2])})

\* constant tables (evaluated once by TLC)
PrecSet == [t \in Tasks |-> {u \in Tasks : Precedes(u, t)}]
GradServed == [t \in Tasks |-> [h \in Grids |-> {f \in Faces : FaceTask(h, f, 1) = t}]]
FluxServed == [t \in Tasks |-> [h \in Grids |-> {f \in Faces : FaceTask(h, f, 10) = t}]]
TouchTab == [t \in Tasks |-> Touches(t)]
LockTab == [t \in Tasks |-> LockList(t)]

\* static consistency of the table with Layer A (top-level constant tables are
\* evaluated once by TLC; LET-bound ones are not)
ChildSet(t) == {Children[t][i] : i \in 1 .. Len(Children[t])}
LockSet(t) == {LockTab[t][i] : i \in 1 .. Len(LockTab[t])}
FaceTasksExist == \A g \in Grids : \A f \in Faces :
                     FaceTask(g, f, 1) \in Tasks /\ FaceTask(g, f, 10) \in Tasks
FaceCover == \A t \in Tasks : t[2] \in (1..6) \cup (10..15) =>
                 LET base == IF t[2] <= 6 THEN 1 ELSE 10
                     served == {<<g, f>> \in Grids \X Faces : FaceTask(g, f, base) = t}
                 IN Cardinality(served) = (IF Partner(t) = OUTSIDE THEN 1 ELSE 2)
ChildSetTab == [u \in Tasks |-> {Children[u][i] : i \in 1 .. Len(Children[u])}]
CountersMatch ==
    \A t \in Tasks :
         InitParents(t) = Cardinality({<<u, i>> \in {v \in Tasks : t \in ChildSetTab[v]} \X (1..7) :
                                           i <= Len(Children[u]) /\ Children[u][i] = t})
EdgesImplementPrecedes == \A t \in Tasks : \A u \in PrecSet[t] : t \in ChildSetTab[u]
LocksCoverFootprint == \A t \in Tasks : Touches(t) = {LockList(t)[i] : i \in 1 .. Len(LockList(t))}
StaticOK == FaceTasksExist /\ FaceCover /\ CountersMatch /\ EdgesImplementPrecedes /\ LocksCoverFootprint
=============================================================================
