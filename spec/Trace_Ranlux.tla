----------------------------- MODULE Trace_Ranlux -----------------------------
(***************************************************************************)
(* Binding T for C13: histories of the real RandomGenerator (seeding,      *)
(* draws, saving to / restoring from a restart file at arbitrary stream    *)
(* positions) validated against Ranlux.  Values travel as the two 24-bit   *)
(* limbs of value * 2^48 (hi = -1: the value was not such a fraction or    *)
(* not in [0,1)).                                                          *)
(*   {"e":"seed","s":s} {"e":"draw","hi":h,"lo":l} {"e":"save"}            *)
(*   {"e":"restore"}                                                       *)
(*   {"e":"rerun","same":0|1}  two one-thread runs of the same             *)
(*        photoionization problem with the same seed wrote byte-identical  *)
(*        snapshots (1) or not (0)                                         *)
(*   {"e":"seeds","differ":0|1}  two runs that differ only in the seed     *)
(*        wrote different snapshots                                        *)
(*   {"e":"batches","n":n,"distinct":d}  of the n batches of packets drawn *)
(*        by the discrete source of one run (all iterations), d had        *)
(*        pairwise different fingerprints of the random numbers used: a    *)
(*        generator that advances never replays a batch                    *)
(***************************************************************************)
EXTENDS Ranlux, Json, IOUtils

TraceLog == ndJsonDeserialize(IOEnv.TRACE)
VARIABLES l, rerun, flags
vars == <<ring, carry, pos, out, saved, l, rerun, flags>>
Rec == TraceLog[l]
IsEvent(e) == l <= Len(TraceLog) /\ Rec.e = e /\ l' = l + 1

Init == /\ ring = SeedRing(42) /\ carry = 0 /\ pos = 12 /\ out = <<-1, -1>> /\ saved = <<>> /\ l = 1 /\ rerun = 1 /\ flags = {}
TSeed == IsEvent("seed") /\ Seed(Rec.s) /\ UNCHANGED <<rerun, flags>>
TDraw == IsEvent("draw") /\ Draw /\ out' = <<Rec.hi, Rec.lo>> /\ UNCHANGED <<rerun, flags>>
TSave == IsEvent("save") /\ Save /\ UNCHANGED <<rerun, flags>>
TRestore == IsEvent("restore") /\ Restore /\ UNCHANGED <<rerun, flags>>
TRerun == IsEvent("rerun") /\ rerun' = Rec.same /\ UNCHANGED <<gvars, flags>>
TSeeds == IsEvent("seeds") /\ flags' = flags \cup (IF Rec.differ = 1 THEN {} ELSE {"seedignored"}) /\ UNCHANGED <<gvars, rerun>>
TBatches == IsEvent("batches") /\ flags' = flags \cup (IF Rec.distinct = Rec.n THEN {} ELSE {"replayed"}) /\ UNCHANGED <<gvars, rerun>>
Next == TSeed \/ TDraw \/ TSave \/ TRestore \/ TRerun \/ TSeeds \/ TBatches
Spec == Init /\ [][Next]_vars

\* same seed, same input, one thread: identical output
RunDeterministic == rerun = 1
\* different seeds give different streams (seen through the run: the seed matters)
SeedMatters == "seedignored" \notin flags
\* the stream a run consumes advances: no batch of packets is drawn from the same random numbers as another one
StreamAdvances == "replayed" \notin flags

ASSUME TLCSet(1, 0)
TrackL == TLCSet(1, IF l > TLCGet(1) THEN l ELSE TLCGet(1))
PrintMaxL == PrintT(<<"MAXL", TLCGet(1)>>)
=============================================================================
