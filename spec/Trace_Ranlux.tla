----------------------------- MODULE Trace_Ranlux -----------------------------
(***************************************************************************)
(* Binding T for C13: histories of the real RandomGenerator (seeding,      *)
(* draws, saving to / restoring from a restart file at arbitrary stream    *)
(* positions) validated against Ranlux.  Values travel as the two 24-bit   *)
(* limbs of value * 2^48 (hi = -1: the value was not such a fraction or    *)
(* not in [0,1)).                                                          *)
(*   {"e":"seed","s":s} {"e":"draw","hi":h,"lo":l} {"e":"save"}            *)
(*   {"e":"restore"}                                                       *)
(*   {"e":"rerun","same":0|1}  two one-thread runs of the same             *)
(*        photoionization problem with the same seed wrote byte-identical  *)
(*        snapshots (1) or not (0)                                         *)
(***************************************************************************)
EXTENDS Ranlux, Json, IOUtils

TraceLog == ndJsonDeserialize(IOEnv.TRACE)
VARIABLES l, rerun
vars == <<ring, carry, pos, out, saved, l, rerun>>
Rec == TraceLog[l]
IsEvent(e) == l <= Len(TraceLog) /\ Rec.e = e /\ l' = l + 1

Init == /\ ring = SeedRing(42) /\ carry = 0 /\ pos = 12 /\ out = <<-1, -1>> /\ saved = <<>> /\ l = 1 /\ rerun = 1
TSeed == IsEvent("seed") /\ Seed(Rec.s) /\ UNCHANGED rerun
TDraw == IsEvent("draw") /\ Draw /\ out' = <<Rec.hi, Rec.lo>> /\ UNCHANGED rerun
TSave == IsEvent("save") /\ Save /\ UNCHANGED rerun
TRestore == IsEvent("restore") /\ Restore /\ UNCHANGED rerun
TRerun == IsEvent("rerun") /\ rerun' = Rec.same /\ UNCHANGED gvars
Next == TSeed \/ TDraw \/ TSave \/ TRestore \/ TRerun
Spec == Init /\ [][Next]_vars

\* same seed, same input, one thread: identical output
RunDeterministic == rerun = 1

ASSUME TLCSet(1, 0)
TrackL == TLCSet(1, IF l > TLCGet(1) THEN l ELSE TLCGet(1))
PrintMaxL == PrintT(<<"MAXL", TLCGet(1)>>)
=============================================================================
