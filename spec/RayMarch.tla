------------------------------- MODULE RayMarch -------------------------------
(***************************************************************************)
(* C02 / C16, Layer B: the cell-by-cell marching of a photon packet        *)
(* through a regular block as the code does it (DensitySubGrid::interact,  *)
(* CartesianDensityGrid::interact): start in the cell floor(p / cell),     *)
(* repeat { distance to the next wall along every axis the packet moves    *)
(* along; the smallest one is the step; credit the step to the current     *)
(* cell (cut where the target optical depth is reached); advance the cell  *)
(* index along EVERY axis that attains the minimum (edges, corners) } until *)
(* the packet is absorbed or the index leaves the block.                   *)
(*                                                                         *)
(* Same lattice as RayLattice (a cell is 4 units, x(T) = p + T d / 24, all *)
(* wall crossing times are integers).  The module states the refinement    *)
(* claim that binds Layer B to Layer A: when the march has ended, the      *)
(* deposits, the absorbed-or-left verdict, the face / edge / corner it     *)
(* left through and the end time are exactly those of the closed-form      *)
(* geometry RayLattice!Trace (invariant MarchRefinesGeometry); TLC checks  *)
(* it for every start point, direction and target of a small block.        *)
(***************************************************************************)
EXTENDS RayLattice, TLC

CONSTANTS NX, NY, NZ,      \* cells per axis
          DMax,            \* direction components in -DMax .. DMax
          Kaps,            \* set of opacity patterns: functions flat index (1-based) -> opacity
          Taus2            \* set of target optical depths in half units (odd)

N == <<NX, NY, NZ>>
NCell == NX * NY * NZ
Dirs == {d \in (-DMax .. DMax) \X (-DMax .. DMax) \X (-DMax .. DMax) : d # <<0, 0, 0>>}
Starts == (0 .. 4 * NX - 1) \X (0 .. 4 * NY - 1) \X (0 .. 4 * NZ - 1)

VARIABLES p, d, kap, tau2,       \* the case (constant along a behaviour)
          c, t, acc2, dep4, phase, exit
vars == <<p, d, kap, tau2, c, t, acc2, dep4, phase, exit>>

Sign(x) == IF x > 0 THEN 1 ELSE IF x < 0 THEN -1 ELSE 0
\* a packet on the lower boundary of the block moving outwards leaves immediately: not a valid start
ValidStart(pp, dd) == \A k \in 1 .. 3 : ~(pp[k] = 0 /\ dd[k] < 0)

Init == /\ p \in Starts /\ d \in Dirs /\ ValidStart(p, d)
        /\ kap \in Kaps /\ tau2 \in Taus2
        /\ c = <<p[1] \div 4, p[2] \div 4, p[3] \div 4>>
        /\ t = 0 /\ acc2 = 0 /\ dep4 = [i \in 1 .. NCell |-> 0]
        /\ phase = "run" /\ exit = <<0, 0, 0>>

\* time at which the packet reaches the wall of the current cell it moves towards along axis k
WallT(k) == IF d[k] > 0 THEN (24 * (4 * (c[k] + 1) - p[k])) \div d[k]
            ELSE IF d[k] < 0 THEN (24 * (4 * c[k] - p[k])) \div d[k]
            ELSE INF
NextT == Min2(Min2(WallT(1), WallT(2)), WallT(3))
Inside(cc) == \A k \in 1 .. 3 : cc[k] >= 0 /\ cc[k] < N[k]

Step ==
    /\ phase = "run"
    /\ LET tn == NextT
           L == tn - t
           i == Flat(N, c) + 1
           k0 == kap[i]
       IN IF k0 > 0 /\ 2 * k0 * L + acc2 > tau2
          THEN /\ dep4' = [dep4 EXCEPT ![i] = @ + ((tau2 - acc2) * 2) \div k0]
               /\ t' = t                     \* (the end time is kept in quarter units by EndT4)
               /\ acc2' = tau2
               /\ phase' = "absorbed"
               /\ UNCHANGED <<c, exit>>
          ELSE LET cn == [k \in 1 .. 3 |-> IF WallT(k) = tn THEN c[k] + Sign(d[k]) ELSE c[k]]
               IN /\ dep4' = [dep4 EXCEPT ![i] = @ + 4 * L]
                  /\ acc2' = acc2 + 2 * k0 * L
                  /\ t' = tn
                  /\ c' = cn
                  /\ IF Inside(cn) THEN phase' = "run" /\ UNCHANGED exit
                     ELSE /\ phase' = "left"
                          /\ exit' = [k \in 1 .. 3 |-> IF cn[k] < 0 THEN -1 ELSE IF cn[k] >= N[k] THEN 1 ELSE 0]
    /\ UNCHANGED <<p, d, kap, tau2>>

Next == Step
Spec == Init /\ [][Next]_vars /\ WF_vars(Step)

\* ---- refinement: the march ends with exactly the closed-form geometry ----
RECURSIVE SumTo(_, _)
SumTo(f, n) == IF n = 0 THEN 0 ELSE f[n] + SumTo(f, n - 1)
Geo == Trace(N, p, d, kap, tau2)
MarchRefinesGeometry ==
    phase # "run" =>
        /\ (phase = "absorbed") = Geo.absorbed
        /\ dep4 = Geo.dep4
        /\ acc2 = Geo.used2
        /\ phase = "left" => /\ exit = Geo.exit
                             /\ 4 * t = Geo.t4
\* along the way: what has been credited so far is the time travelled, the optical depth used is sum of opacity x length
Dot2(f, g, n) == LET RECURSIVE D(_)
                     D(j) == IF j = 0 THEN 0 ELSE f[j] * g[j] + D(j - 1)
                 IN D(n)
PathSum == phase = "run" => /\ SumTo(dep4, NCell) = 4 * t
                            /\ Dot2(dep4, kap, NCell) = 2 * acc2
\* the march always ends (the packet is absorbed or leaves)
Terminates == <>(phase # "run")
=============================================================================
